"""Regenerates MANIFEST.json from the table below (run by hand; the checks never call it)."""
import json

CHECKS = {
 "C01": ("static analysis: table/dispatch agreement, operand provenance, symbolic unit/matrix conformance, bit-order typestate",
         "Decides the structural part, not the numerical behaviour: translator dispatch vs name table (cirq, sympy; all 11 in thorough), whole-control-list consumption or refusal, "
         "control-before-target operand order, angle units against a frozen model of the cirq symbols and exact symbolic equality of the hand-written sympy matrices, "
         "bit order of every returned bitstring/statevector vs the advertised order, identity-on-every-qubit and initial-state forwarding. Holds for every circuit because it "
         "is a fact about tables, provenance and constants; behaviour inside cirq/sympy is assumed.", "DESIGN.md 3 C01"),
 "C02": ("static analysis: exact basis-change algebra, argument-forwarding dataflow, sibling agreement, route truth tables",
         "Decides the structural part: measurement-basis rotations satisfy U^dagger Z U = P exactly; initial_statevector and desired_meas_result reach every nested evaluation "
         "(consuming 'prepare once' idiom recognised from reaching definitions); expectation and variance routes agree; route selection is total; parity-estimator skeleton. "
         "Numerical equality with <psi|H|psi> and sampling statistics are not decided.", "DESIGN.md 3 C02"),
 "C03": ("static analysis: dispatch exhaustiveness, symbolic parity-sector formula, sibling agreement of re-orderings",
         "Thin structural part only: encoder dispatch is exhaustive and case-normalised, register size provenance, (n+s)/2 formula, substituted = pruned = state-encoder qubits, "
         "three implementations of the spin re-ordering agree. Linearity / CAR / spectra are algebraic facts about runtime values and third-party transforms: not decided.", "DESIGN.md 3 C03"),
 "C04": ("static analysis: spin-sort typestate over the UHF integral handling, layout derived from the integral solver",
         "One structural clause: every subscript / np.ix_ selection / up_index / down_index in the unrestricted integral handling receives indices of the right spin, with the layout "
         "of the mixed block derived from the pyscf call and transposition; alpha/beta split clone; 1/2 factors. Energies and FCI equality are numerical and not decided.", "DESIGN.md 3 C04"),
 "C05": ("static analysis: symbolic validation of formula clones and slices, sibling agreement, folded vector->circuit",
         "Structural part: all clones of the alpha/beta split equal (n+-s)/2 symbolically, fill slices select the right number of positions, state encoder and operator encoder delete "
         "the same qubits, dispatch coverage, folded vector_to_circuit. BK encoder matrix / Majorana construction / JKMN tree are not decided.", "DESIGN.md 3 C05"),
 "C06": ("static analysis: partial evaluation of the generators + exact symbolic matrix comparison",
         "Structural part with a strong core: exp_pauliword_to_gates is folded (coefficient symbolic, both signs) for every 2-qubit word and representative 3-qubit words with 0/1/2 "
         "controls and the product of the emitted gates is compared exactly with exp(-i c P) / its controlled version; angle law mod 4 pi; identity-term rule; Suzuki recursion "
         "(orders 1,2,4) symbolically; time/step scaling of trotterize. The commutator error bound is numerical and not decided.", "DESIGN.md 3 C06"),
 "C07": ("static analysis: guard dominance on the CFG, clone/symbolic angle agreement, loop-carried offset rule",
         "Structural part for all 12 Ansatz subclasses: length validation dominates every store into the variational gates; update shares or clones build's placement; written angles "
         "equal the build path's modulo 4 pi; index tables filled in the emitting loop; running offsets; support change handled. Equality of unitaries is not decided.", "DESIGN.md 3 C07"),
 "C08": ("static analysis: save/restore pairing on the exception-aware CFG, call-site agreement, assembly agreement",
         "Structural part: the solver's Hamiltonian is never left swapped; mapping comparisons case-normalised; active-space defaults for every mapping; encoder arguments agree with the "
         "Hamiltonian build; the evaluated circuit is assembled identically in every evaluation entry point (reference override included); deflation term shape. "
         "The variational bound and energy values are not decided.", "DESIGN.md 3 C08"),
 "C09": ("static analysis: folded inverse table, period table conformance, may-mutate analysis, exact Clifford algebra",
         "Structural part: 22-row inverse table with symbolic angle, every modulus applied to an angle is a multiple of the gate's true period, out-of-place transformations cannot "
         "write to their input (alias analysis), 12-row Clifford table exact up to phase, index rewriting keeps width coherent, ordered re-indexing. "
         "That merging/cancelling preserves the unitary beyond these necessary conditions is not decided.", "DESIGN.md 3 C09"),
 "C10": ("static analysis: argument forwarding, probability dataflow, symbolic collapse obligations, clone agreement",
         "Thin structural part: mid-circuit arguments forwarded and validated, every branch probability multiplied into the stored success probability, reshape extents / zeroed "
         "slice / returned probability of the collapse, duplicated control loop agrees with the simulator's, frequency splitters use complementary index sets and accumulate. "
         "Born-rule numerics are not decided.", "DESIGN.md 3 C10"),
 "C11": ("static analysis: who-may-write with local-owner escape analysis, may-mutate analysis, validation dominance",
         "Strongest fit: only the owners write circuit summary / gate identity fields (foreign writers only on local circuits rebuilt before escaping); every read-only operation "
         "(11 translators, simulation entry points per backend class, depth/inverse/copy/+/*/==, out-of-place passes) cannot write the observable part of its circuit; "
         "Gate.__init__ validation dominates the state store and rejects exactly non-non-negative-int indices; arity classes cover what translators assume; add_gate updates all "
         "summaries from target+control and validates before mutating. Depth values are not decided.", "DESIGN.md 3 C11"),
 "C12": ("static analysis: folded term lists compared as exact Fock-space matrices; structural penalty checks",
         "Structural part: N, S_z, S^2 term lists folded from the source equal the physical operators as exact integer matrices for 1-3 orbitals and both orderings (exhaustive for the "
         "templates' index patterns); penalty constructors; re-ordering agreement. Commutation with Hamiltonians and conservation along ansatz parameters are not decided.", "DESIGN.md 3 C12"),
 "C13": ("static analysis: may-mutate analysis with numpy views, call-site and index-placement agreement, spin sorts",
         "Structural part: RDM padding cannot write into the arrays passed in; excitation operators measured for the RDMs are encoded with the same arguments as the Hamiltonian; "
         "index placement / transposition / spin-summing agree between sibling implementations; spin blocks receive terms of their own spin pattern. "
         "Energies, Hermiticity and traces are not decided.", "DESIGN.md 3 C13"),
 "C14": ("static analysis: resolved-API existence against the installed numpy stubs; exact 2x2 validation of a decision table",
         "Two structural clauses: every numpy attribute used by the tapering modules exists in the installed numpy (a removed attribute breaks tapering for every input); every leaf "
         "of the trivial-qubit decision table is validated with exact algebra for all admitted gate combinations, plus the operator coefficient rule. "
         "Kernel computation, Clifford choice, spectra and the truncation bound are not decided.", "DESIGN.md 3 C14"),
 "C16": ("static analysis: per-class MRO-resolved may-mutate analysis, guard analysis, exact Pauli-table conformance",
         "Decides: no arithmetic dunder of any operator class (inherited openfermion bodies parsed, operator syntax dispatched) writes to an operand; subclass-only attributes are "
         "read from the other operand only under a guard; MultiformOperator encoding/phase/XOR tables equal the Pauli algebra exactly; commutation reduction; numpy API. "
         "Algebraic correctness of openfermion's own term arithmetic is assumed.", "DESIGN.md 3 C16"),
 "C17": ("static analysis: writer o reader folded over the name tables (translation validation by constant folding)",
         "Structural part: per gate name the writer's chain is folded into the emitted record/text and that through the reader's chain; name, qubits, parameter presence must come back; "
         "two-control gates refused or preserved; chains end in raise; Gate.__repr__ folded and re-parsed against the constructor. Number formatting of arbitrary floats is not decided; "
         "qiskit/braket object translators only at table level.", "DESIGN.md 3 C17"),
 "C18": ("static analysis: accumulation and positional-selection obligations, may-mutate analysis",
         "Thin structural part: every re-keying site accumulates, marginalisation/post-selection select positions as documented, frequencies are normalised by the total count, "
         "out-of-place histogram operations cannot write to their inputs, per-basis assembly visits each term once. openfermion's grouping, rounding and resampling are not decided.", "DESIGN.md 3 C18"),
 "C19": ("static analysis: folded validation function, guard truth tables, channel-block provenance, symbolic rate",
         "Structural part: malformed noise specifications are rejected before anything is stored (folded over a case table); backend guards equal the documented rule on all 16 "
         "configurations; the cirq channel block follows each gate, is keyed by its name, iterates all errors and covers every target and control; depolarising rate normalises to "
         "p(4^k-1)/4^k with the same k; the noise model reaches every translation. Channel mathematics inside cirq is assumed.", "DESIGN.md 3 C19"),
}
NOTE = ("Trusted base: CPython ast/compile; sympy exact arithmetic and simplify on expressions extracted from the source; networkx dominators/reachability; the restricted constant "
        "folder sa/consteval.py; frozen library-summary tables of sa/alias.py; reference gate/Pauli/period tables and API models stated in the checker; instance floors confirmed by reading. "
        "Nothing imports or runs tangelo. Numerical behaviour behind the property is NOT decided - only the clauses named in level_claimed.text.")
m = {
 "version": 1,
 "setup_cmd": "true",
 "hooks": {"guard": "TANGELO_VERIF", "enable": "none: the checkers only parse /repo sources; no hook is compiled into the repository and the guard is unused",
           "baseline_off_cmd": "cd /repo && /venv/bin/python -m pytest -ra -q -p no:cacheprovider --timeout=900 --continue-on-collection-errors -n 12",
           "source_commits": [], "add_only": True},
 "engines": [{"name": "sa", "path": "sa/", "serves_properties": sorted(CHECKS),
              "kind_free_text": "repository-specific static analysis over Python syntax trees: may-mutate/alias analysis with callee summaries, who-may-write + escape analysis, statement CFG with "
                                "dominators, table/dispatch extraction, restricted constant folder (partial evaluation of table-like functions), sympy normalisation of extracted expressions"}],
 "checks": [],
 "not_applicable": [
   {"property_id": "C15", "reason": "every clause (ONIOM telescoping, DMET exact embedding, electron count after the chemical-potential search, relabelling invariance, inclusion-exclusion) is an identity "
    "between floating-point energies produced by SCF/CI solvers at run time; no clause is a table, ordering, ownership or provenance fact, and the one shape-level candidate would be a frozen-fragment match"},
   {"property_id": "C20", "reason": "QFT, multiplexed state preparation and phase estimation are statements about products of 2^n x 2^n unitaries for all n and all amplitude vectors; the generating code is "
    "recursive over runtime list lengths and data-dependent angles, with no finite table or sibling to compare against (static analysis cannot bound it; not switched to another technique)"}],
 "notes": "See DESIGN.md. Exit codes: 0 held (known findings printed as KNOWN-FINDING), 1 VIOLATION, 2 ANALYSIS-ERROR (checker cannot decide: anchor vanished, idiom unknown, floor not met).",
}
for pid in sorted(CHECKS):
    tech, text, ref = CHECKS[pid]
    m["checks"].append({
        "property_id": pid,
        "quick_cmd": f"/venv/bin/python -m sa.check {pid} --tier quick",
        "thorough_cmd": f"/venv/bin/python -m sa.check {pid} --tier thorough",
        "evidence_file": f"evidence/{pid}.json",
        "replay_cmd_template": "/venv/bin/python -m sa.check --replay {path}",
        "engine": "sa",
        "level_claimed": {"category": "other", "text": text, "design_ref": ref},
        "level_note": NOTE,
        "technique": tech,
    })
json.dump(m, open("/verif/MANIFEST.json", "w"), indent=1)
print("wrote", len(m["checks"]), "checks")
