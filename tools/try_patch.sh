#!/bin/bash
# usage: try_patch.sh <patch.diff> <prop> : run a check against a scratch copy of /repo/tangelo with the patch applied
D=$(mktemp -d /dev/shm/tp-XXXXXX); cp -r /repo/tangelo $D/; patch -p1 -s -f -d $D -i $1 >/dev/null || echo "PATCH FAILED"
cd /verif && SA_REPO=$D SA_NO_SELFTEST=1 /venv/bin/python -m sa.check $2 --evidence-dir $D/ev 2>&1 | grep "violation:\|ANALYSIS\|^\[C" | cut -c1-260
rm -rf $D
