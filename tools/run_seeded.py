#!/venv/bin/python
"""Runs the registered checks against every seeded mutation in /verif/seeded/<id>/ on scratch copies of /repo/tangelo
(the same result as `git -C /repo apply patch.diff; <check>; git -C /repo checkout -- .`, without touching /repo).
usage: tools/run_seeded.py [id-prefix]"""
import json, os, shutil, subprocess, sys, tempfile
from concurrent.futures import ProcessPoolExecutor
from pathlib import Path

VERIF = Path(__file__).resolve().parent.parent
sys.path.insert(0, str(VERIF))


def one(d: Path):
    meta = json.loads((d / "meta.json").read_text())
    prop = meta["property"]
    base = Path("/dev/shm") if Path("/dev/shm").is_dir() else Path(tempfile.gettempdir())
    sc = Path(tempfile.mkdtemp(prefix="tangelo-seed-", dir=str(base)))
    try:
        shutil.copytree("/repo/tangelo", sc / "tangelo", ignore=shutil.ignore_patterns("__pycache__", "*.pyc"))
        # patch.diff is the mutation as it was delivered and confirmed; where a later fix commit rewrote the same lines, patch_current.diff is the same
        # mutation re-expressed against the current tree
        pf = d / "patch_current.diff" if (d / "patch_current.diff").exists() else d / "patch.diff"
        r = subprocess.run(["patch", "-p1", "-s", "-f", "-d", str(sc), "-i", str(pf)], capture_output=True, text=True)
        if r.returncode != 0:
            return d.name, prop, "PATCH-FAILS", r.stdout[-200:]
        env = dict(os.environ, SA_REPO=str(sc), SA_NO_SELFTEST="1", PYTHONPATH=str(VERIF))
        out = subprocess.run(["/venv/bin/python", "-m", "sa.check", prop, "--evidence-dir", str(sc / "ev")], capture_output=True, text=True, env=env, cwd=str(VERIF))
        viol = [l.strip() for l in out.stdout.splitlines() if l.strip().startswith("violation:")]
        status = {0: "MISSED", 1: "DETECTED", 2: "ANALYSIS-ERROR"}.get(out.returncode, str(out.returncode))
        extra = viol[0][:230] if viol else (out.stdout.strip().splitlines()[-1][:200] if out.returncode == 2 else "")
        return d.name, prop, status, extra
    finally:
        shutil.rmtree(sc, ignore_errors=True)


def main():
    pref = sys.argv[1] if len(sys.argv) > 1 else ""
    dirs = sorted(p for p in (VERIF / "seeded").iterdir() if p.is_dir() and p.name.startswith(pref) and (p / "meta.json").exists())
    with ProcessPoolExecutor(max_workers=8) as ex:
        res = list(ex.map(one, dirs))
    for name, prop, status, extra in res:
        print(f"{name:12s} {prop} {status:14s} {extra}")
    print(f"{sum(1 for r in res if r[2] == 'DETECTED')}/{len(res)} detected")
    if not pref:
        import re
        st_path = VERIF / "seeded" / "STATUS.json"
        st = json.loads(st_path.read_text()) if st_path.exists() else {}
        st["now"] = {}
        rows = ["| mutation | what it changes (needs) | first run | now (reporting rule) |", "|---|---|---|---|"]
        for name, prop, status, extra in res:
            m = re.search(r"\[(K[0-9]+\.[^\]]+)\]", extra)
            rule = m.group(1) if m else ""
            st["now"][name] = f"{status} {rule}".strip()
            meta = json.loads((VERIF / "seeded" / name / "meta.json").read_text())
            files = sorted({l[6:].strip() for l in (VERIF / "seeded" / name / "patch.diff").read_text().splitlines() if l.startswith("+++ b/")})
            what = ", ".join(f.split("/")[-1] for f in files) + ": " + meta.get("needs_to_manifest", "")
            rows.append(f"| {name} | {what} | {st.get('first_run', {}).get(name, '-')} | {status} {rule} |")
        st_path.write_text(json.dumps(st, indent=1))
        (VERIF / "seeded" / "TABLE.md").write_text("\n".join(rows) + "\n")


if __name__ == "__main__":
    main()
