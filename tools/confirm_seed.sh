#!/bin/bash
# usage: confirm_seed.sh <worktree> <n> [pytest targets...]
# confirms a seeded mutation in its scratch worktree: patch applies, demo FAILS with it, given tests pass with it, demo PASSES without it
WT=$1; N=$2; shift 2
cd $WT || exit 9
git checkout -q -- tangelo
git apply --check _mut/$N/patch.diff || { echo "PATCH DOES NOT APPLY"; exit 9; }
git apply _mut/$N/patch.diff
PYTHONPATH=$WT timeout 900 /venv/bin/python _mut/$N/demo.py > /tmp/demo_with.txt 2>&1; RC1=$?
echo "demo with patch: exit $RC1 ($(tail -1 /tmp/demo_with.txt | cut -c1-100))"
if [ $# -gt 0 ]; then
  PYTHONPATH=$WT timeout 3000 /venv/bin/python -m pytest -q -p no:cacheprovider -n 6 "$@" 2>&1 | tail -3
fi
git checkout -q -- tangelo
PYTHONPATH=$WT timeout 900 /venv/bin/python _mut/$N/demo.py > /tmp/demo_without.txt 2>&1; RC2=$?
echo "demo on clean tree: exit $RC2 ($(tail -1 /tmp/demo_without.txt | cut -c1-100))"
[ $RC1 -eq 1 ] && [ $RC2 -eq 0 ] && echo CONFIRMED || echo NOT-CONFIRMED
