#!/bin/bash
# usage: save_seed.sh <seed-id> <worktree> <n> <property> "<needs>" "<ran>"
[ -e /verif/seeded/$1 ] && { echo "seed id $1 already exists - choose another"; exit 9; }
mkdir -p /verif/seeded/$1 && cp $2/_mut/$3/patch.diff /verif/seeded/$1/patch.diff && cp $2/_mut/$3/demo.py /verif/seeded/$1/demo.py && cp $2/_mut/$3/notes.md /verif/seeded/$1/notes.md
python3 - "$1" "$4" "$5" "$6" <<'PY'
import json,sys
i,p,needs,ran=sys.argv[1:5]
json.dump({"id":i,"property":p,"needs_to_manifest":needs,"confirmed":{"how":"scratch git worktree of /repo: patch applied -> demo.py exits 1; listed tests pass with the patch; clean tree -> demo.py exits 0","ran":ran},"source":"independent sub-agent given only the property text and a scratch worktree"},open(f"/verif/seeded/{i}/meta.json","w"),indent=1)
PY
