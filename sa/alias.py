"""May-mutate / may-alias analysis (rule kind K1, also used by K2).

Abstract interpretation of one function at a time over its syntax tree:
variables are tracked flow-sensitively (strong update on rebinding, join at
branches, fixed point on loops), the heap flow-insensitively.

Abstract objects
  ("P", param, path)   everything reachable from parameter `param` through the access path
                       `path` (tuple of attribute names / "[]"), truncated at depth MAXPATH
  ("A", site)          an object allocated in the analysed function at `site`; it has one
                       points-to set `contents` for all of its fields / elements

A *mutation event* is a store through an abstract object (attribute / subscript store, del,
in-place augmented assignment, mutating method of a builtin container, or a call whose callee
summary says it mutates the corresponding parameter).  Rules decide which events are violations.

Callee summaries are computed on demand by analysing the callee with every parameter as a
P-root, to a fixed depth, with recursion cut conservatively.
"""
from __future__ import annotations

import ast
from dataclasses import dataclass, field
from typing import Dict, FrozenSet, Iterable, List, Optional, Set, Tuple

from .index import ClassInfo, FunctionInfo, Index, ModuleInfo, AnalysisError, norm

MAXPATH = 4
Obj = Tuple

# ---------------------------------------------------------------------------
# frozen library knowledge (trusted base, DESIGN.md 1.1)
# ---------------------------------------------------------------------------
MUTATING_METHODS = {
    "append", "extend", "insert", "pop", "remove", "clear", "update", "add", "discard", "sort", "reverse",
    "setdefault", "popitem", "__setitem__", "__delitem__", "fill", "itemset", "resize", "put", "setflags",
    "partition", "subtract", "appendleft", "popleft", "difference_update", "intersection_update",
    "symmetric_difference_update", "__iadd__", "__isub__", "__imul__", "__itruediv__", "__ior__", "__iand__",
}
# openfermion SymbolicOperator in-place methods (parsed when reachable; listed for receivers of unknown type)
MUTATING_METHODS_OPERATORS = {"compress", "renormalize", "accumulate"}
VIEW_METHODS = {"transpose", "reshape", "ravel", "view", "swapaxes", "squeeze", "diagonal", "__iter__",
                "__enter__", "conj_view"}
VIEW_ATTRS = {"T", "real", "imag", "flat"}
VIEW_FUNCS = {"numpy.asarray", "numpy.transpose", "numpy.reshape", "numpy.ravel", "numpy.squeeze",
              "numpy.swapaxes", "numpy.moveaxis", "numpy.asanyarray", "numpy.atleast_1d", "numpy.atleast_2d",
              "numpy.ascontiguousarray", "numpy.diagonal", "numpy.real", "numpy.imag", "numpy.expand_dims",
              "numpy.broadcast_to", "iter"}
ELEMENT_ITER_FUNCS = {"reversed", "enumerate", "zip", "list", "tuple", "set", "frozenset", "sorted", "dict",
                      "filter", "map", "itertools.chain", "itertools.product", "itertools.combinations",
                      "collections.Counter", "collections.OrderedDict", "collections.deque", "max", "min", "next",
                      "copy.copy", "sum"}
ELEMENT_ITER_METHODS = {"items", "values", "keys", "get", "copy", "union", "intersection", "difference",
                        "__getitem__", "most_common", "elements"}
DEEP_FRESH_FUNCS = {"copy.deepcopy", "len", "int", "float", "str", "bool", "abs", "round", "range", "isinstance",
                    "hasattr", "type", "repr", "complex", "print", "id", "hash", "callable", "any", "all",
                    "numpy.array", "numpy.copy", "numpy.zeros", "numpy.ones", "numpy.empty", "numpy.identity",
                    "numpy.eye", "numpy.zeros_like", "numpy.einsum", "numpy.dot", "numpy.kron", "numpy.allclose",
                    "numpy.linalg.norm", "numpy.delete", "numpy.concatenate", "numpy.sqrt", "numpy.abs",
                    "numpy.isclose", "numpy.where", "numpy.prod", "numpy.sum", "numpy.tensordot", "numpy.outer",
                    "numpy.diag", "numpy.trace", "numpy.conj", "numpy.exp", "numpy.log2", "math.log2"}
DEEP_FRESH_METHODS = {"tolist", "astype", "flatten", "conj", "conjugate", "sum", "dot", "round", "upper", "lower",
                      "strip", "split", "join", "format", "startswith", "endswith", "count", "index", "replace",
                      "encode", "mean", "std", "trace", "nonzero", "any", "all", "isdigit", "rstrip", "lstrip",
                      "to01", "item", "evalf", "subs", "is_integer"}
EXTERNAL_MUTATORS = {  # fq function -> index of the mutated positional argument
    "numpy.fill_diagonal": 0, "numpy.put": 0, "numpy.copyto": 0, "numpy.place": 0, "numpy.putmask": 0,
    "random.shuffle": 0, "numpy.random.shuffle": 0, "heapq.heappush": 0, "heapq.heappop": 0,
    "heapq.heapify": 0, "pyscf.lib.takebak_2d": 0, "setattr": 0, "delattr": 0, "bisect.insort": 0, "numpy.add.at": 0,
}
# attribute / element names whose values are immutable scalars in this code base: a path ending here
# denotes no mutable object (keeps the collapsed P-objects from flagging arithmetic on numbers / strings)
SCALAR_FIELDS = {"name", "parameter", "is_variational", "width", "size", "n_shots", "n_qubits", "shape",
                 "_qubits_simulated", "n_electrons", "n_active_electrons", "spin", "n_active_sos", "n_active_mos",
                 "qubit_mapping", "up_then_down", "mapping", "n_var_params", "dtype", "ndim", "real_scalar",
                 "freq_threshold", "statevector_order", "n_terms", "constant", "n_active_ab_electrons",
                 "active_spin", "n_spinorbitals", "uhf", "q", "mf_energy", "n_mos", "n_sos", "basis", "charge"}
SCALAR_ELEMENT_FIELDS = {"target", "control", "_qubit_indices", "shape", "qubit_indices", "terms"}
# repo constructors whose result shares no mutable state with the arguments (each is established by the
# K1.ctor obligations of C11: Gate copies target/control into new lists; Circuit.add_gate stores a new Gate)
GATE_FQ = "tangelo.linq.gate.Gate"
CIRCUIT_FQ = "tangelo.linq.circuit.Circuit"
DEEP_FRESH_CLASSES = {GATE_FQ, CIRCUIT_FQ}
GATE_LIST_FIELDS = {"_gates", "_variational_gates", "_applied_gates"}
# user-supplied callback objects: a call through them is opaque; its effects are attributed to the callback
# object itself (an event below that field) and its result is a fresh object
OPAQUE_FIELDS = {"_cmeasure_control"}
# naming convention of this repository for un-annotated parameters (receiver typing only)
QUBITOP_FQ = "tangelo.toolboxes.operators.operators.QubitOperator"
PARAM_NAME_CLASSES = {"circuit": CIRCUIT_FQ, "source_circuit": CIRCUIT_FQ, "state_prep_circuit": CIRCUIT_FQ,
                      "gate": GATE_FQ, "qubit_operator": QUBITOP_FQ}


def P(param: str, path: Tuple[str, ...] = ()) -> Obj:
    return ("P", param, path)


def is_P(o: Obj) -> bool:
    return o[0] == "P"


def extend(o: Obj, step: str) -> Optional[Obj]:
    """P-object reached from `o` through one access step, or None when the result is an immutable scalar."""
    _, param, path = o
    if step != "[]" and step in SCALAR_FIELDS:
        return None
    full = (param,) + path
    if step == "[]" and full and full[-1] in SCALAR_ELEMENT_FIELDS:
        return None
    if path and path[-1] == "*":
        return o
    if len(path) >= MAXPATH:
        return ("P", param, path[:MAXPATH - 1] + ("*",))
    return ("P", param, path + (step,))


@dataclass
class Event:
    obj: Obj                 # abstract object written through
    kind: str                # attr | subscript | del | aug | aug-name | method | call
    fieldname: Optional[str]
    node: ast.AST
    func: FunctionInfo
    chain: Tuple[str, ...] = ()     # callee chain for interprocedural events
    value: FrozenSet[Obj] = frozenset()

    def path(self) -> Tuple[str, ...]:
        """effective written path for P-objects (object path + written field)"""
        if not is_P(self.obj):
            return ()
        p = self.obj[2]
        if self.kind in ("attr", "del-attr") and self.fieldname:
            return p + (self.fieldname,)
        return p

    def describe(self) -> str:
        tgt = self.obj[1] + "".join("." + s if s not in ("[]", "*") else s for s in self.obj[2]) if is_P(self.obj) else "local"
        via = (" via " + " -> ".join(self.chain)) if self.chain else ""
        f = f".{self.fieldname}" if self.fieldname and self.kind in ("attr", "del-attr") else ""
        return f"{self.kind} store through {tgt}{f}{via}"


@dataclass
class Summary:
    func: FunctionInfo
    mutations: List[Tuple] = field(default_factory=list)  # (param, object path, kind, written field, chain)
    returns: Set[Obj] = field(default_factory=set)         # P-objects that may be returned directly
    returns_holding: Set[Obj] = field(default_factory=set)  # P-objects reachable from a fresh returned object
    returns_fresh: bool = False
    stores: Set[Tuple[str, str]] = field(default_factory=set)  # (dst param, src param): src-reachable stored into dst
    complete: bool = True


class Analyzer:
    """Interprocedural driver with a summary cache."""

    def __init__(self, index: Index, max_depth: int = 4):
        self.index = index
        self.max_depth = max_depth
        self.cache: Dict[Tuple[str, Optional[str]], Summary] = {}
        self.in_progress: Set[Tuple[str, Optional[str]]] = set()
        self.stats = {"functions_analysed": 0, "call_sites": 0, "call_sites_resolved": 0,
                      "call_sites_library": 0, "call_sites_unknown": 0}
        self.unknown_calls: Dict[str, int] = {}

    def analyze(self, func: FunctionInfo, self_class: Optional[ClassInfo] = None, depth: int = 0,
                param_types: Optional[Dict[str, str]] = None) -> "FuncAnalysis":
        fa = FuncAnalysis(self, func, self_class or func.cls, depth)
        if param_types:
            fa.param_types.update(param_types)
        fa.run()
        self.stats["functions_analysed"] += 1
        return fa

    def summary(self, func: FunctionInfo, self_class: Optional[ClassInfo], depth: int) -> Optional[Summary]:
        key = (func.module.name + ":" + func.qualname, self_class.fq if self_class else None)
        if key in self.cache:
            return self.cache[key]
        if key in self.in_progress:
            return "recursive"
        if depth > self.max_depth:
            return None
        self.in_progress.add(key)
        try:
            fa = self.analyze(func, self_class, depth)
            s = Summary(func)
            for ev in fa.events:
                if is_P(ev.obj):
                    s.mutations.append((ev.obj[1], ev.obj[2], ev.kind, ev.fieldname, (func.qualname,) + ev.chain))
                    for v in fa.closure(ev.value):
                        if is_P(v) and v[1] != ev.obj[1]:
                            s.stores.add((ev.obj[1], v[1]))
            for o in fa.returned:
                if is_P(o):
                    s.returns.add(o)
                else:
                    s.returns_fresh = True
                    for c in fa.closure(fa.heap.get(o, ())):
                        if is_P(c):
                            s.returns_holding.add(c)
            if not fa.returned:
                s.returns_fresh = True
            s.complete = fa.complete
            self.cache[key] = s
            return s
        finally:
            self.in_progress.discard(key)


class FuncAnalysis:
    def __init__(self, an: Analyzer, func: FunctionInfo, self_class: Optional[ClassInfo], depth: int):
        self.an = an
        self.index = an.index
        self.func = func
        self.module: ModuleInfo = func.module
        self.self_class = self_class
        self.depth = depth
        self.heap: Dict[Obj, Set[Obj]] = {}
        self.events: List[Event] = []
        self._event_keys: Set = set()
        self.returned: Set[Obj] = set()
        self.complete = True
        self.changed = False
        self.nested: Dict[str, ast.FunctionDef] = {}
        self.nested_returned: Dict[str, Set[Obj]] = {}
        self.cuts: List[str] = []
        self.recursion_cuts: List[str] = []
        self.site_kind: Dict[Obj, str] = {}
        self.param_types: Dict[str, str] = {}      # parameter -> class fq (annotation / self / naming convention)
        self._init_param_types()

    def _init_param_types(self):
        a = self.func.node.args
        allargs = a.posonlyargs + a.args + a.kwonlyargs
        for i, arg in enumerate(allargs):
            if i == 0 and self.self_class is not None and arg.arg == "self":
                self.param_types[arg.arg] = self.self_class.fq
                continue
            fq = None
            if arg.annotation is not None and isinstance(arg.annotation, (ast.Name, ast.Attribute)):
                r = self.index.resolve_expr(self.module, arg.annotation)
                if isinstance(r, ClassInfo):
                    fq = r.fq
            if fq is None:
                fq = PARAM_NAME_CLASSES.get(arg.arg)
            if fq is not None:
                self.param_types[arg.arg] = fq

    # -- driver ---------------------------------------------------------------
    def run(self):
        env: Dict[str, FrozenSet[Obj]] = {}
        for p in self.func.params:
            env[p] = frozenset([P(p)])
        for n in ast.walk(self.func.node):
            if isinstance(n, (ast.FunctionDef, ast.AsyncFunctionDef)) and n is not self.func.node:
                self.nested[n.name] = n
        for _ in range(40):
            self.changed = False
            self.exec_block(self.func.node.body, dict(env))
            if not self.changed:
                break
        else:
            raise AnalysisError(f"alias: no fixed point for {self.func.ref}")

    # -- heap helpers -----------------------------------------------------------
    def alloc(self, node: ast.AST, kind: str, contents: Iterable[Obj] = ()) -> Obj:
        o = ("A", (getattr(node, "lineno", 0), getattr(node, "col_offset", 0), kind))
        s = self.heap.setdefault(o, set())
        self.site_kind[o] = kind
        for c in contents:
            if c not in s:
                s.add(c)
                self.changed = True
        return o

    def store_into(self, o: Obj, vals: Iterable[Obj]):
        if is_P(o):
            return
        s = self.heap.setdefault(o, set())
        for v in vals:
            if v not in s and v != o:
                s.add(v)
                self.changed = True

    def closure(self, objs: Iterable[Obj]) -> Set[Obj]:
        out: Set[Obj] = set()
        stack = list(objs)
        while stack:
            o = stack.pop()
            if o in out:
                continue
            out.add(o)
            if not is_P(o):
                stack.extend(self.heap.get(o, ()))
        return out

    def elements(self, objs: Iterable[Obj]) -> FrozenSet[Obj]:
        out: Set[Obj] = set()
        for o in objs:
            if is_P(o):
                e = extend(o, "[]")
                if e is not None:
                    out.add(e)
            else:
                out |= self.heap.get(o, set())
        return frozenset(out)

    def attr(self, objs: Iterable[Obj], name: str) -> FrozenSet[Obj]:
        out: Set[Obj] = set()
        for o in objs:
            if is_P(o):
                if name in VIEW_ATTRS:
                    out.add(o)
                    continue
                e = extend(o, name)
                if e is not None:
                    out.add(e)
            else:
                if name in SCALAR_FIELDS and name not in VIEW_ATTRS:
                    continue
                # field-insensitive local object: a field denotes the object's contents, and (for stores and mutating
                # calls through the field, e.g. c._gates.append(g)) the object itself
                out.add(o)
                out |= self.heap.get(o, set())
        return frozenset(out)

    def event(self, obj: Obj, kind: str, fieldname, node, chain=(), value=frozenset()):
        key = (obj, kind, fieldname, getattr(node, "lineno", 0), getattr(node, "col_offset", 0), chain)
        if key in self._event_keys:
            return
        self._event_keys.add(key)
        self.events.append(Event(obj, kind, fieldname, node, self.func, tuple(chain), frozenset(value)))
        self.changed = True

    # -- statements -----------------------------------------------------------
    def exec_block(self, stmts, env):
        for s in stmts:
            env = self.exec_stmt(s, env)
        return env

    @staticmethod
    def join(a, b):
        out = dict(a)
        for k, v in b.items():
            out[k] = out.get(k, frozenset()) | v
        return out

    def exec_stmt(self, s, env):
        if isinstance(s, ast.Assign):
            val = self.eval(s.value, env)
            for t in s.targets:
                self.assign(t, val, env, s.value)
            return env
        if isinstance(s, ast.AnnAssign):
            if s.value is not None:
                self.assign(s.target, self.eval(s.value, env), env, s.value)
            return env
        if isinstance(s, ast.AugAssign):
            val = self.eval(s.value, env)
            t = s.target
            if isinstance(t, ast.Name):
                cur = env.get(t.id, frozenset())
                d = self._dunder_aug(s, type(s.op), cur, val)
                if d is not None:
                    env[t.id] = d
                    return env
                for o in cur:
                    self.event(o, "aug-name", None, s, value=val)
                    self.store_into(o, self.elements(val) | val)
                fresh = self.alloc(s, "augresult", self.elements(cur) | self.elements(val))
                env[t.id] = cur | {fresh}
            elif isinstance(t, ast.Attribute):
                base = self.eval(t.value, env)
                for o in base:
                    self.event(o, "attr", t.attr, s, value=val)
                    self.store_into(o, val)
            elif isinstance(t, ast.Subscript):
                base = self.eval(t.value, env)
                self.eval(t.slice, env)
                for o in base:
                    self.event(o, "subscript", None, s, value=val)
                    self.store_into(o, val | self.elements(val))
            return env
        if isinstance(s, ast.Expr):
            self.eval(s.value, env)
            return env
        if isinstance(s, ast.Return):
            if s.value is not None:
                v = self.eval(s.value, env)
                new = set(v) - self.returned
                if new:
                    self.returned |= new
                    self.changed = True
            return env
        if isinstance(s, ast.Delete):
            for t in s.targets:
                if isinstance(t, ast.Subscript):
                    for o in self.eval(t.value, env):
                        self.event(o, "del", None, s)
                elif isinstance(t, ast.Attribute):
                    for o in self.eval(t.value, env):
                        self.event(o, "del-attr", t.attr, s)
                elif isinstance(t, ast.Name):
                    env.pop(t.id, None)
            return env
        if isinstance(s, ast.If):
            self.eval(s.test, env)
            e1 = self.exec_block(s.body, dict(env))
            e2 = self.exec_block(s.orelse, dict(env))
            return self.join(e1, e2)
        if isinstance(s, (ast.For, ast.AsyncFor)):
            it = self.eval(s.iter, env)
            cur = dict(env)
            for _ in range(4):
                body_env = dict(cur)
                self.assign(s.target, self.elements(it), body_env, None, elementwise=False)
                out = self.exec_block(s.body, body_env)
                nxt = self.join(cur, out)
                if nxt == cur:
                    break
                cur = nxt
            cur = self.exec_block(s.orelse, cur)
            return cur
        if isinstance(s, ast.While):
            cur = dict(env)
            for _ in range(4):
                self.eval(s.test, cur)
                out = self.exec_block(s.body, dict(cur))
                nxt = self.join(cur, out)
                if nxt == cur:
                    break
                cur = nxt
            return self.exec_block(s.orelse, cur)
        if isinstance(s, (ast.With, ast.AsyncWith)):
            for item in s.items:
                v = self.eval(item.context_expr, env)
                if item.optional_vars is not None:
                    self.assign(item.optional_vars, v, env, None)
            return self.exec_block(s.body, env)
        if isinstance(s, ast.Try):
            e = self.exec_block(s.body, dict(env))
            e = self.join(env, e)
            outs = [self.exec_block(s.orelse, dict(e))]
            for h in s.handlers:
                he = dict(e)
                if h.name:
                    he[h.name] = frozenset()
                outs.append(self.exec_block(h.body, he))
            res = outs[0]
            for o in outs[1:]:
                res = self.join(res, o)
            return self.exec_block(s.finalbody, res)
        if isinstance(s, (ast.FunctionDef, ast.AsyncFunctionDef)):
            # closure body: analysed in place with unbound parameters so that writes to captured
            # variables are seen; calls to it additionally go through resolve_call
            inner = dict(env)
            for a in s.args.posonlyargs + s.args.args + s.args.kwonlyargs:
                inner[a.arg] = frozenset()
            saved = self.returned
            self.returned = self.nested_returned.setdefault(s.name, set())
            self.exec_block(s.body, inner)
            self.returned = saved
            env[s.name] = frozenset()
            return env
        if isinstance(s, ast.Raise):
            if s.exc is not None:
                self.eval(s.exc, env)
            return env
        if isinstance(s, ast.Assert):
            self.eval(s.test, env)
            return env
        if isinstance(s, ast.ClassDef):
            return env
        if isinstance(s, (ast.Import, ast.ImportFrom, ast.Pass, ast.Break, ast.Continue, ast.Global, ast.Nonlocal)):
            return env
        if isinstance(s, ast.Match):
            self.eval(s.subject, env)
            res = dict(env)
            for c in s.cases:
                res = self.join(res, self.exec_block(c.body, dict(env)))
            return res
        raise AnalysisError(f"alias: unhandled statement {type(s).__name__} at {self.module.relpath}:{s.lineno}")

    def assign(self, target, val: FrozenSet[Obj], env, value_node, elementwise=True):
        if isinstance(target, ast.Name):
            env[target.id] = frozenset(val)
        elif isinstance(target, (ast.Tuple, ast.List)):
            if isinstance(value_node, (ast.Tuple, ast.List)) and len(value_node.elts) == len(target.elts) \
                    and not any(isinstance(e, ast.Starred) for e in value_node.elts + target.elts):
                for t, v in zip(target.elts, value_node.elts):
                    self.assign(t, self.eval(v, env), env, v)
            else:
                el = self.elements(val)
                for t in target.elts:
                    if isinstance(t, ast.Starred):
                        self.assign(t.value, frozenset([self.alloc(t, "starred", el)]), env, None)
                    else:
                        # nested unpacking of iterator tuples (enumerate / zip / items): elements of elements too
                        self.assign(t, el | self.elements(el) if isinstance(t, (ast.Tuple, ast.List)) else el | self._tuple_members(el),
                                    env, None)
        elif isinstance(target, ast.Attribute):
            base = self.eval(target.value, env)
            for o in base:
                self.event(o, "attr", target.attr, target, value=val)
                self.store_into(o, val)
        elif isinstance(target, ast.Subscript):
            base = self.eval(target.value, env)
            self.eval(target.slice, env)
            for o in base:
                self.event(o, "subscript", None, target, value=val)
                self.store_into(o, val)
        elif isinstance(target, ast.Starred):
            self.assign(target.value, val, env, None)

    def _tuple_members(self, objs) -> FrozenSet[Obj]:
        """members of fresh tuples produced by enumerate/zip/items element objects"""
        out: Set[Obj] = set()
        for o in objs:
            if not is_P(o) and self.site_kind.get(o) in ("itertuple",):
                out |= self.heap.get(o, set())
        return frozenset(out)

    # -- expressions ------------------------------------------------------------
    def eval(self, e, env) -> FrozenSet[Obj]:
        if e is None:
            return frozenset()
        if isinstance(e, ast.Name):
            return env.get(e.id, frozenset())
        if isinstance(e, ast.Constant):
            return frozenset()
        if isinstance(e, ast.Attribute):
            return self.attr(self.eval(e.value, env), e.attr)
        if isinstance(e, ast.Subscript):
            base = self.eval(e.value, env)
            self.eval(e.slice, env)
            sl = e.slice
            is_slice = isinstance(sl, ast.Slice) or (isinstance(sl, ast.Tuple) and any(isinstance(x, ast.Slice) for x in sl.elts))
            out: Set[Obj] = set(self.elements(base))
            if is_slice:
                # list slice = fresh list with the same elements; ndarray slice = view of the same buffer
                out |= set(base)
            return frozenset(out)
        if isinstance(e, ast.Call):
            return self.eval_call(e, env)
        if isinstance(e, (ast.List, ast.Tuple, ast.Set)):
            cont: Set[Obj] = set()
            for x in e.elts:
                if isinstance(x, ast.Starred):
                    cont |= self.elements(self.eval(x.value, env))
                else:
                    cont |= self.eval(x, env)
            return frozenset([self.alloc(e, "tuple" if isinstance(e, ast.Tuple) else "list", cont)])
        if isinstance(e, ast.Dict):
            cont = set()
            for k, v in zip(e.keys, e.values):
                if k is None:
                    cont |= self.elements(self.eval(v, env))
                else:
                    cont |= self.eval(k, env) | self.eval(v, env)
            return frozenset([self.alloc(e, "dict", cont)])
        if isinstance(e, (ast.ListComp, ast.SetComp, ast.GeneratorExp, ast.DictComp)):
            cenv = dict(env)
            for _ in range(2):
                for g in e.generators:
                    it = self.eval(g.iter, cenv)
                    self.assign(g.target, self.elements(it), cenv, None, elementwise=False)
                    for c in g.ifs:
                        self.eval(c, cenv)
            if isinstance(e, ast.DictComp):
                cont = self.eval(e.key, cenv) | self.eval(e.value, cenv)
            else:
                cont = self.eval(e.elt, cenv)
            return frozenset([self.alloc(e, "list", cont)])
        if isinstance(e, ast.BinOp):
            l, r = self.eval(e.left, env), self.eval(e.right, env)
            d = self._dunder_binop(e, type(e.op), l, r)
            if d is not None:
                return d
            cont = self.elements(l) | self.elements(r)
            if not cont:
                return frozenset()
            return frozenset([self.alloc(e, "binop", cont)])
        if isinstance(e, ast.UnaryOp):
            v = self.eval(e.operand, env)
            if isinstance(e.op, ast.USub):
                cl = self.receiver_classes(v)
                if cl:
                    out: Set[Obj] = set()
                    hit = False
                    for c in cl:
                        m = self.index.find_method(c, "__neg__")
                        if m is not None:
                            hit = True
                            out |= self._apply_summary(m, c, True, v, [], [], {}, e)
                    if hit:
                        return frozenset(out)
            cont = self.elements(v)
            return frozenset([self.alloc(e, "unop", cont)]) if cont else frozenset()
        if isinstance(e, ast.BoolOp):
            out = frozenset()
            for v in e.values:
                out |= self.eval(v, env)
            return out
        if isinstance(e, ast.IfExp):
            self.eval(e.test, env)
            return self.eval(e.body, env) | self.eval(e.orelse, env)
        if isinstance(e, ast.Compare):
            self.eval(e.left, env)
            for c in e.comparators:
                self.eval(c, env)
            return frozenset()
        if isinstance(e, ast.JoinedStr):
            for v in e.values:
                if isinstance(v, ast.FormattedValue):
                    self.eval(v.value, env)
            return frozenset()
        if isinstance(e, ast.FormattedValue):
            self.eval(e.value, env)
            return frozenset()
        if isinstance(e, ast.Lambda):
            return frozenset()
        if isinstance(e, ast.Starred):
            return self.elements(self.eval(e.value, env))
        if isinstance(e, ast.Slice):
            for x in (e.lower, e.upper, e.step):
                if x is not None:
                    self.eval(x, env)
            return frozenset()
        if isinstance(e, ast.NamedExpr):
            v = self.eval(e.value, env)
            self.assign(e.target, v, env, e.value)
            return v
        if isinstance(e, (ast.Await, ast.Yield, ast.YieldFrom)):
            v = self.eval(e.value, env) if e.value is not None else frozenset()
            if isinstance(e, (ast.Yield, ast.YieldFrom)):
                self.returned |= set(v)
            return v
        raise AnalysisError(f"alias: unhandled expression {type(e).__name__} at {self.module.relpath}:{getattr(e, 'lineno', 0)}")

    # -- operator syntax on objects of known class ----------------------------------
    _OPS = {ast.Add: "add", ast.Sub: "sub", ast.Mult: "mul", ast.Div: "truediv", ast.Pow: "pow", ast.MatMult: "matmul",
            ast.BitOr: "or", ast.BitAnd: "and", ast.BitXor: "xor", ast.Mod: "mod", ast.FloorDiv: "floordiv"}

    def _dunder_binop(self, node, op, l, r) -> Optional[FrozenSet[Obj]]:
        nm = self._OPS.get(op)
        if nm is None:
            return None
        lc = self.receiver_classes(l)
        if lc:
            out: Set[Obj] = set()
            hit = False
            for c in lc:
                m = self.index.find_method(c, f"__{nm}__")
                if m is not None:
                    hit = True
                    out |= self._apply_summary(m, c, True, l, [r], [False], {}, node)
            if hit:
                return frozenset(out)
        rc = self.receiver_classes(r)
        if rc:
            out = set()
            hit = False
            for c in rc:
                m = self.index.find_method(c, f"__r{nm}__")
                if m is not None:
                    hit = True
                    out |= self._apply_summary(m, c, True, r, [l], [False], {}, node)
            if hit:
                return frozenset(out)
        return None

    def _dunder_aug(self, node, op, cur, val) -> Optional[FrozenSet[Obj]]:
        nm = self._OPS.get(op)
        if nm is None:
            return None
        cl = self.receiver_classes(cur)
        if not cl:
            return None
        out: Set[Obj] = set()
        for c in cl:
            m = self.index.find_method(c, f"__i{nm}__")
            if m is None:
                m = self.index.find_method(c, f"__{nm}__")    # no in-place dunder: x = x + y rebinding
            if m is None:
                return None
            out |= self._apply_summary(m, c, True, cur, [val], [False], {}, node)
        return frozenset(out)

    # -- calls --------------------------------------------------------------------
    def eval_call(self, call: ast.Call, env) -> FrozenSet[Obj]:
        self.an.stats["call_sites"] += 1
        argv = [self.eval(a.value if isinstance(a, ast.Starred) else a, env) for a in call.args]
        starred = [isinstance(a, ast.Starred) for a in call.args]
        kwv = {k.arg: self.eval(k.value, env) for k in call.keywords}
        all_args: FrozenSet[Obj] = frozenset().union(*argv, *kwv.values()) if (argv or kwv) else frozenset()
        if "out" in kwv:
            for o in kwv["out"]:
                self.event(o, "call", None, call, chain=("out=",))
        f = call.func
        recv: FrozenSet[Obj] = frozenset()
        mname = None
        targets: List[Tuple[FunctionInfo, Optional[ClassInfo], bool]] = []   # (callee, self_class, bound)
        libname = None          # dotted name of an external function
        is_method = False
        if isinstance(f, ast.Attribute):
            mname = f.attr
            fq = self.index.fq_of_expr(self.module, f)
            base = f.value
            if fq is not None and not (isinstance(base, ast.Name) and base.id in env and base.id not in self.module.imports):
                # module-qualified function, Class.method or Class attribute
                r = self._internal(self.index.resolve_fq(fq))
                if isinstance(r, FunctionInfo):
                    if r.cls is not None and not r.is_static():
                        targets.append((r, r.cls, False))    # Class.method(obj, ...): self passed explicitly
                    else:
                        targets.append((r, None, False))
                elif isinstance(r, ClassInfo):
                    return self._construct(r, call, argv, kwv, env)
                else:
                    libname = fq
            elif isinstance(base, ast.Name) and base.id in ("self", "cls") and self.self_class is not None and \
                    self.func.params[:1] == [base.id]:
                is_method = True
                recv = env.get(base.id, frozenset())
                m = self.index.find_method(self.self_class, mname)
                if m is not None:
                    targets.append((m, self.self_class, True))
            elif isinstance(base, ast.Call) and isinstance(base.func, ast.Name) and base.func.id == "super" \
                    and self.func.cls is not None:
                is_method = True
                recv = env.get(self.func.params[0], frozenset()) if self.func.params else frozenset()
                mro = self.index.mro(self.self_class or self.func.cls)
                pivot = self.func.cls
                if base.args:
                    rp = self.index.resolve_expr(self.module, base.args[0])
                    if isinstance(rp, ClassInfo):
                        pivot = rp
                after = mro[mro.index(pivot) + 1:] if pivot in mro else []
                for c in after:
                    if mname in c.methods:
                        targets.append((c.methods[mname], self.self_class, True))
                        break
            else:
                is_method = True
                recv = self.eval(base, env)
                classes = self.receiver_classes(recv)
                if classes is not None:
                    for rc in classes:
                        m = self.index.find_method(rc, mname)
                        if m is not None:
                            targets.append((m, rc, True))
        elif isinstance(f, ast.Name):
            if f.id in self.nested and f.id not in self.module.functions:
                # local closure: its body was analysed in place; result unknown-fresh holding args
                self.an.stats["call_sites_resolved"] += 1
                return frozenset([self.alloc(call, "closure-result", self._reach(all_args))])
            r = self._internal(self.index.resolve_name(self.module, f.id))
            libname = self.module.imports.get(f.id, f.id)
            if isinstance(r, FunctionInfo):
                targets.append((r, None, False))
            elif isinstance(r, ClassInfo):
                return self._construct(r, call, argv, kwv, env)
        else:
            self.eval(f, env)

        opaque = [o for o in recv if is_P(o) and (set(o[2]) & OPAQUE_FIELDS)]
        if is_method and mname in OPAQUE_FIELDS:
            opaque = [e for e in (extend(o, mname) for o in recv if is_P(o)) if e is not None]
            if not opaque and recv:
                opaque = []
                self.an.stats["call_sites_library"] += 1
                return frozenset()
        if opaque:
            self.an.stats["call_sites_library"] += 1
            for o in opaque:
                self.event(o, "call", None, call, chain=("user callback",))
            return frozenset()
        if targets:
            self.an.stats["call_sites_resolved"] += 1
            out: Set[Obj] = set()
            for callee, scls, bound in targets:
                out |= self._apply_summary(callee, scls, bound, recv, argv, starred, kwv, call)
            return frozenset(out)
        if is_method:
            return self._method_call(call, mname, recv, argv, kwv, all_args)
        return self._library_call(call, libname, argv, kwv, all_args)

    @staticmethod
    def _internal(r):
        """external functions / classes are library calls; only inherited *methods* of external base
        classes (openfermion operators) are analysed, through the MRO of a repository class"""
        if isinstance(r, (FunctionInfo, ClassInfo)) and r.module.external:
            return None
        return r

    def receiver_classes(self, recv) -> Optional[List[ClassInfo]]:
        """classes of the receiver objects when every one of them has a known class, else None"""
        out: List[ClassInfo] = []
        if not recv:
            return None
        for o in recv:
            fq = self.obj_class(o)
            if fq is None:
                return None
            r = self.index.resolve_fq(fq)
            if not isinstance(r, ClassInfo):
                return None
            if r not in out:
                out.append(r)
        return out

    def obj_class(self, o: Obj) -> Optional[str]:
        if is_P(o):
            _, param, path = o
            root = self.param_types.get(param)
            if not path:
                return root
            if path[-1] == "[]" and len(path) >= 2 and path[-2] in GATE_LIST_FIELDS:
                return GATE_FQ
            if path == ("[]",) and root == CIRCUIT_FQ:
                return GATE_FQ
            return None
        kind = self.site_kind.get(o, "")
        if kind.startswith("obj:"):
            return kind[4:]
        return None

    def _reach(self, objs) -> Set[Obj]:
        return set(objs) | set(self.elements(objs))

    def _construct(self, cls: ClassInfo, call, argv, kwv, env) -> FrozenSet[Obj]:
        self.an.stats["call_sites_resolved"] += 1
        if cls.fq in DEEP_FRESH_CLASSES:
            return frozenset([self.alloc(call, "obj:" + cls.fq, ())])
        all_args = frozenset().union(*argv, *kwv.values()) if (argv or kwv) else frozenset()
        o = self.alloc(call, "obj:" + cls.fq, ())
        init = self.index.find_method(cls, "__init__")
        if init is not None and not init.module.external:
            self._apply_summary(init, cls, True, frozenset([o]), argv, [False] * len(argv), kwv, call)
        else:
            self.store_into(o, self._reach(all_args))
        return frozenset([o])

    def _apply_summary(self, callee: FunctionInfo, scls, bound: bool, recv, argv, starred, kwv, call) -> Set[Obj]:
        s = self.an.summary(callee, scls, self.depth + 1)
        params = callee.positional
        binding: Dict[str, Set[Obj]] = {p: set() for p in callee.params}
        pos = list(argv)
        if bound and params:
            binding[params[0]] |= set(recv)
            rest = params[1:]
        else:
            rest = params
        vararg = callee.node.args.vararg.arg if callee.node.args.vararg else None
        for i, v in enumerate(pos):
            if i < len(starred) and starred[i]:
                for p in rest[i:]:
                    binding[p] |= set(self.elements(v))
                if vararg:
                    binding[vararg] |= set(v)
                continue
            if i < len(rest):
                binding[rest[i]] |= set(v)
            elif vararg:
                # *args tuple holds the argument objects
                binding[vararg] |= {self.alloc(call, "varargs", v)}
        kwarg = callee.node.args.kwarg.arg if callee.node.args.kwarg else None
        for k, v in kwv.items():
            if k is None:
                for p in callee.params:
                    binding[p] |= set(self.elements(v))
            elif k in binding:
                binding[k] |= set(v)
            elif kwarg:
                binding[kwarg] |= {self.alloc(call, "kwargs", v)}
        if s == "recursive":
            # recursive call: its effects are those of the function under analysis itself (already
            # collected) when arguments are passed parameter-to-parameter; recorded, not treated as a hole
            self.recursion_cuts.append(f"{callee.qualname}@{call.lineno}")
            return {self.alloc(call, "cut-result", self._reach(frozenset().union(*[frozenset(b) for b in binding.values()]) if binding else ()))}
        if s is None:
            # depth cut: unknown effects
            self.complete = False
            self.cuts.append(f"{callee.qualname}@{call.lineno}")
            return {self.alloc(call, "cut-result", self._reach(frozenset().union(*[frozenset(b) for b in binding.values()]) if binding else ()))}
        if not s.complete:
            self.complete = False
            self.cuts.append(f"{callee.qualname}@{call.lineno}(incomplete)")
        for (param, objpath, kind, fieldname, chain) in s.mutations:
            for o in binding.get(param, ()):
                # the callee writes through the object found at `objpath` below its parameter: map that
                # object into the caller's heap; writes that land on caller-local objects are not events
                for t in self._follow(o, objpath):
                    if is_P(t):
                        self.event(t, kind, fieldname, call, chain=chain)
        for dst, src in s.stores:
            for o in binding.get(dst, ()):
                self.store_into(o, self._reach(binding.get(src, ())))
        out: Set[Obj] = set()
        for ro in s.returns:
            for o in binding.get(ro[1], ()):
                out |= self._follow(o, ro[2])
        if s.returns_fresh or not s.returns:
            held: Set[Obj] = set()
            for ro in s.returns_holding:
                for o in binding.get(ro[1], ()):
                    held |= self._follow(o, ro[2])
            out.add(self.alloc(call, "result:" + callee.qualname, held))
        return out

    def _follow(self, o: Obj, path) -> Set[Obj]:
        cur = {o}
        for step in path:
            nxt: Set[Obj] = set()
            for c in cur:
                if is_P(c):
                    e = extend(c, step) if step != "*" else c
                    if e is not None:
                        nxt.add(e)
                else:
                    nxt |= self.heap.get(c, set())
                    if step == "*":
                        nxt |= self.closure([c])
            cur = nxt
        return cur

    def _library_call(self, call, name, argv, kwv, all_args) -> FrozenSet[Obj]:
        if name in EXTERNAL_MUTATORS:
            self.an.stats["call_sites_library"] += 1
            i = EXTERNAL_MUTATORS[name]
            if i < len(argv):
                for o in argv[i]:
                    self.event(o, "call", None, call, chain=(name,))
            return frozenset()
        if name in VIEW_FUNCS:
            self.an.stats["call_sites_library"] += 1
            return argv[0] if argv else frozenset()
        if name in DEEP_FRESH_FUNCS:
            self.an.stats["call_sites_library"] += 1
            return frozenset()
        if name in ELEMENT_ITER_FUNCS:
            self.an.stats["call_sites_library"] += 1
            cont: Set[Obj] = set()
            for v in list(argv) + list(kwv.values()):
                cont |= self.elements(v)
            if name in ("enumerate", "zip", "itertools.product", "itertools.combinations"):
                tup = self.alloc(call, "itertuple", cont)
                return frozenset([self.alloc(call.func, "iter", [tup])])
            if name in ("max", "min", "next", "sum"):
                return frozenset(cont)
            return frozenset([self.alloc(call, "list", cont)])
        # unknown external callable: assumed not to mutate its arguments; result may hold them
        self.an.stats["call_sites_unknown"] += 1
        key = name or norm(call.func)
        self.an.unknown_calls[key] = self.an.unknown_calls.get(key, 0) + 1
        held = self._reach(all_args)
        if not held:
            return frozenset()
        return frozenset([self.alloc(call, "ext-result", held)])

    def _method_call(self, call, mname, recv, argv, kwv, all_args) -> FrozenSet[Obj]:
        """method call on a receiver whose class is not known"""
        out: Set[Obj] = set()
        handled = False
        if mname in MUTATING_METHODS or mname in MUTATING_METHODS_OPERATORS:
            handled = True
            for o in recv:
                self.event(o, "method", mname, call, value=all_args)
                self.store_into(o, self._reach(all_args))
            if mname in ("pop", "popitem", "setdefault", "popleft"):
                out |= self.elements(recv) | (argv[1] if mname == "setdefault" and len(argv) > 1 else frozenset())
        elif mname in VIEW_METHODS:
            handled = True
            out |= recv
        elif mname in DEEP_FRESH_METHODS:
            handled = True
        elif mname in ELEMENT_ITER_METHODS:
            handled = True
            cont = set(self.elements(recv))
            if mname == "items":
                tup = self.alloc(call, "itertuple", cont)
                out.add(self.alloc(call.func, "iter", [tup]))
            elif mname in ("get", "__getitem__"):
                for v in argv[1:]:
                    cont |= v
                out |= cont
            else:
                out.add(self.alloc(call, "list", cont))
        # otherwise resolve by name over the repository's classes (CHA over the index)
        # (objects produced by an external library keep that library's methods: no CHA for them)
        ext_only = bool(recv) and all((not is_P(o)) and self.site_kind.get(o) == "ext-result" for o in recv)
        cands = [] if (handled or ext_only) else [c.methods[mname] for c in self.index.all_classes() if mname in c.methods]
        if cands and recv:
            for m in cands:
                # receiver objects that can be an instance of the candidate's class: objects a library returned keep that library's methods, and an object of a
                # known repository class only receives the methods of its own hierarchy (a same-named method of an unrelated class is not a candidate for it)
                objs = set()
                for o in recv:
                    if (not is_P(o)) and self.site_kind.get(o) == "ext-result":
                        continue
                    fq = self.obj_class(o)
                    if fq is not None:
                        r = self.index.resolve_fq(fq)
                        if isinstance(r, ClassInfo) and m.cls not in self.index.mro(r) and r not in self.index.mro(m.cls):
                            continue
                    objs.add(o)
                if objs:
                    handled = True
                    out |= self._apply_summary(m, m.cls, True, frozenset(objs), argv, [False] * len(argv), kwv, call)
            if not handled:
                cands = []
        if handled:
            self.an.stats["call_sites_library" if not cands else "call_sites_resolved"] += 1
            return frozenset(out)
        self.an.stats["call_sites_unknown"] += 1
        key = "." + mname
        self.an.unknown_calls[key] = self.an.unknown_calls.get(key, 0) + 1
        held = self._reach(all_args) | self._reach(recv)
        if not held:
            return frozenset()
        return frozenset([self.alloc(call, "ext-result", held)])
