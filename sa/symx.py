"""AST expression -> sympy, for normalising expressions *extracted from the source* (rule kind K9).

Nothing here executes repository code: a Python expression node is mapped constructor by constructor onto a
sympy expression over symbols named after the source's variables/attribute chains.  Unknown constructs raise
``Untranslatable`` so that callers can decide between "violation" and "analysis error".
"""
from __future__ import annotations

import ast
from typing import Callable, Dict, Optional

import sympy as sp

from .index import norm


class Untranslatable(Exception):
    pass


PI_NAMES = {"pi", "np.pi", "numpy.pi", "math.pi", "sympy.pi", "sp.pi"}
FUNCS = {
    "cos": sp.cos, "sin": sp.sin, "exp": sp.exp, "sqrt": sp.sqrt, "abs": sp.Abs, "tan": sp.tan,
    "np.cos": sp.cos, "np.sin": sp.sin, "np.exp": sp.exp, "np.sqrt": sp.sqrt, "np.abs": sp.Abs,
    "math.cos": sp.cos, "math.sin": sp.sin, "math.exp": sp.exp, "math.sqrt": sp.sqrt,
    "float": lambda x: x, "int": lambda x: x, "complex": lambda x: x,
    "math.ceil": sp.ceiling, "math.floor": sp.floor, "np.ceil": sp.ceiling, "np.floor": sp.floor,
    "ceil": sp.ceiling, "floor": sp.floor,
}


def sym(name: str, **kw) -> sp.Symbol:
    return sp.Symbol(name, **kw)


def to_sympy(e: ast.AST, env: Optional[Dict[str, sp.Expr]] = None, real: bool = True,
             on_unknown: Optional[Callable[[ast.AST], Optional[sp.Expr]]] = None,
             first: Optional[Callable[[ast.AST], Optional[sp.Expr]]] = None) -> sp.Expr:
    """env maps normalised source text (e.g. 'gate.parameter', 'theta') to sympy expressions; any other name or
    attribute chain becomes a (real) symbol named after its text."""
    env = env or {}

    def rec(n: ast.AST) -> sp.Expr:
        if first is not None:
            r0 = first(n)
            if r0 is not None:
                return r0
        txt = norm(n) if isinstance(n, (ast.Name, ast.Attribute, ast.Subscript, ast.Call)) else None
        if txt is not None and txt in env:
            return env[txt]
        if isinstance(n, ast.Constant):
            v = n.value
            if isinstance(v, bool):
                return sp.true if v else sp.false
            if isinstance(v, int):
                return sp.Integer(v)
            if isinstance(v, float):
                r = sp.nsimplify(v, rational=True)
                return r
            if isinstance(v, complex):
                return sp.nsimplify(v.real, rational=True) + sp.I * sp.nsimplify(v.imag, rational=True)
            raise Untranslatable(f"constant {v!r}")
        if isinstance(n, (ast.Name, ast.Attribute)):
            if txt in PI_NAMES:
                return sp.pi
            if txt in ("I", "sympy.I", "1j"):
                return sp.I
            if on_unknown is not None:
                r = on_unknown(n)
                if r is not None:
                    return r
            return sp.Symbol(txt, real=real)
        if isinstance(n, ast.UnaryOp):
            v = rec(n.operand)
            if isinstance(n.op, ast.USub):
                return -v
            if isinstance(n.op, ast.UAdd):
                return v
            raise Untranslatable(norm(n))
        if isinstance(n, ast.BinOp):
            a, b = rec(n.left), rec(n.right)
            op = n.op
            if isinstance(op, ast.Add):
                return a + b
            if isinstance(op, ast.Sub):
                return a - b
            if isinstance(op, ast.Mult):
                return a * b
            if isinstance(op, ast.Div):
                return a / b
            if isinstance(op, ast.Pow):
                return a ** b
            if isinstance(op, ast.FloorDiv):
                return sp.floor(a / b)
            if isinstance(op, ast.Mod):
                return sp.Mod(a, b)
            raise Untranslatable(norm(n))
        if isinstance(n, ast.IfExp):
            c = cond(n.test)
            return sp.Piecewise((rec(n.body), c), (rec(n.orelse), True))
        if isinstance(n, ast.Call):
            fn = norm(n.func)
            if fn in FUNCS and len(n.args) == 1 and not n.keywords:
                return FUNCS[fn](rec(n.args[0]))
            if fn in ("len",) and len(n.args) == 1:
                return sp.Symbol(f"len({norm(n.args[0])})", integer=True, nonnegative=True)
            if on_unknown is not None:
                r = on_unknown(n)
                if r is not None:
                    return r
            raise Untranslatable(f"call {norm(n)}")
        if isinstance(n, ast.Subscript):
            if on_unknown is not None:
                r = on_unknown(n)
                if r is not None:
                    return r
            return sp.Symbol(txt, real=real)
        raise Untranslatable(f"{type(n).__name__}: {norm(n)}")

    def cond(t: ast.AST):
        if isinstance(t, ast.Compare) and len(t.ops) == 1:
            a, b = rec(t.left), rec(t.comparators[0])
            op = t.ops[0]
            table = {ast.Lt: sp.Lt, ast.LtE: sp.Le, ast.Gt: sp.Gt, ast.GtE: sp.Ge, ast.Eq: sp.Eq, ast.NotEq: sp.Ne}
            if type(op) in table:
                return table[type(op)](a, b)
        if isinstance(t, ast.BoolOp):
            vals = [cond(v) for v in t.values]
            return sp.And(*vals) if isinstance(t.op, ast.And) else sp.Or(*vals)
        if isinstance(t, ast.UnaryOp) and isinstance(t.op, ast.Not):
            return sp.Not(cond(t.operand))
        if isinstance(t, (ast.Name, ast.Attribute)):
            return sp.Symbol("truthy(" + norm(t) + ")")     # truthiness of an object: boolean symbol
        raise Untranslatable(f"condition {norm(t)}")

    return rec(e)


def equal(a: sp.Expr, b: sp.Expr) -> bool:
    d = sp.simplify(a - b)
    if d == 0:
        return True
    try:
        d2 = sp.simplify(sp.expand(sp.expand_trig(d.rewrite(sp.exp))))
        return d2 == 0
    except Exception:
        return False


def matrix_equal(a: sp.Matrix, b: sp.Matrix) -> bool:
    if a.shape != b.shape:
        return False
    return all(equal(x, y) for x, y in zip(list(a), list(b)))


def equal_up_to_phase(a: sp.Matrix, b: sp.Matrix) -> bool:
    """a == e^{i phi} b for some real phi (decided through the first non-zero entry of b)"""
    if a.shape != b.shape:
        return False
    la, lb = list(a), list(b)
    for x, y in zip(la, lb):
        if sp.simplify(y) != 0:
            if sp.simplify(x) == 0:
                return False
            ratio = sp.simplify(x / y)
            if sp.simplify(sp.Abs(ratio) - 1) != 0:
                return False
            return all(equal(p, ratio * q) for p, q in zip(la, lb))
    return all(sp.simplify(x) == 0 for x in la)


# -- reference single-qubit gates (documented Tangelo semantics) -------------------------------------------
I2 = sp.eye(2)
X = sp.Matrix([[0, 1], [1, 0]])
Y = sp.Matrix([[0, -sp.I], [sp.I, 0]])
Z = sp.Matrix([[1, 0], [0, -1]])
H = sp.Matrix([[1, 1], [1, -1]]) / sp.sqrt(2)
S = sp.Matrix([[1, 0], [0, sp.I]])
T = sp.Matrix([[1, 0], [0, sp.exp(sp.I * sp.pi / 4)]])
PAULI = {"I": I2, "X": X, "Y": Y, "Z": Z}


def rot(p: sp.Matrix, theta) -> sp.Matrix:
    """exp(-i theta/2 P) for an involutory P"""
    return sp.cos(theta / 2) * sp.eye(p.shape[0]) - sp.I * sp.sin(theta / 2) * p


def RX(t):
    return rot(X, t)


def RY(t):
    return rot(Y, t)


def RZ(t):
    return rot(Z, t)


def PHASE(t):
    return sp.Matrix([[1, 0], [0, sp.exp(sp.I * t)]])


def gate_matrix(name: str, param=None) -> sp.Matrix:
    name = name.upper()
    if name in ("X", "Y", "Z", "H", "S", "T"):
        return {"X": X, "Y": Y, "Z": Z, "H": H, "S": S, "T": T}[name]
    if name == "SDAG":
        return S.H
    if name in ("RX", "RY", "RZ"):
        return {"RX": RX, "RY": RY, "RZ": RZ}[name](param)
    if name == "PHASE":
        return PHASE(param)
    raise Untranslatable(f"no reference matrix for {name}")


# ---------------------------------------------------------------------------------------------------
# matrix-valued expressions (numpy spelling -> sympy matrix algebra)
def to_matrix_expr(e: ast.AST, env: Dict[str, sp.Basic]):
    """numpy matrix algebra over named square matrices: a.T, a.dot(b), a @ b, np.dot(a, b), np.matmul, np.transpose, np.linalg.multi_dot,
    reduce(np.dot, (a, b, c)), scalar factors.  `env` maps source text to sympy MatrixSymbols / scalars."""
    txt = ast.unparse(e)
    if txt in env:
        return env[txt]
    if isinstance(e, ast.Attribute) and e.attr == "T":
        return to_matrix_expr(e.value, env).T
    if isinstance(e, ast.BinOp) and isinstance(e.op, ast.MatMult):
        return to_matrix_expr(e.left, env) * to_matrix_expr(e.right, env)
    if isinstance(e, ast.BinOp) and isinstance(e.op, (ast.Mult, ast.Add, ast.Sub)):
        a, b = to_matrix_expr(e.left, env), to_matrix_expr(e.right, env)
        return a * b if isinstance(e.op, ast.Mult) else (a + b if isinstance(e.op, ast.Add) else a - b)
    if isinstance(e, ast.Constant) and isinstance(e.value, (int, float)):
        return sp.nsimplify(e.value)
    if isinstance(e, ast.Call):
        fn = ast.unparse(e.func)
        if isinstance(e.func, ast.Attribute) and e.func.attr == "dot" and len(e.args) == 1 and fn not in ("np.dot", "numpy.dot"):
            return to_matrix_expr(e.func.value, env) * to_matrix_expr(e.args[0], env)
        if isinstance(e.func, ast.Attribute) and e.func.attr == "transpose" and not e.args and fn not in ("np.transpose",):
            return to_matrix_expr(e.func.value, env).T
        if fn in ("np.dot", "numpy.dot", "np.matmul", "numpy.matmul") and len(e.args) == 2:
            return to_matrix_expr(e.args[0], env) * to_matrix_expr(e.args[1], env)
        if fn in ("np.transpose", "numpy.transpose") and len(e.args) == 1:
            return to_matrix_expr(e.args[0], env).T
        if fn in ("np.linalg.multi_dot", "numpy.linalg.multi_dot") and len(e.args) == 1 and isinstance(e.args[0], (ast.List, ast.Tuple)):
            out = None
            for a in e.args[0].elts:
                m = to_matrix_expr(a, env)
                out = m if out is None else out * m
            return out
        if fn in ("reduce", "functools.reduce") and len(e.args) == 2 and ast.unparse(e.args[0]) in ("np.dot", "numpy.dot", "np.matmul") and isinstance(e.args[1], (ast.List, ast.Tuple)):
            out = None
            for a in e.args[1].elts:
                m = to_matrix_expr(a, env)
                out = m if out is None else out * m
            return out
    raise Untranslatable(f"matrix expression {txt}")


def matrix_expr_equal(a, b) -> bool:
    try:
        return sp.simplify(sp.expand(a.doit()) - sp.expand(b.doit())) == sp.ZeroMatrix(*a.shape) or sp.expand(a.doit()) == sp.expand(b.doit())
    except Exception:
        return False
