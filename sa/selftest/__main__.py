import sys
from . import main
sys.exit(main())
