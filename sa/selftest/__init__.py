"""Self-test of the checkers: a matrix of source variants applied to scratch copies of /repo/tangelo.

* must-fire variants: (a) every repaired defect re-introduced by reverse-applying its fix diff (sa/selftest/reverts/<commit>.diff);
  (b) hand-written one-instance breakages (sa/selftest/variants.py).  The owning check must report a violation whose rule matches.
* must-stay-silent variants: behaviour-preserving edits (renames, re-orderings, equivalent rewrites).  The check must exit 0.

Scratch copies live under /dev/shm/tangelo-sa-<pid>-<n>/ and are removed in `finally`.  Nothing under /repo is touched.

    /venv/bin/python -m sa.selftest            # whole matrix, 16 jobs
    /venv/bin/python -m sa.selftest --prop C11
"""
from __future__ import annotations

import argparse
import io
import json
import os
import shutil
import subprocess
import sys
import tempfile
import time
from concurrent.futures import ProcessPoolExecutor
from contextlib import redirect_stdout
from pathlib import Path
from typing import Dict, List, Optional, Tuple

HERE = Path(__file__).resolve().parent
REVERTS = HERE / "reverts"

# fix commit -> (properties whose check must fire when the fix is reverted, substring of the rule id expected)
REVERT_EXPECT: Dict[str, List[Tuple[str, str]]] = {
    "fd1fe52": [("C16", "K11.numpy-api"), ("C14", "K11.numpy-api")],
    "f0ee80b": [("C14", "K11.numpy-api"), ("C14", "K12.identity-on-array")],
    "9eacc9b": [("C16", "K9.multiform-semantics")],
    "deb8e55": [("C16", "K1.operands")],
    "ec5f687": [("C16", "K6.attr-guard")],
    "1e3c3ee": [("C11", "K3.arity-cover")],
    "149f1fa": [("C09", "K9.period")],
    "bb80bac": [("C11", "K6.add_gate")],
    "46505b3": [("C09", "K2.width-coherence")],
    "c18e9a2": [("C09", "K12.unordered-zip")],
    "4b348ee": [("C09", "K1.outofplace"), ("C11", "K1.readonly")],
    "a291865": [("C11", "K1.readonly"), ("C11", "K2.owner")],
    "38dd8e3": [("C01", "K5.controls"), ("C11", "K1.readonly")],
    "b875afa": [("C01", "K10.bit-order")],
    "b2a89f4": [("C17", "K4.roundtrip"), ("C17", "K5.multi-control")],
    "69fae55": [("C02", "K7.state-forwarding"), ("C02", "K8.expectation-variance")],
    "27b0faf": [("C08", "K6.restore-on-all-exits")],
    "3eddbc9": [("C08", "K8.mapping-case"), ("C08", "K8.active-space-defaults")],
    "0f31aa4": [("C08", "K8.circuit-assembly")],
    "6d20e7f": [("C13", "K8.encoding-args")],
    "06d0287": [("C13", "K1.rdm-inputs")],
    "07827b7": [("C07", "K12.running-offset")],
    "82930c8": [("C07", "K6.length-validation")],
    "0e298d0": [("C11", "K2.owner")],
    "99289b5": [("C11", "K2.owner")],
    "00a4520": [("C07", "K8.support-change")],
    "a1543d3": [("C10", "K9.nested-control-replay")],
    "6bef8db": [("C12", "K8.spin-ordering"), ("C03", "K8.spin-ordering")],
    "23a8686": [("C14", "K9.truncation-bound")],
    "d569ba9": [("C15", "K8.rebuild-agreement")],
    "c5c3f8c": [("C13", "K11.protocol")],
    "e83ed45": [("C11", "K2.class-invariant")],
    "9d59313": [("C03", "K8.spin-ordering")],
    "27c3e92": [("C16", "K2.terms-copied"), ("C14", "K2.terms-copied")],
    "a741347": [("C01", "K7.initial-state"), ("C02", "K7.initial-state")],
    "eb2afe1": [("C01", "K6.initial-state-shapes")],
    "8c999d6": [("C06", "K9.identity-term")],
    "e7ccf88": [("C07", "K8.update-equals-rebuild")],
    "e8e6afc": [("C07", "K8.term-order")],
    "d61aa33": [("C01", "K6.initial-state-shapes")],
    "701d027": [("C16", "K9.multiform-semantics")],
    "73885a1": [("C16", "K9.multiform-semantics")],
    "4206294": [("C16", "K6.plain-operand")],
    "d6e6973": [("C03", "K9.hcb-chain"), ("C03", "K9.hcb-table"), ("C08", "K9.hcb-symmetry-operators")],
    "6798cb4": [("C08", "K2.result-aliases-state")],
    "66e4518": [("C10", "K7.falsy-default")],
    "8ae2c24": [("C07", "K6.length-validation")],
    "473cb70": [("C10", "K9.collapse-values")],
    "2c3bbdc": [("C02", "K12.returned-exception"), ("C18", "K12.returned-exception")],
    "39e4aed": [("C13", "K8.open-shell-rdm-sum")],
    "7b11d59": [("C11", "K6.gate-validation")],
    "170ceb8": [("C19", "K6.noise-validation")],
    "a882132": [("C19", "K1.noise-model-inputs")],
    "e6696b9": [("C17", "K4.repr-eval")],
    "b9fae96": [("C17", "K4.roundtrip")],
    "b8efc25": [("C08", "K9.deflation")],
    "a2c7518": [("C04", "K5.ci-search-space")],
}


# later fixes that rewrote the same lines have to be reverted first
REVERT_CHAIN: Dict[str, List[str]] = {"27b0faf": ["0f31aa4", "3eddbc9", "27b0faf"]}


def _scratch() -> Path:
    base = Path("/dev/shm") if Path("/dev/shm").is_dir() else Path(tempfile.gettempdir())
    d = Path(tempfile.mkdtemp(prefix=f"tangelo-sa-{os.getpid()}-", dir=str(base)))
    return d


def _copy_repo(dst: Path):
    src = Path(os.environ.get("SA_SELFTEST_SOURCE", "/repo")) / "tangelo"
    shutil.copytree(src, dst / "tangelo", ignore=shutil.ignore_patterns("__pycache__", "tests", "*.pyc"))


def _run_check(prop: str, root: Path) -> Tuple[int, List[dict], str]:
    """run the property's check against `root` in this process; returns (exit code, violations, output)"""
    os.environ["SA_REPO"] = str(root)
    os.environ["SA_NO_SELFTEST"] = "1"
    from .. import check as chk
    from ..index import Index
    from ..report import Report
    buf = io.StringIO()
    evd = root / "evidence"
    with redirect_stdout(buf):
        rc = chk.run_property(prop, "quick", 0, evidence_dir=evd, quiet=False)
    viol = []
    out = buf.getvalue()
    for line in out.splitlines():
        if line.strip().startswith("violation:"):
            viol.append(line.strip())
    return rc, viol, out


def _one(job) -> dict:
    kind, name, prop, payload, expect_rule = job
    d = _scratch()
    t0 = time.time()
    res = {"variant": name, "property": prop, "kind": kind, "ok": False, "detail": ""}
    try:
        _copy_repo(d)
        if kind == "revert":
            for diff in payload:
                r = subprocess.run(["patch", "-p1", "-R", "-s", "-f", "-d", str(d), "-i", str(diff)], capture_output=True, text=True)
                if r.returncode != 0:
                    res["detail"] = f"revert diff {Path(diff).name} does not apply: " + (r.stdout + r.stderr)[-200:]
                    return res
        else:
            for edit in payload:
                rel, old, new = edit[:3]
                p = d / rel
                s = p.read_text()
                if len(edit) == 4:
                    # (rel, old, new, (k, n)): replace the k-th of exactly n occurrences
                    k, n_occ = edit[3]
                    if s.count(old) != n_occ:
                        res["detail"] = f"anchor text for {name} occurs {s.count(old)} times in {rel}, expected {n_occ}"
                        return res
                    parts = s.split(old)
                    p.write_text(old.join(parts[:k + 1]) + new + old.join(parts[k + 1:]))
                    continue
                if s.count(old) != 1:
                    res["detail"] = f"anchor text for {name} occurs {s.count(old)} times in {rel}"
                    return res
                p.write_text(s.replace(old, new))
        # the variant must still compile
        import warnings
        for p in (d / "tangelo").rglob("*.py"):
            try:
                with warnings.catch_warnings():
                    warnings.simplefilter("ignore")
                    compile(p.read_text(), str(p), "exec")
            except SyntaxError as e:
                res["detail"] = f"variant does not compile: {e}"
                return res
        rc, viol, out = _run_check(prop, d)
        if kind in ("revert", "fire"):
            hit = [v for v in viol if expect_rule in v]
            res["ok"] = rc == 1 and bool(hit)
            res["detail"] = (hit[0][:200] if hit else f"exit {rc}; violations: {[v[:120] for v in viol[:3]]}; {out[-300:] if rc == 2 else ''}")
        else:
            res["ok"] = rc == 0
            res["detail"] = "silent" if rc == 0 else f"exit {rc}: {[v[:160] for v in viol[:3]]} {out[-300:] if rc == 2 else ''}"
        return res
    except Exception as e:  # pragma: no cover
        res["detail"] = f"self-test harness error: {type(e).__name__}: {e}"
        return res
    finally:
        res["wall_s"] = round(time.time() - t0, 2)
        shutil.rmtree(d, ignore_errors=True)


def jobs_for(prop: Optional[str]) -> List[tuple]:
    from .variants import FIRE, SILENT
    jobs = []
    for commit, exps in REVERT_EXPECT.items():
        for p, rule in exps:
            if prop in (None, p):
                jobs.append(("revert", f"revert-{commit}", p, [REVERTS / f"{c}.diff" for c in REVERT_CHAIN.get(commit, [commit])], rule))
    for name, p, edits, rule in FIRE:
        if prop in (None, p):
            jobs.append(("fire", name, p, edits, rule))
    for name, p, edits in SILENT:
        if prop in (None, p):
            jobs.append(("silent", name, p, edits, ""))
    return jobs


def run_selftest(prop: Optional[str] = None, quiet: bool = False, jobs: int = 16) -> dict:
    js = jobs_for(prop)
    results = []
    if js:
        with ProcessPoolExecutor(max_workers=min(jobs, len(js))) as ex:
            results = list(ex.map(_one, js))
    failed = [r for r in results if not r["ok"]]
    if not quiet:
        for r in results:
            print(f"  selftest {'ok  ' if r['ok'] else 'FAIL'} [{r['property']}] {r['kind']:6s} {r['variant']}: {r['detail'][:170]}")
    return {"variants": len(results), "must_fire": sum(1 for r in results if r["kind"] != "silent"), "must_stay_silent": sum(1 for r in results if r["kind"] == "silent"),
            "failed": [f"{r['property']}:{r['variant']}: {r['detail'][:200]}" for r in failed]}


def main(argv=None) -> int:
    ap = argparse.ArgumentParser()
    ap.add_argument("--prop")
    ap.add_argument("--jobs", type=int, default=16)
    a = ap.parse_args(argv)
    t0 = time.time()
    st = run_selftest(a.prop, quiet=False, jobs=a.jobs)
    print(f"self-test: {st['variants']} variants ({st['must_fire']} must fire, {st['must_stay_silent']} must stay silent), {len(st['failed'])} failed, {round(time.time() - t0, 1)}s")
    return 0 if not st["failed"] else 2


if __name__ == "__main__":
    sys.exit(main())
