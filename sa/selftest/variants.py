"""Hand-written source variants for the self-test.

FIRE   : (name, property, [(relpath, old text, new text), ...], substring of the rule that must report)
SILENT : (name, property, [(relpath, old text, new text), ...])     behaviour-preserving edits: the check must stay silent

Every `old text` must occur exactly once in the file (the harness refuses otherwise, so that a drifting anchor is noticed).
Variants taken from independently written seeded mutations live in /verif/seeded/<id>/ and are run by tools/run_seeded.py.
"""

GATE = "tangelo/linq/gate.py"
CIRC = "tangelo/linq/circuit.py"
TCIRQ = "tangelo/linq/translator/translate_cirq.py"
TSYM = "tangelo/linq/translator/translate_sympy.py"
TION = "tangelo/linq/translator/translate_json_ionq.py"
TPQ = "tangelo/linq/translator/translate_projectq.py"
BACK = "tangelo/linq/target/backend.py"
TGCIRQ = "tangelo/linq/target/target_cirq.py"
TGSYM = "tangelo/linq/target/target_sympy.py"
AU = "tangelo/toolboxes/ansatz_generator/ansatz_utils.py"
MB = "tangelo/linq/helpers/circuits/measurement_basis.py"
CLIFF = "tangelo/linq/helpers/circuits/clifford_circuits.py"
MULTI = "tangelo/toolboxes/operators/multiformoperator.py"
OPS = "tangelo/toolboxes/operators/operators.py"
FO = "tangelo/toolboxes/ansatz_generator/fermionic_operators.py"
MOL = "tangelo/toolboxes/molecular_computation/molecule.py"
SV = "tangelo/toolboxes/qubit_mappings/statevector_mapping.py"
SCBK = "tangelo/toolboxes/qubit_mappings/symmetry_conserving_bravyi_kitaev.py"
MT = "tangelo/toolboxes/qubit_mappings/mapping_transform.py"
TRIM = "tangelo/toolboxes/operators/trim_trivial_qubits.py"
HIST = "tangelo/toolboxes/post_processing/histogram.py"
POST = "tangelo/toolboxes/post_processing/post_selection.py"
NOISE = "tangelo/linq/noisy_simulation/noise_models.py"
VQE = "tangelo/algorithms/variational/vqe_solver.py"
UCCSD = "tangelo/toolboxes/ansatz_generator/uccsd.py"
RDMS = "tangelo/toolboxes/molecular_computation/rdms.py"
HEA = "tangelo/toolboxes/ansatz_generator/hea.py"
BOOT = "tangelo/toolboxes/post_processing/bootstrapping.py"
GROUP = "tangelo/toolboxes/measurements/qubit_terms_grouping.py"
PEN = "tangelo/toolboxes/ansatz_generator/penalty_terms.py"
COMBI = "tangelo/toolboxes/qubit_mappings/combinatorial.py"
HCB = "tangelo/toolboxes/qubit_mappings/hcb.py"
FCI = "tangelo/algorithms/classical/fci_solver.py"
MIH = "tangelo/problem_decomposition/incremental/incremental_helper.py"
ONI = "tangelo/problem_decomposition/oniom/_helpers/helper_classes.py"
DMETF = "tangelo/problem_decomposition/dmet/dmet_problem_decomposition.py"
QPEF = "tangelo/algorithms/projective/qpe.py"
TSU = "tangelo/toolboxes/unitary_generator/trotter_suzuki.py"
TGSYMPY = "tangelo/linq/target/target_sympy.py"
VSQSF = "tangelo/toolboxes/ansatz_generator/vsqs.py"
ADAPTF = "tangelo/toolboxes/ansatz_generator/adapt_ansatz.py"
JKMNF = "tangelo/toolboxes/qubit_mappings/jkmn.py"
FROZ = "tangelo/toolboxes/molecular_computation/frozen_orbitals.py"
POSTS = "tangelo/toolboxes/post_processing/post_selection.py"
UCCGDF = "tangelo/toolboxes/ansatz_generator/uccgd.py"
RDMSF = "tangelo/toolboxes/molecular_computation/rdms.py"
TGSYMPYB = "tangelo/linq/target/target_sympy.py"
BKF = "tangelo/toolboxes/qubit_mappings/bravyi_kitaev.py"
ISP = "tangelo/toolboxes/molecular_computation/integral_solver_pyscf.py"

PUCCDF = "tangelo/toolboxes/ansatz_generator/puccd.py"
VCA = "tangelo/toolboxes/ansatz_generator/variational_circuit.py"

GUCCF = "tangelo/toolboxes/ansatz_generator/_general_unitary_cc.py"
SIMF = "tangelo/linq/simulator.py"
MBF = "tangelo/linq/helpers/circuits/measurement_basis.py"
Z2TF = "tangelo/toolboxes/operators/z2_tapering.py"
DMETORBF = "tangelo/problem_decomposition/dmet/_helpers/dmet_orbitals.py"
IQPEF = "tangelo/algorithms/projective/iqpe.py"
QPEF2 = "tangelo/algorithms/projective/qpe.py"

TSUF = "tangelo/toolboxes/unitary_generator/trotter_suzuki.py"
QCCF = "tangelo/toolboxes/ansatz_generator/qcc.py"

FIRE = [
    # ---- C11
    ("trim-keeps-old-index-set", "C11", [(CIRC, "        self._qubit_indices = set(range(len(qubits_in_use)))\n", "")], "K2.class-invariant"),
    ("add-gate-forgets-arity-count", "C11", [(CIRC, "        self._n_qubit_gate_counts[n_qubit] = self._n_qubit_gate_counts.get(n_qubit, 0) + 1", "        self._n_qubit_gate_counts.setdefault(n_qubit, 1)")], "K2.class-invariant"),
    ("inverse-loses-fixed-width-check", "C11", [(CIRC, "        return Circuit(gates, n_qubits=self._qubits_simulated)\n\n    def serialize", "        return Circuit(gates, n_qubits=len(gates))\n\n    def serialize")], "K2.class-invariant"),
    ("add-mutates-left-operand", "C11", [(CIRC, "        return Circuit(self._gates + other._gates, n_qubits=n_qubits)",
                                          "        self._gates.extend(other._gates)\n        return Circuit(self._gates, n_qubits=n_qubits)")], "K1.readonly"),
    ("gate-duplicate-check-dropped", "C11", [(GATE, "        if len(all_involved_qubits) != len(set(all_involved_qubits)):\n            raise ValueError(f\"There are duplicate qubits in the target/control qubits\")\n", "")],
     "K6.gate-validation"),
    ("gate-negative-index-accepted", "C11", [(GATE, "if (type(ind) != int) or (ind < 0):", "if (type(ind) != int) or (ind < -1):")], "K6.gate-validation"),
    ("add-gate-shares-gate-object", "C11", [(CIRC, "        self._gates.append(gate)\n", "        self._gates.append(g)\n")], "K1.ctor"),
    ("add-gate-arity-without-controls", "C11", [(CIRC, "n_qubit = len(gate.target) if (gate.control is None) else len(gate.target) + len(gate.control)", "n_qubit = len(gate.target)")], "K6.add_gate"),
    ("foreign-writer-of-gate-counts", "C11", [(TION, "    json_gates = []\n    for gate in source_circuit._gates:", "    json_gates = []\n    source_circuit._gate_counts.pop('MEASURE', None)\n    for gate in source_circuit._gates:")], "K"),
    ("cswap-single-target", "C11", [(GATE, 'TWO_TARGET_GATES = {"XX", "SWAP", "CSWAP"}', 'TWO_TARGET_GATES = {"XX", "SWAP"}')], "K3.arity-cover"),
    ("add-ignores-right-fixed-width", "C11", [(CIRC, "n_qubits = max(self.width, other.width) if self._qubits_simulated or other._qubits_simulated else None", "n_qubits = max(self.width, other.width) if self._qubits_simulated else None")], "K9.width-propagation"),
    ("gate-accepts-bool-free-float-index", "C11", [(GATE, "if (type(ind) != int) or (ind < 0):", "if (not isinstance(ind, (int, float))) or (ind < 0):")], "K6.gate-validation"),
    # ---- C09
    ("redundant-gates-ignore-second-qubit", "C09", [(CIRC, "        for qubit_i in qubits:\n            if not gate_qubits[qubit_i] or gate_qubits[qubit_i][-1][1].inverse() != gate:", "        for qubit_i in qubits[:1]:\n            if not gate_qubits[qubit_i] or gate_qubits[qubit_i][-1][1].inverse() != gate:")], "K9.pass-semantics"),
    ("merge-ignores-axis", "C09", [(CIRC, "                if (gate.name, gate.target, gate.control) == (g_prev.name, g_prev.target, g_prev.control):", "                if (gate.target, gate.control) == (g_prev.target, g_prev.control) and g_prev.name in rot_gates:")], "K9.pass-semantics"),
    ("small-rotations-threshold-on-raw-angle", "C09", [(CIRC, "not (g.name in rot_gates and abs(g.parameter) % periods[g.name] < param_threshold)]", "not (g.name in rot_gates and (abs(g.parameter) % periods[g.name] < param_threshold or abs(g.parameter) > 6.28))]")], "K9.pass-semantics"),
    ("eq-ignores-names-when-one-is-cnot", "C09", [(GATE, 'if ds["name"] in ["CNOT", "CX"] and do["name"] in ["CNOT", "CX"] else ["parameter"]', 'if ds["name"] in ["CNOT", "CX"] or do["name"] in ["CNOT", "CX"] else ["parameter"]')], "K9.gate-equality"),
    ("mul-returns-self-for-one", "C09", [(CIRC, "        return Circuit(self._gates * n_repeat, n_qubits=self._qubits_simulated)", "        if n_repeat == 1:\n            return self\n        return Circuit(self._gates * n_repeat, n_qubits=self._qubits_simulated)")], "K1.fresh-result"),
    ("inverse-of-T-wrong-angle", "C09", [(GATE, 'new_parameter = -pi / 2 if self.name == "S" else -pi / 4', 'new_parameter = -pi / 2 if self.name == "S" else -pi / 8')], "K9.inverse-table"),
    ("clifford-row-order", "C09", [(CLIFF, '            gate_list = [Gate("Z", gate.target), Gate("H", gate.target)]', '            gate_list = [Gate("H", gate.target), Gate("Z", gate.target)]')], "K9.clifford-table"),
    ("circuit-inverse-not-reversed", "C09", [(CIRC, "gates = [gate.inverse() for gate in reversed(self._gates)]", "gates = [gate.inverse() for gate in self._gates]")], "K9.circuit-inverse"),
    ("split-shares-gates", "C09", [(CIRC, "                    separate_circuits[i].add_gate(g)", "                    separate_circuits[i]._gates.append(g)")], "K"),
    # ---- C01
    ("cirq-xx-global-shift", "C01", [(TCIRQ, "exponent=gate.parameter/pi, global_shift=-0.5)", "exponent=gate.parameter/pi, global_shift=0.5)")], "K9.cirq-units"),
    ("cirq-phase-unit", "C01", [(TCIRQ, '        elif gate_name in {"PHASE"}:\n            next_gate = GATE_CIRQ[gate_name](exponent=gate.parameter/pi)',
                                 '        elif gate_name in {"PHASE"}:\n            next_gate = GATE_CIRQ[gate_name](exponent=gate.parameter/(2*pi))')], "K9.cirq-units"),
    ("cirq-cnot-operands-swapped", "C01", [(TCIRQ, "target_circuit.append(GATE_CIRQ[gate_name](qubit_list[gate.control[0]], qubit_list[gate.target[0]]))",
                                            "target_circuit.append(GATE_CIRQ[gate_name](qubit_list[gate.target[0]], qubit_list[gate.control[0]]))")], "K5.operand-order"),
    ("cirq-idle-qubits-dropped", "C01", [(TCIRQ, "    target_circuit.append(cirq.I.on_each(qubit_list))\n", "")], "K6.idle-qubits"),
    ("sympy-bitstring-not-reversed", "C01", [(TGSYM, 'bistring = "".join(str(bit) for bit in reversed(vec.qubit_values))', 'bistring = "".join(str(bit) for bit in vec.qubit_values)')], "K10.bit-order"),
    ("sampling-roundtrip-bit-order", "C01", [(BACK, "xk.append(int(k[::-1], 2))", "xk.append(int(k, 2))")], "K10.bit-order"),
    ("sympy-ry-sign", "C01", [(TSYM, "ry_matrix = ImmutableMatrix([[cos_term, -sin_term], [sin_term, cos_term]])", "ry_matrix = ImmutableMatrix([[cos_term, sin_term], [-sin_term, cos_term]])")], "K9.sympy-gates"),
    ("cirq-table-cy-is-z", "C01", [(TCIRQ, '    GATE_CIRQ["CY"] = cirq.Y', '    GATE_CIRQ["CY"] = cirq.Z')], "K9.cirq-units"),
    ("sampler-loses-exact-multiples", "C01", [(BACK, "            n_chunks = self.n_shots // chunk_size\n            freqs_shots = Counter()\n\n            for i in range(n_chunks+1):\n                this_chunk = self.n_shots % chunk_size if i == n_chunks else chunk_size",
                                              "            n_chunks = max(1, self.n_shots // chunk_size)\n            freqs_shots = Counter()\n            for i in range(n_chunks):\n                this_chunk = self.n_shots % chunk_size if i == n_chunks - 1 else chunk_size")], "K9.shot-conservation"),
    # ---- C02
    ("parity-uses-or", "C02", [(BACK, "        sample = (-1) ** ((bitarray(mask) & bitarray(basis_state)).to01().count(\"1\") % 2)\n        expectation_term += sample * freq",
                                "        sample = (-1) ** ((bitarray(mask) | bitarray(basis_state)).to01().count(\"1\") % 2)\n        expectation_term += sample * freq")], "K9.parity-estimator"),
    ("basis-Y-wrong-sign", "C02", [(MB, 'gates.append(Gate("RX", qubit_index, parameter=np.pi/2))', 'gates.append(Gate("RX", qubit_index, parameter=-np.pi/2))')], "K9.measurement-basis"),
    ("expectation-drops-initial-state", "C02", [(BACK, "            frequencies, _ = self.simulate(full_circuit,\n                                           initial_statevector=updated_statevector,\n                                           desired_meas_result=desired_meas_result)\n            expectation_term",
                                                 "            frequencies, _ = self.simulate(full_circuit,\n                                           desired_meas_result=desired_meas_result)\n            expectation_term")], "K"),
    ("trim-z-sign-on-zero-state", "C14", [(TRIM, "            elif (term[qubit], trim_states[qubit]) == ('Z', 1):", "            elif (term[qubit], trim_states[qubit]) == ('Z', 0):")], "K9.trim-operator"),
    ("trim-y-not-dropped", "C14", [(TRIM, "            if term[qubit] in {'X', 'Y'}:", "            if term[qubit] in {'X'}:")], "K9.trim-operator"),
    ("trim-reindex-ignores-removed-count", "C14", [(TRIM, "new_term[:qubit - i] + new_term[qubit - i + 1:] if reindex", "new_term[:qubit] + new_term[qubit + 1:] if reindex")], "K9.trim-operator"),
    ("trim-states-unsorted", "C14", [(TRIM, "    return circuit_new, dict(sorted(trim_states.items()))", "    return circuit_new, trim_states")], "K9.trim-operator"),
    ("trim-idle-qubit-state-one", "C14", [(TRIM, "    for qubit_idx in set(range(circuit.width)) - used_qubits:\n        trim_states[qubit_idx] = 0", "    for qubit_idx in set(range(circuit.width)) - used_qubits:\n        trim_states[qubit_idx] = 1")], "K9.trim-fold"),
    ("trim-loses-unclassified-pair", "C14", [(TRIM, "                else:\n                    circuit_new += circ\n            else:\n                circuit_new += circ\n", "                else:\n                    circuit_new += circ\n")], "K9.trim-fold"),
    ("trim-hadamard-as-phase", "C14", [(TRIM, '            if gate0.name in {"RZ", "Z"}:\n                qubit_idx = e_indices[i].pop()\n                trim_states[qubit_idx] = 0\n            elif gate0.name in {"X", "RX"} and gate_0_is_bitflip:', '            if gate0.name in {"RZ", "Z", "H"}:\n                qubit_idx = e_indices[i].pop()\n                trim_states[qubit_idx] = 0\n            elif gate0.name in {"X", "RX"} and gate_0_is_bitflip:')], "K9.trim"),
    ("resample-last-chunk-dropped", "C18", [(BOOT, "    for i in range(n_chunks+1):", "    for i in range(n_chunks):")], "K9"),
    ("resample-bitstring-width-lost", "C18", [(BOOT, '    format_specifier = "0"+str(n_qubits)+"b"', '    format_specifier = "b"')], "K9"),
    ("qwc-any-shared-qubit-agrees", "C18", [(GROUP, "    for i in set(b1_dict) & set(b2_dict):\n        if b1_dict[i] != b2_dict[i]:\n            return False\n    return True", "    for i in set(b1_dict) & set(b2_dict):\n        if b1_dict[i] == b2_dict[i]:\n            return True\n    return not (set(b1_dict) & set(b2_dict))")], "K9.assembly"),
    ("group-qwc-keeps-larger", "C18", [(GROUP, "        if len(res2) < len(res):", "        if len(res2) > len(res):")], "K9.assembly"),
    ("exp-value-coefficient-of-other-basis", "C18", [(GROUP, "    for basis, freqs in histograms.items():\n        for term, coef in sub_ops[basis].terms.items():", "    for basis, freqs in histograms.items():\n        for term, coef in list(sub_ops.values())[0].terms.items():")], "K9.assembly"),
    ("complex-expectation-sign-of-imaginary", "C02", [(BACK, "            return exp_real if (exp_imag == 0.) else exp_real + 1.0j * exp_imag", "            return exp_real if (exp_imag == 0.) else exp_real - 1.0j * exp_imag")], "K"),
    ("complex-expectation-loses-requested-outcome", "C02", [(BACK, "            exp_imag = self.get_expectation_value(qb_op_imag, state_prep_circuit, initial_statevector=initial_statevector,\n                                                  desired_meas_result=desired_meas_result)", "            exp_imag = self.get_expectation_value(qb_op_imag, state_prep_circuit, initial_statevector=initial_statevector)")], "K"),
    ("complex-variance-subtracts", "C02", [(BACK, "else var_real + var_imag  # always", "else var_real - var_imag  # always")], "K"),
    ("truncation-cleanup-with-budget-tolerance", "C14", [(OPS, "        self.terms = compressed_op\n        self.compress()", "        self.terms = compressed_op\n        self.compress(abs_tol=epsilon / frob_factor)")], "K9.truncation-bound"),
    ("truncation-keeps-running-sum-of-magnitudes", "C14", [(OPS, "            coef2_sum += abs(coef)**2\n", "            coef2_sum += abs(coef)**2 / 2\n")], "K9.truncation-bound"),
    # ---- C15
    ("mi-skips-highest-lower-order", "C15", [(MIH, "                    for n_increment in range(1, n_body):", "                    for n_increment in range(1, n_body - 1):")], "K9.mi-summation"),
    ("mi-user-energy-without-correction", "C15", [(MIH, "            user_provided_energies = {frag_id: e + fragment_correction[frag_id] for frag_id, e in user_provided_energies.items()}", "            user_provided_energies = {frag_id: e for frag_id, e in user_provided_energies.items()}")], "K9.mi-summation"),
    ("oniom-low-level-not-subtracted", "C15", [(ONI, "            self.e_low *= -1\n", "")], "K9.oniom-sum"),
    ("oniom-low-level-subtracted-twice", "C15", [(ONI, "        self.e_fragment = self.e_high + self.e_low", "        self.e_fragment = self.e_high - self.e_low")], "K9.oniom-sum"),
    ("link-measured-from-leaving-atom", "C15", [(ONI, "        replacement = self.factor*(leaving-staying) + staying", "        replacement = self.factor*(leaving-staying) + leaving")], "K9.link-placement"),
    ("dmet-rebuild-drops-spin", "C15", [(DMETF, "            new_molecule.spin = self.molecule.spin\n", "")], "K8.rebuild-agreement"),
    ("dmet-fragment-sizes-from-first-list", "C15", [(DMETF, "            new_fragment_atoms = [len(frag) for frag in self.fragment_atoms]", "            new_fragment_atoms = [len(self.fragment_atoms[0]) for frag in self.fragment_atoms]")], "K8.rebuild-agreement"),
    # ---- C20
    ("qft-phase-denominator", "C20", [(AU, "parameter=prefac*np.pi/2**(n-i))]", "parameter=prefac*np.pi/2**(n-i+1))]")], "K9.qft"),
    ("qft-inverse-not-reversed", "C20", [(AU, "        qft_gates = [gate for gate in reversed(qft_gates)]\n", "")], "K9.qft"),
    ("qft-swaps-one-short", "C20", [(AU, "    for qubit_index in range(n//2):\n        gate_list += [Gate(\"SWAP\"", "    for qubit_index in range((n - 1)//2):\n        gate_list += [Gate(\"SWAP\"")], "K9.qft"),
    ("qpe-phase-lsb-first", "C20", [(QPEF, "        return sum([0.5**(i+1) for i, b in enumerate(bitstring) if b == \"1\"])", "        return sum([0.5**(i+1) for i, b in enumerate(bitstring[::-1]) if b == \"1\"])")], "K9.phase-readout"),
    ("rdm-mirrored-element-not-conjugated", "C13", [(VQE, '        for key in self.molecule.fermionic_hamiltonian.terms:\n            # Ignore constant / empty term\n            if not key:\n                continue\n', '        filled_terms = set()\n        for key in self.molecule.fermionic_hamiltonian.terms:\n            # Ignore constant / empty term\n            if not key or key in filled_terms:\n                continue\n', (0, 2)), (VQE, '            elif length == 4:\n                rdm2_spin[iele, lele, jele, kele] += opt_energy2\n\n        # save rdm frequency dictionary\n', '            elif length == 4:\n                rdm2_spin[iele, lele, jele, kele] += opt_energy2\n\n            conj_key = tuple((index, 1 - action) for index, action in reversed(key))\n            if conj_key != key:\n                filled_terms.add(conj_key)\n                if length == 2:\n                    rdm1_spin[jele, iele] += opt_energy2\n                elif length == 4:\n                    rdm2_spin[lele, iele, kele, jele] += opt_energy2\n\n        # save rdm frequency dictionary\n')], "K8.index-placement"),
    ("unitary-cache-key-without-control", "C06", [(TSU, '        if method == "time":\n            return trotterize(self.qubit_hamiltonian, self.time*n_steps, self.n_trotter_steps, self.trotter_order, control=control)\n', '        key = (method, n_steps)\n        cache = self.__dict__.setdefault("_built", dict())\n        if key in cache:\n            return cache[key]\n        if method == "time":\n            cache[key] = trotterize(self.qubit_hamiltonian, self.time*n_steps, self.n_trotter_steps, self.trotter_order, control=control)\n            return cache[key]\n')], "K1.cache-key"),
    ("suzuki-higher-order-fraction", "C06", [(AU, "        time_factor = 1 / (4 - 4 ** (1 / (order - 1)))", "        time_factor = 1 / (4 - 4 ** (1 / (order // 2 + 1)))")], "K9.suzuki"),
    ("sympy-probabilities-chopped", "C01", [(TGSYMPY, "            prob = simplify(prob, tolerance=1e-4).evalf()", "            prob = simplify(prob, tolerance=1e-4).evalf(chop=1e-4)")], "K9.probability-cutoff"),
    ("frequency-threshold-literal", "C01", [(BACK, "            if (frequency - self.freq_threshold) >= 0.:", "            if frequency >= 1e-6:")], "K9.probability-cutoff"),
    ("complex-detection-by-isinstance", "C02", [(BACK, "            if type(coef) in {complex, np.complex64, np.complex128}:\n                are_coefficients_real = False\n\n        # If the underlying operator is hermitian, expectation value is real and can be computed right away\n        if are_coefficients_real:\n            return self._get_variance_from_frequencies", "            if isinstance(coef, complex):\n                are_coefficients_real = False\n\n        # If the underlying operator is hermitian, expectation value is real and can be computed right away\n        if are_coefficients_real:\n            return self._get_variance_from_frequencies")], "K"),
    ("sympy-expectation-transpose", "C02", [(TGSYMPY, "        eigenvalue = Dagger(prepared_state) * operator * prepared_state", "        eigenvalue = prepared_state.T * operator * prepared_state")], "K9.sympy-expectation"),
    ("clifford-angle-sign-lost", "C09", [(CLIFF, "isclose(gate.parameter % (2 * pi), value % (2 * pi), abs_tol=abs_tol)), None)", "isclose(abs(gate.parameter) % (2 * pi), value % (2 * pi), abs_tol=abs_tol)), None)")], "K9.clifford-angles"),
    ("frozen-beta-uses-alpha-occupations", "C04", [(FROZ, "            frozen_occupied.append([i for i in frozen_orbitals[e] if i in occupied[e]])", "            frozen_occupied.append([i for i in frozen_orbitals[e] if i in occupied[0]])")], "K9.frozen-partition"),
    ("uhf-beta-integrals-reused-from-alpha", "C04", [(ISP, "        eri_b = self.ao2mo.incore.full(eri, mo_b)", "        eri_b = eri_a if sqmol.spin == 0 else self.ao2mo.incore.full(eri, mo_b)")], "K10"),
    ("multiform-operator-shares-terms", "C14", [(MULTI, "        qubit_op.terms = self.terms.copy()", "        qubit_op.terms = self.terms")], "K2.terms-copied"),
    ("multiform-operator-shares-terms-c16", "C16", [(MULTI, "        qubit_op.terms = self.terms.copy()", "        qubit_op.terms = self.terms")], "K2.terms-copied"),
    ("last-n-split-heads-overwritten", "C10", [(POSTS, "        freqs1[meas_other] = freqs1.get(meas_other, 0.) + count", "        freqs1[meas_other] = freqs2.get(meas_other, 0.) + count")], "K9.frequency-split"),
    ("padding-mixed-block-alpha-twice", "C13", [(RDMSF, "    for i, j in it.product(range(n_occ_a), range(n_occ_b), repeat=1):", "    for i, j in it.product(range(n_occ_a), repeat=2):")], "K10.padding-spin-sorts"),
    ("dmet-rebuild-by-keywords-drops-charge", "C15", [(DMETF, "            new_molecule = gto.Mole()\n            new_molecule.atom = new_geometry\n            new_molecule.basis = self.molecule.basis\n            new_molecule.ecp = self.molecule.ecp\n            new_molecule.charge = self.molecule.charge\n            new_molecule.spin = self.molecule.spin\n            new_molecule.unit = \"B\"\n            new_molecule.build()", "            new_molecule = gto.M(atom=new_geometry, basis=self.molecule.basis, ecp=self.molecule.ecp, unit=\"B\")")], "K8.rebuild-agreement"),
    ("oniom-high-level-molecule-reused", "C15", [(ONI, "                self.mol_high = self.get_mol(self.options_high[\"basis\"], solver, self.options_high.get(\"frozen_orbitals\", None))", "                if self.mol_low is not None and self.mol_low.basis == self.options_high[\"basis\"]:\n                    self.mol_high = self.mol_low\n                else:\n                    self.mol_high = self.get_mol(self.options_high[\"basis\"], solver, self.options_high.get(\"frozen_orbitals\", None))")], "K9.oniom-sum"),
    ("hamiltonian-iadd-narrow-operand-test", "C16", [(OPS, "        if isinstance(other_hamiltonian, of.QubitOperator) and not isinstance(other_hamiltonian, QubitHamiltonian):", "        if isinstance(other_hamiltonian, QubitOperator) and not isinstance(other_hamiltonian, QubitHamiltonian):")], "K6.attr-guard"),
    ("multiform-compress-conditional-update", "C16", [(MULTI, "            super(QubitOperator, self).compress(abs_tol)\n\n        self._update(n_qubits)", "            super(QubitOperator, self).compress(abs_tol)\n\n        if n_qubits is not None:\n            self._update(n_qubits)")], "K6.resync"),
    ("ionq-import-folds-angles-to-2pi", "C17", [(TION, "        parameter = gate.get(\"rotation\")\n", "        parameter = gate.get(\"rotation\")\n        if parameter is not None:\n            parameter %= 2 * 3.141592653589793\n")], "K4.roundtrip"),
    ("cirq-operator-import-real-part", "C17", [(TCIRQ, "        tangelo_op += QubitOperator(term_string.strip(), pauli_word.coefficient)", "        tangelo_op += QubitOperator(term_string.strip(), pauli_word.coefficient.real)")], "K4.operator-roundtrip"),
    ("sympy-backend-drops-noise-model", "C19", [(TGSYMPYB, "        super().__init__(n_shots, noise_model)", "        super().__init__(n_shots=n_shots)")], "K7.noise-forwarding"),
    ("noise-validation-by-type-table", "C19", [(NOISE, "        if noise_type == 'pauli' and (not isinstance(noise_params, list) or len(noise_params) != 3):", "        if noise_type == 'pauli' and not isinstance(noise_params, list):")], "K6.noise-validation"),
    # ---- C06
    ("ladder-not-reversed", "C06", [(AU, "    gates += cnot_ladder_gates[::-1]", "    gates += cnot_ladder_gates")], "K9.exp-pauliword"),
    ("negative-angle-offset", "C06", [(AU, "    angle = 2.*coef if coef >= 0. else 4*np.pi+2*coef", "    angle = 2.*coef if coef >= 0. else 2*np.pi+2*coef")], "K9.angle-law"),
    ("suzuki-outer-once", "C06", [(AU, "        outside = 2 * recursive_trotter_suzuki_decomposition(pauli_words, order-2, time_factor*time)", "        outside = recursive_trotter_suzuki_decomposition(pauli_words, order-2, time_factor*time)")], "K9.suzuki"),
    ("skip-terms-at-multiples-of-pi", "C06", [(AU, "            if variational or abs(np.real(coef)) > 1.e-10:", "            if variational or abs(np.sin(np.real(coef))) > 1.e-10:")], "K9.identity-term"),
    ("fermionic-dict-time-not-divided", "C06", [(AU, "            evolve_time = {term: time for term in operator.terms.keys()}", "            evolve_time = {term: time / n_trotter_steps for term in operator.terms.keys()}"),
                                                 (AU, "operator.terms[term]*evolve_time[term]/n_trotter_steps)", "operator.terms[term]*evolve_time[term])")], "K8.trotterize-scaling"),
    # ---- C07
    ("uccsd-rebuild-only-on-new-words", "C07", [(UCCSD, "        if set(self.pauli_to_angles_mapping.keys()) != set(qubit_op.terms.keys()):", "        if not self.pauli_to_angles_mapping.keys() >= qubit_op.terms.keys():")], "K8.update-equals-rebuild"),
    ("collapse-counter-in-data-dtype", "C16", [(MULTI, "np.linspace(0, len(operator) - 1, len(operator), dtype=int).reshape", "np.linspace(0, len(operator) - 1, len(operator), dtype=operator.dtype).reshape")], "K9.index-range-width"),
    ("vsqs-gate-stride-navigator-not-doubled", "C07", [(VSQSF, "        self.n_var_gates = (self.n_h_init + self.n_h_final + self.n_h_nav) * self.trotter_order", "        self.n_var_gates = (self.n_h_init + self.n_h_final) * self.trotter_order + self.n_h_nav")], "K8.update-equals-rebuild"),
    ("adapt-add-operator-keeps-raw-coefficient", "C07", [(ADAPTF, "            self._var_params_prefactor += [math.copysign(1., coeff)]\n\n            pauli_tuple = list(pauli_term.terms.keys())[0]\n            new_operator", "            self._var_params_prefactor += [coeff]\n\n            pauli_tuple = list(pauli_term.terms.keys())[0]\n            new_operator")], "K8.update-equals-rebuild"),
    ("uccsd-update-angle", "C07", [(UCCSD, "self.circuit._variational_gates[gate_index].parameter = 2.*coef if coef >= 0. else 4*np.pi+2*coef", "self.circuit._variational_gates[gate_index].parameter = 2.*coef if coef >= 0. else 2*np.pi+2*coef")], "K8.angle-clone"),
    ("hea-update-without-validation", "C07", [(HEA, "        self.set_var_params(var_params)\n        var_params = self.var_params\n\n        for param_index in range(self.n_var_params):",
                                               "        self.var_params = var_params\n\n        for param_index in range(self.n_var_params):")], "K6.length-validation"),
    # ---- C08
    ("deflation-overlap-not-conjugated", "C08", [(VQE, '        for circ in self.deflation_circuits:\n            overlap_circuit = circ + circuit.inverse()\n            f_dict, _ = self.backend.simulate(overlap_circuit)\n            energy += self.deflation_coeff * f_dict.get("0"*overlap_circuit.width, 0)\n', '        if self.deflation_circuits:\n            _, sv = self.backend.simulate(circuit, return_statevector=True)\n            for circ in self.deflation_circuits:\n                _, sv_deflate = self.backend.simulate(circ, return_statevector=True)\n                energy += self.deflation_coeff * abs(np.dot(sv_deflate, sv))**2\n')], "K9.deflation"),
    ("deflation-inverse-first", "C08", [(VQE, "            overlap_circuit = circ + circuit.inverse()", "            overlap_circuit = circuit.inverse() + circ")], "K9.deflation"),
    ("deflation-key-one-short", "C08", [(VQE, 'f_dict.get("0"*overlap_circuit.width, 0)', 'f_dict.get("0"*(overlap_circuit.width - 1), 0)')], "K9.deflation"),
    ("deflation-key-ansatz-width", "C08", [(VQE, 'f_dict.get("0"*overlap_circuit.width, 0)', 'f_dict.get("0"*self.ansatz.circuit.width, 0)')], "K9.deflation"),
    ("deflation-subtracts", "C08", [(VQE, '            energy += self.deflation_coeff * f_dict.get(', '            energy -= self.deflation_coeff * f_dict.get(')], "K9.deflation"),
    ("energy-without-projective", "C08", [(VQE, "        circuit = self.ansatz.circuit if self.ref_state is None else self.reference_circuit + self.ansatz.circuit\n        if self.projective_circuit:\n            circuit += self.projective_circuit\n        energy =",
                                           "        circuit = self.ansatz.circuit if self.ref_state is None else self.reference_circuit + self.ansatz.circuit\n        energy =")], "K8.circuit-assembly"),
    # ---- C10
    ("probability-not-accumulated", "C10", [(TGCIRQ, "                    measurements += measure\n                    success_probability *= cprob\n", "                    measurements += measure\n")], "K6.probability-product"),
    ("collapse-probability-is-norm", "C10", [(BACK, "    sv_selected = sv_selected/sqrt_probability  # casting issue if inplace for probability 1\n\n    return sv_selected, sqrt_probability**2", "    sv_selected = sv_selected/sqrt_probability  # casting issue if inplace for probability 1\n\n    return sv_selected, sqrt_probability")], "K9.collapse"),
    ("collapse-not-renormalised-by-norm", "C10", [(BACK, "    sv_selected = sv_selected/sqrt_probability  # casting", "    sv_selected = sv_selected/sqrt_probability**2  # casting")], "K9.collapse"),
    ("collapse-qubit-bound-off-by-one", "C10", [(BACK, "    if qubit > n_qubits-1:", "    if qubit > n_qubits:")], "K9.collapse"),
    ("collapse-reshape-axes-swapped", "C10", [(BACK, "(before_index_length, 2, after_index_length))", "(after_index_length, 2, before_index_length))")], "K9.collapse"),
    ("cirq-loop-pads-with-all-measurements", "C10", [(TGCIRQ, "                        precirc = [Circuit()]*len(new_qubits) + precirc", "                        precirc = [Circuit()]*len(qubits) + precirc")], "K8.control-loop-clone"),
    ("replay-tail-appended-after", "C10", [(CIRC, "        precirc[0] = new_unitary_circuits[-1] + precirc[0]", "        precirc[0] += new_unitary_circuits[-1]")], "K9.nested-control-replay"),
    ("collapse-keeps-wrong-slice", "C10", [(BACK, "    sv_selected[:, (result + 1) % 2, :] = 0", "    sv_selected[:, result, :] = 0")], "K9.collapse"),
    # ---- C12
    ("reorder-beta-offset-floor", "C12", [(MT, "    remapped[1::2] += int(np.ceil(n_spinorbitals / 2.))", "    remapped[1::2] += int(np.ceil(n_spinorbitals / 2.)) - 1")], "K8.spin-ordering"),
    ("reorder-ladder-type-lost", "C12", [(MT, "        new_term = tuple([(int(remapped[ti[0]]), ti[1]) for ti in term])", "        new_term = tuple([(int(remapped[ti[0]]), 1) for ti in term])")], "K8.spin-ordering"),
    ("vector-reordered-twice-for-scbk", "C12", [(SV, "        if not up_then_down:\n            warnings.warn(", "        if True:\n            warnings.warn(")], "K8.spin-ordering"),
    ("vector-odd-before-even", "C12", [(SV, "    if up_then_down:\n        vector = np.concatenate((vector[::2], vector[1::2]))", "    if up_then_down:\n        vector = np.concatenate((vector[1::2], vector[::2]))")], "K8.spin-ordering"),
    ("penalty-target-sign", "C12", [(PEN, "    all_terms = [[(), -sz]] + spinz_operator_list(n_orbs, up_then_down)", "    all_terms = [[(), sz]] + spinz_operator_list(n_orbs, up_then_down)")], "K9.penalty"),
    ("penalty-not-squared", "C12", [(OPS, "    fe_op *= fe_op\n    return normal_ordered(fe_op)", "    return normal_ordered(fe_op)")], "K9.penalty"),
    ("combined-penalty-sz-uses-n-target", "C12", [(PEN, '        prefactor, sz = penalty_terms["Sz"][:]', '        prefactor, sz = penalty_terms["Sz"][0], penalty_terms["N"][1]')], "K9.penalty"),
    ("combined-penalty-drops-ordering", "C12", [(PEN, "        pen_ferm += spin_operator_penalty(n_orbs, sz, mu=prefactor, up_then_down=up_then_down)", "        pen_ferm += spin_operator_penalty(n_orbs, sz, mu=prefactor)")], "K9.penalty"),
    ("number-operator-from-spin-list", "C12", [(FO, "    all_terms = number_operator_list(n_orbs, up_then_down)\n    num_op = list_to_fermionoperator(all_terms)", "    all_terms = spinz_operator_list(n_orbs, up_then_down)\n    num_op = list_to_fermionoperator(all_terms)")], "K9.symmetry-operators"),
    ("uccgd-spin-from-whole-molecule", "C12", [(UCCGDF, "        self.spin = molecule.active_spin", "        self.spin = molecule.spin")], "K8.spin-source"),
    ("s2-exchange-coefficient", "C12", [(FO, "                                 [((up[0], 1), (dn[1], 0), (dn2[0], 1), (up2[1], 0)), 1/2],", "                                 [((up[0], 1), (dn[1], 0), (dn2[0], 1), (up2[1], 0)), 1/4],")], "K9.symmetry-operators"),
    ("sz-sign", "C12", [(FO, "[((up[0], 1), (up[1], 0)), 1/2], [((dn[0], 1), (dn[1], 0)), -1/2]", "[((up[0], 1), (up[1], 0)), 1/2], [((dn[0], 1), (dn[1], 0)), 1/2]")], "K9.symmetry-operators"),
    # ---- C04
    ("uhf-beta-core-in-alpha-orbitals", "C04", [(ISP, "        hpq.append(mo_b.T.dot(hcore).dot(mo_b))", "        hpq.append(mo_a.T.dot(hcore).dot(mo_b))")], "K10"),
    ("uhf-active-container-order", "C04", [(MOL, "        two_body_integrals_new = [TwInt_aa, TwInt_ab, TwInt_bb]", "        two_body_integrals_new = [TwInt_aa, TwInt_bb, TwInt_ab]")], "K10.block-layout"),
    ("uhf-mixed-block-not-halved", "C04", [(MOL, "two_body_coefficients[up_index(p), down_index(q), down_index(r), up_index(s)] = (two_body_integrals[1][p, q, r, s] / 2.)", "two_body_coefficients[up_index(p), down_index(q), down_index(r), up_index(s)] = two_body_integrals[1][p, q, r, s]")], "K9.interaction-operator"),
    ("uhf-register-sum-of-orbitals", "C04", [(MOL, "        n_qubits = 2*max(n_orb_a, n_orb_b)", "        n_qubits = n_orb_a + n_orb_b")], "K9.interaction-operator"),
    ("rhf-two-body-not-halved", "C04", [(MOL, "reps.InteractionOperator(core_constant, one_body_coefficients, 1 / 2 * two_body_coefficients)", "reps.InteractionOperator(core_constant, one_body_coefficients, two_body_coefficients)")], "K9.interaction-operator"),
    ("uhf-block-index-swapped", "C04", [(MOL, "                one_body_integrals_new_bb[u, v] += two_body_integrals[1][i, u, v, i]  # this is AlphaBeta", "                one_body_integrals_new_bb[u, v] += two_body_integrals[1][u, i, i, v]  # this is AlphaBeta")], "K10.spin-sorts"),
    # ---- C05 / C03
    ("combinatorial-stride-alpha", "C03", [(COMBI, "            unique_int = (int_alpha * n_choose_beta) + int_beta", "            unique_int = (int_alpha * n_choose_alpha) + int_beta")], "K9.combinatorial-basis"),
    ("combinatorial-register-floor", "C03", [(COMBI, "    n = math.ceil(np.log2(n_choose_alpha * n_choose_beta))", "    n = math.floor(np.log2(n_choose_alpha * n_choose_beta))")], "K9.combinatorial-basis"),
    ("hcb-exchange-from-pair-hopping", "C03", [(HCB, "            r2_coeff = sum(g[i, j, j, i] - g[i, j, i, j] for i in (pu, pd) for j in (qu, qd))", "            r2_coeff = sum(g[i, j, j, i] for i in (pu, pd) for j in (qu, qd)) - r1_coeff")], "K9.hcb-table"),
    ("hcb-pair-energy-without-repulsion", "C03", [(HCB, "        coeff = h[pu, pu] + h[pd, pd] + g[pu, pd, pd, pu] - g[pu, pd, pu, pd] - g[pd, pu, pd, pu] + g[pd, pu, pu, pd]", "        coeff = h[pu, pu] + h[pd, pd]")], "K9.hcb-table"),
    ("hcb-pair-hopping-one-index-order", "C03", [(HCB, "            r1_coeff = g[pu, pd, qd, qu] - g[pd, pu, qd, qu] - g[pu, pd, qu, qd] + g[pd, pu, qu, qd]", "            r1_coeff = 4*g[pu, pd, qd, qu]")], "K9.hcb"),
    ("hcb-odd-register-truncated", "C03", [(HCB, "    if h.shape[0] % 2:\n        # The operator stops at the spin-up orbital of the last spatial orbital.\n        h, g = np.pad(h, (0, 1)), np.pad(g, (0, 1))\n", "")], "K9.hcb-table"),
    ("fci-cas-bare-count", "C04", [(FCI, "                                                   (self.n_alpha, self.n_beta),\n                                                   ecore=self.ecore)", "                                                   self.nelec,\n                                                   ecore=self.ecore)")], "K6.electron-sector"),
    ("fci-alpha-count-floor", "C04", [(FCI, "        self.n_alpha = self.nelec//2 + self.spin//2 + (self.nelec % 2)", "        self.n_alpha = self.nelec//2 + self.spin//2")], "K6.electron-sector"),
    ("bk-wrapper-drops-register-size", "C03", [(BKF, "    qubit_operator = openfermion_bravyi_kitaev(fermion_operator, n_qubits=n_qubits)", "    qubit_operator = openfermion_bravyi_kitaev(fermion_operator)")], "K7.register-size"),
    ("get-coeffs-remembered-arrays", "C03", [(OPS, "        return constant, one_body, two_body\n", "        cache = self.__dict__.setdefault(\"_coeffs\", dict())\n        if (coeff_threshold, spatial) in cache:\n            return cache[(coeff_threshold, spatial)]\n        cache[(coeff_threshold, spatial)] = (constant, one_body, two_body)\n        return cache[(coeff_threshold, spatial)]\n")], "K1.cache-key"),
    ("hcb-reordered-before-extraction", "C03", [(MT, "    if up_then_down and mapping.upper() != \"HCB\":", "    if up_then_down:")], "K8.spin-ordering"),
    ("mapping-name-case-sensitive", "C03", [(MT, "    if mapping.upper() not in available_mappings:", "    if mapping not in available_mappings:")], "K3.mapping-dispatch"),
    ("vector-mapping-name-case-sensitive", "C05", [(SV, "    if mapping.upper() not in available_mappings:", "    if mapping not in available_mappings:")], "K3"),
    ("odd-order-three-accepted", "C06", [(AU, "    if trotter_order > 1 and trotter_order % 2 != 0:", "    if trotter_order > 3 and trotter_order % 2 != 0:")], "K9.suzuki"),
    ("reference-circuit-drops-spin", "C05", [(SV, "    vector = get_vector(n_spinorbitals, n_electrons, mapping, up_then_down=up_then_down, spin=spin)", "    vector = get_vector(n_spinorbitals, n_electrons, mapping, up_then_down=up_then_down)")], "K9.vector-to-circuit"),
    ("scbk-edit-wrong-qubit", "C05", [(SCBK, '        if (spin_orbital - 1, "Z") in term:', '        if (spin_orbital, "Z") in term:')], "K8.scbk-qubits"),
    ("scbk-state-register-size", "C05", [(SV, "        return do_scbk_transform(vector, len(vector))", "        return do_scbk_transform(vector, len(vector) - 2)")], "K8.scbk-qubits"),
    ("reference-circuit-memoised", "C05", [(SV, "def get_reference_circuit(n_spinorbitals, n_electrons, mapping, up_then_down=False, spin=None):", "@functools.lru_cache(maxsize=128)\ndef get_reference_circuit(n_spinorbitals, n_electrons, mapping, up_then_down=False, spin=None):"),
                                             (SV, "import warnings\n", "import warnings\nimport functools\n")], "K1.memoisation"),
    ("histogram-total-cached", "C18", [(HIST, "    @property\n    def n_shots(self):", "    @functools.cached_property\n    def n_shots(self):"), (HIST, "from collections import Counter\n", "from collections import Counter\nimport functools\n")], "K1.memoisation"),
    ("scbk-refuses-zero-electrons", "C05", [(MT, "        if n_electrons is None:", "        if not n_electrons:")], "K3.mapping-dispatch"),
    ("scbk-refuses-zero-electrons-c03", "C03", [(MT, "        if n_electrons is None:", "        if not n_electrons:")], "K3.mapping-dispatch"),
    ("jkmn-elementwise-on-list", "C05", [(JKMNF, "    for i, occ in enumerate(vector):\n        if occ == 1:", "    for i in np.flatnonzero(vector == 1):\n        if True:")], "K11.elementwise"),
    ("beta-fill-slice", "C05", [(SV, "        vector[1:2*n_beta+1:2] = 1", "        vector[1:2*n_beta:2] = 1")], "K9.alpha-beta"),
    ("scbk-state-deletes-wrong-qubit", "C05", [(SV, "    vector_scbk = np.delete(vector_bk, n_spinorbitals//2-1)", "    vector_scbk = np.delete(vector_bk, n_spinorbitals//2)")], "K8.scbk-qubits"),
    ("scbk-parity-from-beta", "C03", [(SCBK, "    parity_middle_orb = (-1)**n_alpha", "    parity_middle_orb = (-1)**(n_electrons - n_alpha)")], "K8.scbk-qubits"),
    # ---- C13
    ("rdm-placement-swapped", "C13", [(VQE, "                rdm2_spin[iele, lele, jele, kele] += opt_energy2", "                rdm2_spin[iele, jele, kele, lele] += opt_energy2")], "K8.index-placement"),
    # ---- C14
    ("trim-table-flipped-state", "C14", [(TRIM, '            elif gate0.name in {"X", "RX"} and gate_0_is_bitflip:\n                qubit_idx = e_indices[i].pop()\n                trim_states[qubit_idx] = 1',
                                          '            elif gate0.name in {"X", "RX"}:\n                qubit_idx = e_indices[i].pop()\n                trim_states[qubit_idx] = 1')], "K9.trim-table"),
    # ---- C16
    ("pauli-phase-table-entry", "C16", [(MULTI, "                           [1, 1, 1j, -1j],", "                           [1, 1, -1j, 1j],")], "K9.pauli-tables"),
    ("qubithamiltonian-neg-mutates", "C16", [(OPS, "    def to_qubitoperator(self):\n        qubit_op = QubitOperator()", "    def __neg__(self):\n        self *= -1\n        return self\n\n    def to_qubitoperator(self):\n        qubit_op = QubitOperator()")], "K1.operands"),
    # ---- C17
    ("ionq-reader-swaps-control-target", "C17", [(TION, '            gates += [Gate(f"C{name}", target_qubits, control_qubits, parameter)]', '            gates += [Gate(f"C{name}", control_qubits, target_qubits, parameter)]')], "K4.roundtrip"),
    ("repr-drops-control", "C17", [(GATE, '        for attr in ["target", "control"]:\n            if self.__getattribute__(attr) or isinstance(self.__getattribute__(attr), int):\n                mystr += f", {attr}={self.__getattribute__(attr)}"',
                                    '        for attr in ["target"]:\n            if self.__getattribute__(attr) or isinstance(self.__getattribute__(attr), int):\n                mystr += f", {attr}={self.__getattribute__(attr)}"')], "K4.repr-eval"),
    # ---- C18
    ("marginal-overwrites", "C18", [(HIST, "            new_counts[new_bitstring] = new_counts.get(new_bitstring, 0) + counts", "            new_counts[new_bitstring] = counts")], "K9.accumulate"),
    ("histogram-aliases-outcomes", "C18", [(HIST, "        self.counts = outcomes.copy()", "        self.counts = outcomes")], "K1.histogram-inputs"),
    # ---- C19
    ("depol-rate", "C19", [(TCIRQ, "depo = cirq.depolarize(np*(4**depo_size-1)/4**depo_size, depo_size)", "depo = cirq.depolarize(np*(4**depo_size-1)/4**depo_size, 2)")], "K9.channel-rates"),
    ("pauli-noise-skips-controls", "C19", [(TCIRQ, "                    if gate.control is not None:\n                        target_circuit += [depo(qubit_list[c]) for c in gate.control]\n", "")], "K5.channel-block"),
    ("depol-accepts-int", "C19", [(NOISE, "if noise_type == 'depol' and not isinstance(noise_params, float):", "if noise_type == 'depol' and isinstance(noise_params, (list, tuple)):")], "K6.noise-validation"),
    # ---- rules added in wave 3
    ("identity-term-control-zero", "C06", [(AU, "            if control is None:\n                phase *= np.exp(-1j * np.real(coef))", "            if not control:\n                phase *= np.exp(-1j * np.real(coef))")], "K9.identity-term"),
    ("identity-term-multi-control-half-angle", "C06", [(AU, "target=control[-1], control=control[:-1], parameter=-np.real(coef)", "target=control[-1], control=control[:-1], parameter=-2*np.real(coef)")], "K9.identity-term"),
    ("hcb-guard-case-sensitive", "C03", [(MT, "    if up_then_down and mapping.upper() != \"HCB\":", "    if up_then_down and mapping != \"HCB\":")], "K8.spin-ordering"),
    ("hcb-guard-case-sensitive-fermionic-evolution", "C06", [(MT, "    if up_then_down and mapping.upper() != \"HCB\":", "    if up_then_down and mapping != \"HCB\":")], "K8.spin-ordering"),
    ("combinatorial-real-matrix", "C03", [(COMBI, "    quop_matrix = np.zeros((2**n, 2**n), dtype=np.complex64)", "    quop_matrix = np.zeros((2**n, 2**n), dtype=np.float64)")], "K9.combinatorial-spectrum"),
    ("combinatorial-drops-phase", "C03", [(COMBI, "            quop_matrix[unique_int, new_unique_int] += phase*coeff", "            quop_matrix[unique_int, new_unique_int] += coeff")], "K9.combinatorial-spectrum"),
    ("record-split-by-measure-count", "C10", [(BACK, "            if n_cmeas == 0:\n                self.mid_circuit_meas_freqs, frequencies = split_frequency_dict(", "            if n_meas > 0:\n                self.mid_circuit_meas_freqs, frequencies = split_frequency_dict(")], "K7.record-split"),
    ("cirq-records-in-key-string-order", "C10", [(TGCIRQ, "                bitstr = \"\".join([str(job_sim.measurements[str(i)][j, 0]) for i in range(n_meas + source_circuit.width)])", "                bitstr = \"\".join([str(job_sim.measurements[k][j, 0]) for k in sorted(job_sim.measurements)])")], "K10.record-order"),
    ("cirq-records-in-key-string-order-expectation", "C02", [(TGCIRQ, "                bitstr = \"\".join([str(job_sim.measurements[str(i)][j, 0]) for i in range(n_meas + source_circuit.width)])", "                bitstr = \"\".join([str(job_sim.measurements[k][j, 0]) for k in sorted(job_sim.measurements)])")], "K10.record-order"),
    ("simplify-forgets-threshold", "C09", [(CIRC, "        c_new.remove_small_rotations(param_threshold=param_threshold, remove_qubits=remove_qubits)", "        c_new.remove_small_rotations(remove_qubits=remove_qubits)")], "K9.simplify-threshold"),
    ("simplify-method-forgets-threshold", "C09", [(CIRC, "                               max_cycles=max_cycles, param_threshold=param_threshold,", "                               max_cycles=max_cycles,")], "K9.simplify-threshold"),
    ("puccd-build-bypasses-update", "C07", [(PUCCDF, "        rotation_gates = [givens_gate((p, q), 0., is_variational=True) for (p, q) in excitations]", "        rotation_gates = [givens_gate((p, q), -theta, is_variational=True) for (p, q), theta in zip(excitations, self.var_params)]"),
                                              (PUCCDF, "        self.update_var_params(self.var_params)\n        return self.circuit", "        return self.circuit")], "K8.update-equals-rebuild"),
    ("user-circuit-update-off-by-one", "C07", [(VCA, "        for param_index in range(self.n_var_params):", "        for param_index in range(1, self.n_var_params):")], "K8.live-parameters"),
    ("deflation-coeff-zero-replaced", "C08", [(VQE, "        self.deflation_coeff: float = copt_dict.pop(\"deflation_coeff\", 1)", "        self.deflation_coeff: float = copt_dict.pop(\"deflation_coeff\", None) or 1")], "K7.option-passthrough"),
    ("scbk-alpha-closed-form-default-spin", "C05", [(SCBK, "    n_alpha = n_electrons//2 + spin//2 + (n_electrons % 2)", "    n_alpha = (n_electrons + spin)//2")], "K8.default-spin"),
    ("scbk-vector-beta-first", "C05", [(SV, "            warnings.warn(\"Symmetry-conserving Bravyi-Kitaev enforces all spin-up followed by all spin-down ordering.\", RuntimeWarning)\n            vector = np.concatenate((vector[::2], vector[1::2]))", "            warnings.warn(\"Symmetry-conserving Bravyi-Kitaev enforces all spin-up followed by all spin-down ordering.\", RuntimeWarning)\n            vector = np.concatenate((vector[1::2], vector[::2]))")], "K8.vector-ordering"),
    ("hcore-in-stored-orbitals", "C04", [(ISP, "        one_electron_integrals = mo_coeff.T @ sqmol.mean_field.get_hcore() @ mo_coeff", "        one_electron_integrals = self.mo_coeff.T @ sqmol.mean_field.get_hcore() @ self.mo_coeff")], "K7.explicit-argument"),
    ("ao-integrals-computed-once", "C04", [(ISP, "        two_electron_integrals = self.ao2mo.kernel(pyscf_mol.intor(\"int2e\"), mo_coeff)", "        if getattr(self, \"_eri_ao\", None) is None:\n            self._eri_ao = pyscf_mol.intor(\"int2e\")\n        two_electron_integrals = self.ao2mo.kernel(self._eri_ao, mo_coeff)")], "K1.cache-key"),
    ("uccsd-explicit-zero-spin-ignored", "C12", [(UCCSD, "        self.spin = molecule.active_spin if spin is None else spin", "        self.spin = spin or molecule.active_spin")], "K7.falsy-default"),
    ("pool-honours-ordering-flag", "C12", [(GUCCF, "    operators = get_all_excitations(n_qubits // 2, up_down=False)  # get all operator input arguments", "    operators = get_all_excitations(n_qubits // 2, up_down=up_down)  # get all operator input arguments")], "K9.pool-conservation"),
    ("do-commute-any-term", "C16", [(MULTI, "    if not term_resolved:\n        return not np.any(term_bool)\n    else:\n        return np.logical_not(term_bool)", "    commutes = np.logical_not(term_bool)\n\n    return commutes if term_resolved else bool(np.any(commutes))")], "K9.multiform-semantics"),
    ("array-product-phase-table-transposed", "C16", [(MULTI, "            new_cs = c_calc[self.integer[term_i], other_operator.integer]", "            new_cs = c_calc[other_operator.integer, self.integer[term_i]]")], "K9.multiform-semantics"),
    ("get-backend-default-target-drops-noise", "C19", [(SIMF, "    if target is None:\n        target = target_dict[default_simulator]\n    # If target is a string use target_dict to return built-in backend\n    elif isinstance(target, str):", "    if target is None:\n        return get_backend(default_simulator, n_shots=n_shots, **kwargs)\n    if isinstance(target, str):")], "K7.backend-options"),
    ("qiskit-noise-first-gate-wins", "C19", [(NOISE, "            if qiskit_gate not in qnd:\n                qnd[qiskit_gate] = list(noises)\n            else:\n                noise_types = [nt for nt, np in qnd[qiskit_gate]]\n                for noise in noises:\n                    if noise[0] not in noise_types:\n                        noise_types.append(noise[0])\n                        qnd[qiskit_gate].append(noise)", "            qnd.setdefault(qiskit_gate, list(noises))")], "K9.noise-merge"),
    ("split-assumes-prefix", "C18", [(POST, "    other_indices = [i for i in range(key_length) if i not in indices]", "    other_indices = list(range(len(indices), key_length))")], "K9.positions"),
    ("compatible-bases-wildcard", "C18", [(MBF, "    return [b for b in basis_list if all([(o == p or o == \"I\") for o, p in zip(op, b)])]", "    return [b for b in basis_list if all([(o == p or \"I\" in (o, p)) for o, p in zip(op, b)])]")], "K9.assembly"),
    ("taper-sector-zip-hoisted", "C14", [(Z2TF, "        for index, eigenvalue in zip(q_indices, eigenvalues):", "        for index, eigenvalue in tapered_sector:"), (Z2TF, "    def do_taper(operator, eigenvalues=eigenvalues):", "    tapered_sector = zip(q_indices, eigenvalues)\n\n    def do_taper(operator, eigenvalues=eigenvalues):")], "K1.closure-reuse"),
    ("trim-relabels-in-set-order", "C14", [(CIRC, "        mapping = {ind: i for i, ind in enumerate(sorted(list(qubits_in_use)))}", "        mapping = {ind: i for i, ind in enumerate(qubits_in_use)}")], "K12.relabelling-order"),
    ("trim-relabels-in-set-order-circuit", "C09", [(CIRC, "        mapping = {ind: i for i, ind in enumerate(sorted(list(qubits_in_use)))}", "        mapping = {ind: i for i, ind in enumerate(qubits_in_use)}")], "K12.relabelling-order"),
    ("dmet-uhf-split-ignores-spin", "C15", [(DMETORBF, "        elec_diff = self.mol_full.spin\n        elec_paired = self.number_active_electrons-elec_diff\n        orbital_paired = elec_paired // 2", "        orbital_paired, elec_diff = divmod(self.number_active_electrons, 2)")], "K9.alpha-beta"),
    ("iqpe-feedback-overwrites", "C20", [(IQPEF, "                self.phase += 1/2**(self.bitplace)", "                self.phase = 1/2**(self.bitplace)")], "K9.iqpe-feedback"),
    ("qpe-vector-reference-ignores-ordering", "C20", [(QPEF2, "                self.reference_circuit = vector_to_circuit(get_mapped_vector(self.ref_state, self.qubit_mapping, self.up_then_down))", "                self.reference_circuit = vector_to_circuit(get_mapped_vector(self.ref_state, self.qubit_mapping))")], "K7.encoding-forwarding"),
    ("reindex-accepts-duplicates", "C11", [(CIRC, " or len(set(new_indices)) != len(new_indices):\n            raise ValueError(\"The new indices must be distinct non-negative integers\")", ":\n            raise ValueError(\"The new indices must be distinct non-negative integers\")")], "K6.gate-validation"),
    ("qpe-register-not-reversed", "C20", [(QPEF2, "        self.qpe_qubit_list = list(reversed(range(qft_start, qft_start+self.n_qpe_qubits)))", "        self.qpe_qubit_list = list(range(qft_start, qft_start+self.n_qpe_qubits))")], "K9.qpe-register"),
    ("qpe-powers-descending", "C20", [(QPEF2, "            self.circuit += self.unitary.build_circuit(2**i, control=qubit)", "            self.circuit += self.unitary.build_circuit(2**(self.n_qpe_qubits-1-i), control=qubit)")], "K9.qpe-register"),
    # ---- rules added in wave 4
    ("cirq-measure-only-when-saved", "C02", [(TCIRQ, "            key = str(measure_count) if save_measurements else None\n            target_circuit.append(GATE_CIRQ[gate_name](qubit_list[gate.target[0]], key=key))", "            if save_measurements:\n                target_circuit.append(GATE_CIRQ[gate_name](qubit_list[gate.target[0]], key=str(measure_count)))")], "K3.no-silent-drop"),
    ("cirq-measure-only-when-saved-translator", "C01", [(TCIRQ, "            key = str(measure_count) if save_measurements else None\n            target_circuit.append(GATE_CIRQ[gate_name](qubit_list[gate.target[0]], key=key))", "            if save_measurements:\n                target_circuit.append(GATE_CIRQ[gate_name](qubit_list[gate.target[0]], key=str(measure_count)))")], "K3.no-silent-drop"),
    ("sympy-t-gate-pi-over-eight", "C01", [(TSYM, "    GATE_SYMPY[\"T\"] = SYMPYGate.TGate", "    from sympy import pi\n    GATE_SYMPY[\"T\"] = lambda target: p_gate(target, pi / 8)")], "K9.sympy-gates"),
    ("trotter-unitary-order-and-steps-swapped", "C06", [(TSUF, "            return trotterize(self.qubit_hamiltonian, self.time*n_steps, self.n_trotter_steps, self.trotter_order, control=control)", "            return trotterize(self.qubit_hamiltonian, self.time*n_steps, self.trotter_order, self.n_trotter_steps, control=control)")], "K7.swapped-arguments"),
    ("time-dictionary-first-order-only", "C06", [(AU, "            timedict_pauli_words = [(term, coeff*time[term]) for term, coeff in pauli_words]\n            timed_pauli_words = recursive_trotter_suzuki_decomposition(timedict_pauli_words, trotter_order, 1.)", "            timed_pauli_words = [(term, np.real(coeff)*time[term]) for term, coeff in pauli_words]")], "K8.time-dictionary"),
    ("qcc-mean-field-block-follows-the-vector", "C07", [(QCCF, "        self.var_params = initial_var_params\n        return initial_var_params", "        self.var_params = initial_var_params\n        self.qmf_var_params = initial_var_params[:self.n_qmf_params]\n        return initial_var_params")], "K8.update-equals-rebuild"),
    ("uccgd-update-skipped-for-stored-vector", "C07", [(UCCGDF, "        self.set_var_params(var_params)\n\n        qubit_op = self._get_qubit_operator()\n        qu_op_dict = qubit_op.terms", "        if self.var_params is not None and np.array_equal(var_params, self.var_params):\n            return\n\n        self.set_var_params(var_params)\n\n        qubit_op = self._get_qubit_operator()\n        qu_op_dict = qubit_op.terms")], "K8.update-equals-rebuild"),
    ("scbk-reorder-sized-from-operator", "C05", [(SCBK, "        fermion_operator = reorder(fermion_operator, up_then_down_order, num_modes=n_spinorbitals)", "        fermion_operator = reorder(fermion_operator, up_then_down_order)")], "K7.register-size"),
    ("scbk-reorder-sized-from-operator-encoding", "C03", [(SCBK, "        fermion_operator = reorder(fermion_operator, up_then_down_order, num_modes=n_spinorbitals)", "        fermion_operator = reorder(fermion_operator, up_then_down_order)")], "K7.register-size"),
    ("bk-state-encoder-writes-into-its-argument", "C05", [(SV, "    mat = bravyi_kitaev_code(len(vector)).encoder.toarray()\n    vector_bk = np.mod(np.dot(mat, vector), 2)", "    vector_bk = np.asarray(vector, dtype=int)\n    for j in range(len(vector_bk)):\n        parent = j | (j + 1)\n        if parent < len(vector_bk):\n            vector_bk[parent] ^= vector_bk[j]")], "K1.vector-inputs"),
    ("cirq-dephased-path-ignores-initial-state", "C10", [(TGCIRQ, "            sim = cirq_simulator.simulate(translated_circuit, initial_state=cirq_initial_statevector)", "            sim = cirq_simulator.simulate(translated_circuit)")], "K7.initial-state"),
]

SILENT = [
    ("parity-without-mod", "C02", [(BACK, "        sample = (-1) ** ((bitarray(mask) & bitarray(basis_state)).to01().count(\"1\") % 2)\n        expectation_term += sample * freq",
                                    "        sample = (-1) ** (bitarray(mask) & bitarray(basis_state)).count(1)\n        expectation_term += freq * sample")]),
    ("duplicate-check-by-sets", "C11", [(GATE, "        if len(all_involved_qubits) != len(set(all_involved_qubits)):", "        if len(set(all_involved_qubits)) < len(all_involved_qubits):")]),
    ("rename-local-in-add-gate", "C11", [(CIRC, "        all_involved_qubits = gate.target if gate.control is None else gate.target + gate.control\n        for q in all_involved_qubits:\n            check_index_valid(q)\n",
                                           "        involved = gate.target if gate.control is None else gate.target + gate.control\n        all_involved_qubits = involved\n        for q in involved:\n            check_index_valid(q)\n")]),
    ("gate-index-check-isinstance-form", "C11", [(GATE, "if (type(ind) != int) or (ind < 0):", "if not (type(ind) == int) or ind <= -1:")]),
    ("inverse-angle-spelling", "C09", [(GATE, 'new_parameter = -pi / 2 if self.name == "S" else -pi / 4', 'new_parameter = -0.5 * pi if self.name == "S" else -0.25 * pi')]),
    ("period-table-spelling", "C09", [(GATE, 'period = 4 * pi if ds["name"] in {"CRX", "CRY", "CRZ"} else 2 * pi', 'period = 2 * pi * (2 if ds["name"] in {"CRX", "CRY", "CRZ"} else 1)')]),
    ("fermionic-division-moved-consistently", "C06", [(AU, "            evolve_time = {term: time for term in operator.terms.keys()}", "            evolve_time = {term: time / n_trotter_steps for term in operator.terms.keys()}"),
                                                       (AU, "                evolve_time = deepcopy(time)", "                evolve_time = {term: etime / n_trotter_steps for term, etime in time.items()}"),
                                                       (AU, "operator.terms[term]*evolve_time[term]/n_trotter_steps)", "operator.terms[term]*evolve_time[term])")]),
    ("skip-threshold-spelling", "C06", [(AU, "            if variational or abs(np.real(coef)) > 1.e-10:", "            if variational or not abs(np.real(coef)) <= 1.e-10:")]),
    ("uccsd-rebuild-keys-inequality", "C07", [(UCCSD, "        if set(self.pauli_to_angles_mapping.keys()) != set(qubit_op.terms.keys()):", "        if qubit_op.terms.keys() != self.pauli_to_angles_mapping.keys():")]),
    ("collapse-counter-int64", "C16", [(MULTI, "np.linspace(0, len(operator) - 1, len(operator), dtype=int).reshape", "np.linspace(0, len(operator) - 1, len(operator), dtype=np.int64).reshape")]),
    ("mapping-membership-spelling", "C03", [(MT, "    if mapping.upper() not in available_mappings:", "    if not (mapping.upper() in available_mappings):")]),
    ("odd-order-guard-spelling", "C06", [(AU, "    if trotter_order > 1 and trotter_order % 2 != 0:", "    if trotter_order % 2 == 1 and trotter_order != 1:")]),
    ("uhf-core-matmul-spelling", "C04", [(ISP, "        hpq.append(mo_a.T.dot(hcore).dot(mo_a))", "        hpq.append(mo_a.T @ hcore @ mo_a)")]),
    ("uhf-container-renamed-locals", "C04", [(MOL, "        two_body_integrals_new = [TwInt_aa, TwInt_ab, TwInt_bb]", "        blocks = (TwInt_aa, TwInt_ab, TwInt_bb)\n        two_body_integrals_new = [blocks[0], blocks[1], blocks[2]]")]),
    ("uhf-half-spelling", "C04", [(MOL, "two_body_coefficients[up_index(p), down_index(q), down_index(r), up_index(s)] = (two_body_integrals[1][p, q, r, s] / 2.)", "two_body_coefficients[up_index(p), down_index(q), down_index(r), up_index(s)] = 0.5 * two_body_integrals[1][p, q, r, s]")]),
    ("uhf-register-spelling", "C04", [(MOL, "        n_qubits = 2*max(n_orb_a, n_orb_b)", "        n_qubits = max(2*n_orb_a, 2*n_orb_b)")]),
    ("rhf-half-spelling", "C04", [(MOL, "reps.InteractionOperator(core_constant, one_body_coefficients, 1 / 2 * two_body_coefficients)", "reps.InteractionOperator(core_constant, one_body_coefficients, 0.5 * two_body_coefficients)")]),
    ("deflation-overlap-by-vdot", "C08", [(VQE, '        for circ in self.deflation_circuits:\n            overlap_circuit = circ + circuit.inverse()\n            f_dict, _ = self.backend.simulate(overlap_circuit)\n            energy += self.deflation_coeff * f_dict.get("0"*overlap_circuit.width, 0)\n', '        if self.deflation_circuits:\n            _, sv = self.backend.simulate(circuit, return_statevector=True)\n            for circ in self.deflation_circuits:\n                _, sv_deflate = self.backend.simulate(circ, return_statevector=True)\n                energy += self.deflation_coeff * abs(np.vdot(sv_deflate, sv))**2\n')]),
    ("deflation-other-inverse", "C08", [(VQE, "            overlap_circuit = circ + circuit.inverse()", "            overlap_circuit = circuit + circ.inverse()")]),
    ("deflation-key-spelling", "C08", [(VQE, 'f_dict.get("0"*overlap_circuit.width, 0)', 'f_dict.get(overlap_circuit.width*"0", 0.)')]),
    ("deflation-key-width-of-the-wider-circuit", "C08", [(VQE, 'f_dict.get("0"*overlap_circuit.width, 0)', 'f_dict.get("0"*max(circ.width, circuit.width), 0)')]),
    ("collapse-renormalise-spelling", "C10", [(BACK, "    sv_selected = sv_selected/sqrt_probability  # casting issue if inplace for probability 1\n\n    return sv_selected, sqrt_probability**2", "    probability = sqrt_probability*sqrt_probability\n    return sv_selected/sqrt_probability, probability")]),
    ("collapse-qubit-bound-spelling", "C10", [(BACK, "    if qubit > n_qubits-1:", "    if qubit >= n_qubits:")]),
    ("collapse-reshape-method", "C10", [(BACK, "    sv_selected = np.reshape(statevector.copy(), (before_index_length, 2, after_index_length))", "    sv_selected = statevector.copy().reshape(before_index_length, 2, after_index_length)")]),
    ("trim-factor-spelling", "C14", [(TRIM, "            if term[qubit] in {'X', 'Y'}:", "            if term[qubit] == 'X' or term[qubit] == 'Y':"), (TRIM, "                c[i] = -1\n", "                c[i] = -1.0\n")]),
    ("trim-states-sorted-by-key", "C14", [(TRIM, "    return circuit_new, dict(sorted(trim_states.items()))", "    return circuit_new, {q: trim_states[q] for q in sorted(trim_states)}")]),
    ("trim-more-phase-gates", "C14", [(TRIM, '            if gate0.name in {"RZ", "Z"}:\n                qubit_idx = e_indices[i].pop()\n                trim_states[qubit_idx] = 0\n            elif gate0.name in {"X", "RX"} and gate_0_is_bitflip:', '            if gate0.name in {"RZ", "Z", "S", "T", "PHASE"}:\n                qubit_idx = e_indices[i].pop()\n                trim_states[qubit_idx] = 0\n            elif gate0.name in {"X", "RX"} and gate_0_is_bitflip:')]),
    ("trim-y-flips-too", "C14", [(TRIM, '            elif gate0.name in {"X", "RX"} and gate_0_is_bitflip:\n                qubit_idx = e_indices[i].pop()\n                trim_states[qubit_idx] = 1\n            else:', '            elif gate0.name in {"X", "RX", "Y", "RY"} and gate_0_is_bitflip:\n                qubit_idx = e_indices[i].pop()\n                trim_states[qubit_idx] = 1\n            else:')]),
    ("reorder-arange-spelling", "C12", [(MT, "    remapped = np.linspace(0, n_spinorbitals - 1, n_spinorbitals, dtype=int)//2\n    remapped[1::2] += int(np.ceil(n_spinorbitals / 2.))", "    remapped = np.arange(n_spinorbitals)//2\n    remapped[1::2] += n_spinorbitals // 2")]),
    ("vector-reorder-spelling", "C12", [(SV, "    if up_then_down:\n        vector = np.concatenate((vector[::2], vector[1::2]))", "    if up_then_down:\n        alpha, beta = vector[0::2], vector[1::2]\n        vector = np.concatenate((alpha, beta))")]),
    ("qwc-check-spelling", "C18", [(GROUP, "    for i in set(b1_dict) & set(b2_dict):\n        if b1_dict[i] != b2_dict[i]:\n            return False\n    return True", "    return all(b1_dict[i] == b2_dict[i] for i in b1_dict if i in b2_dict)")]),
    ("resample-format-spelling", "C18", [(BOOT, '    format_specifier = "0"+str(n_qubits)+"b"', '    format_specifier = f"0{n_qubits}b"')]),
    ("group-qwc-spelling", "C18", [(GROUP, "        if len(res2) < len(res):\n            res = res2", "        res = res2 if len(res2) < len(res) else res")]),
    ("penalty-spelling", "C12", [(PEN, "    all_terms = [[(), -sz]] + spinz_operator_list(n_orbs, up_then_down)\n", "    all_terms = spinz_operator_list(n_orbs, up_then_down)\n    all_terms.append([(), -1 * sz])\n")]),
    ("combined-penalty-spelling", "C12", [(PEN, '        prefactor, sz = penalty_terms["Sz"][:]', '        prefactor = penalty_terms["Sz"][0]\n        sz = penalty_terms["Sz"][1]')]),
    ("reference-circuit-positional", "C05", [(SV, "    vector = get_vector(n_spinorbitals, n_electrons, mapping, up_then_down=up_then_down, spin=spin)", "    vector = get_vector(n_spinorbitals, n_electrons, mapping, up_then_down, spin)")]),
    ("scbk-edit-spelling", "C05", [(SCBK, '        if (spin_orbital - 1, "Z") in term:\n            new_coefficient = coefficient*orbital_parity\n            new_term = tuple(i for i in term if i != (spin_orbital - 1, "Z"))', '        target = (spin_orbital - 1, "Z")\n        if target in term:\n            new_coefficient = orbital_parity*coefficient\n            new_term = tuple(i for i in term if i != target)')]),
    ("complex-expectation-spelling", "C02", [(BACK, "            return exp_real if (exp_imag == 0.) else exp_real + 1.0j * exp_imag", "            return exp_real + 1j * exp_imag if exp_imag != 0. else exp_real")]),
    ("merge-condition-spelling", "C09", [(CIRC, "                if (gate.name, gate.target, gate.control) == (g_prev.name, g_prev.target, g_prev.control):", "                if gate.name == g_prev.name and gate.target == g_prev.target and gate.control == g_prev.control:")]),
    ("redundant-gates-all-spelling", "C09", [(CIRC, "        for qubit_i in qubits:\n            if not gate_qubits[qubit_i] or gate_qubits[qubit_i][-1][1].inverse() != gate:\n                remove_gate = False\n                break", "        remove_gate = all(gate_qubits[q] and gate_qubits[q][-1][1].inverse() == gate for q in qubits)")]),
    ("qubit-number-memoised", "C03", [(MT, "def get_qubit_number(mapping, n_spinorbitals):", "@functools.lru_cache(maxsize=None)\ndef get_qubit_number(mapping, n_spinorbitals):"), (MT, "from math import ceil\n", "from math import ceil\nimport functools\n")]),
    ("truncation-divisor-spelling", "C14", [(OPS, "        frob_factor = 2**(n_qubits / 2)", "        frob_factor = sqrt(2**n_qubits)")]),
    ("combinatorial-label-spelling", "C03", [(COMBI, "            unique_int = (int_alpha * n_choose_beta) + int_beta", "            unique_int = int_beta + n_choose_beta * int_alpha")]),
    ("hcb-coefficient-spelling", "C03", [(HCB, "            r2_coeff = sum(g[i, j, j, i] - g[i, j, i, j] for i in (pu, pd) for j in (qu, qd))", "            direct = sum(g[i, j, j, i] for i in (pu, pd) for j in (qu, qd))\n            exchange = g[pu, qu, pu, qu] + g[pd, qd, pd, qd] + g[pu, qd, pu, qd] + g[pd, qu, pd, qu]\n            r2_coeff = direct - exchange")]),
    ("fci-alpha-count-closed-form", "C04", [(FCI, "        self.n_alpha = self.nelec//2 + self.spin//2 + (self.nelec % 2)", "        self.n_alpha = (self.nelec + self.spin)//2")]),
    ("mi-increment-spelling", "C15", [(MIH, "                corr_energy = fragment_energies[frag_id] - self.e_mf\n                epsilons[frag_id] = corr_energy", "                epsilons[frag_id] = -self.e_mf + fragment_energies[frag_id]")]),
    ("oniom-sum-spelling", "C15", [(ONI, "        self.e_fragment = self.e_high + self.e_low", "        self.e_fragment = self.e_low + self.e_high")]),
    ("link-placement-spelling", "C15", [(ONI, "        replacement = self.factor*(leaving-staying) + staying", "        replacement = staying*(1 - self.factor) + leaving*self.factor")]),
    ("qft-phase-spelling", "C20", [(AU, "parameter=prefac*np.pi/2**(n-i))]", "parameter=prefac*2*np.pi/2**(n-i+1))]")]),
    ("qpe-phase-spelling", "C20", [(QPEF, "        return sum([0.5**(i+1) for i, b in enumerate(bitstring) if b == \"1\"])", "        return sum(int(b) / 2**(i+1) for i, b in enumerate(bitstring))")]),
    ("rdm-mirrored-element-conjugated", "C13", [(VQE, '        for key in self.molecule.fermionic_hamiltonian.terms:\n            # Ignore constant / empty term\n            if not key:\n                continue\n', '        filled_terms = set()\n        for key in self.molecule.fermionic_hamiltonian.terms:\n            # Ignore constant / empty term\n            if not key or key in filled_terms:\n                continue\n', (0, 2)), (VQE, '            elif length == 4:\n                rdm2_spin[iele, lele, jele, kele] += opt_energy2\n\n        # save rdm frequency dictionary\n', '            elif length == 4:\n                rdm2_spin[iele, lele, jele, kele] += opt_energy2\n\n            conj_key = tuple((index, 1 - action) for index, action in reversed(key))\n            if conj_key != key:\n                filled_terms.add(conj_key)\n                if length == 2:\n                    rdm1_spin[jele, iele] += np.conj(opt_energy2)\n                elif length == 4:\n                    rdm2_spin[lele, iele, kele, jele] += np.conj(opt_energy2)\n\n        # save rdm frequency dictionary\n')]),
    ("reindex-fixed-width-spelling", "C11", [(CIRC, "        if self._qubits_simulated:\n            self._qubits_simulated = self.width\n\n    def get_entangled_indices", "        if self._qubits_simulated is not None and self._qubits_simulated > 0:\n            self._qubits_simulated = max(self._qubit_indices) + 1\n\n    def get_entangled_indices")]),
    ("unitary-cache-key-complete", "C06", [(TSU, '        if method == "time":\n            return trotterize(self.qubit_hamiltonian, self.time*n_steps, self.n_trotter_steps, self.trotter_order, control=control)\n', '        key = (method, n_steps, str(control))\n        cache = self.__dict__.setdefault("_built", dict())\n        if key in cache:\n            return cache[key]\n        if method == "time":\n            cache[key] = trotterize(self.qubit_hamiltonian, self.time*n_steps, self.n_trotter_steps, self.trotter_order, control=control)\n            return cache[key]\n')]),
    ("sympy-expectation-adjoint-spelling", "C02", [(TGSYMPY, "        eigenvalue = Dagger(prepared_state) * operator * prepared_state", "        eigenvalue = prepared_state.conjugate().T * operator * prepared_state")]),
    ("complex-detection-spelling", "C02", [(BACK, '            if type(coef) in {complex, np.complex64, np.complex128}:', '            if type(coef) in (np.complex64, np.complex128, complex):', (0, 2)), (BACK, '            if type(coef) in {complex, np.complex64, np.complex128}:', '            if type(coef) in (np.complex64, np.complex128, complex):')]),
    ("vsqs-gate-stride-spelling", "C07", [(VSQSF, "        self.n_var_gates = (self.n_h_init + self.n_h_final + self.n_h_nav) * self.trotter_order", "        self.n_var_gates = self.trotter_order * self.n_h_init + self.trotter_order * (self.n_h_final + self.n_h_nav)")]),
    ("jkmn-elementwise-after-conversion", "C05", [(JKMNF, "    for i, occ in enumerate(vector):\n        if occ == 1:", "    vector = np.asarray(vector)\n    for i in np.flatnonzero(vector == 1):\n        if True:")]),
    ("clifford-angle-spelling", "C09", [(CLIFF, "isclose(gate.parameter % (2 * pi), value % (2 * pi), abs_tol=abs_tol)), None)", "isclose((gate.parameter - value) % (2 * pi), 0., abs_tol=abs_tol) or isclose((gate.parameter - value) % (2 * pi), 2 * pi, abs_tol=abs_tol)), None)")]),
    ("frozen-partition-spelling", "C04", [(FROZ, "            frozen_occupied.append([i for i in frozen_orbitals[e] if i in occupied[e]])", "            occ_e = set(occupied[e])\n            frozen_occupied.append([i for i in frozen_orbitals[e] if i in occ_e])")]),
    ("multiform-compress-update-in-both-branches", "C16", [(MULTI, "        if abs_tol is None:\n            super(QubitOperator, self).compress()\n        else:\n            super(QubitOperator, self).compress(abs_tol)\n\n        self._update(n_qubits)", "        if abs_tol is None:\n            super(QubitOperator, self).compress()\n            self._update(n_qubits)\n        else:\n            super(QubitOperator, self).compress(abs_tol)\n            self._update(n_qubits)")]),
    ("ionq-import-folds-angles-to-4pi", "C17", [(TION, "        parameter = gate.get(\"rotation\")\n", "        parameter = gate.get(\"rotation\")\n        if parameter is not None:\n            parameter %= 4 * 3.141592653589793\n")]),
    ("sympy-backend-forwards-by-keyword", "C19", [(TGSYMPYB, "        super().__init__(n_shots, noise_model)", "        super().__init__(noise_model=noise_model, n_shots=n_shots)")]),
    ("bk-wrapper-positional-register-size", "C03", [(BKF, "    qubit_operator = openfermion_bravyi_kitaev(fermion_operator, n_qubits=n_qubits)", "    qubit_operator = openfermion_bravyi_kitaev(fermion_operator, n_qubits)")]),
    ("angle-law-spelling", "C06", [(AU, "    angle = 2.*coef if coef >= 0. else 4*np.pi+2*coef", "    angle = 2.*coef + (0. if coef >= 0. else 4*np.pi)")]),
    ("cirq-branches-reordered", "C01", [(TCIRQ, '        elif gate_name in {"SWAP"}:\n            target_circuit.append(GATE_CIRQ[gate_name](qubit_list[gate.target[0]], qubit_list[gate.target[1]]))\n        elif gate_name in {"CSWAP"}:\n            next_gate = GATE_CIRQ[gate_name].controlled(num_controls)\n            target_circuit.append(next_gate(*control_list, qubit_list[gate.target[0]], qubit_list[gate.target[1]]))\n',
                                         '        elif gate_name in {"CSWAP"}:\n            next_gate = GATE_CIRQ[gate_name].controlled(num_controls)\n            target_circuit.append(next_gate(*control_list, qubit_list[gate.target[0]], qubit_list[gate.target[1]]))\n        elif gate_name in {"SWAP"}:\n            target_circuit.append(GATE_CIRQ[gate_name](qubit_list[gate.target[0]], qubit_list[gate.target[1]]))\n')]),
    ("cirq-phase-unit-spelling", "C01", [(TCIRQ, '        elif gate_name in {"PHASE"}:\n            next_gate = GATE_CIRQ[gate_name](exponent=gate.parameter/pi)',
                                          '        elif gate_name in {"PHASE"}:\n            next_gate = GATE_CIRQ[gate_name](exponent=(1/pi)*gate.parameter)')]),
    ("ionq-writer-key-order", "C17", [(TION, "json_gates.append({'gate': GATE_JSON_IONQ[gate.name], 'targets': gate.target, 'controls': gate.control})", "json_gates.append({'controls': gate.control, 'targets': gate.target, 'gate': GATE_JSON_IONQ[gate.name]})")]),
    ("rename-prepared-state", "C02", [(BACK, "            basis_circuit = Circuit(measurement_basis_gates(term))\n            full_circuit = initial_circuit + basis_circuit if (basis_circuit.size > 0) else initial_circuit\n            frequencies, _ = self.simulate(full_circuit,\n                                           initial_statevector=updated_statevector,\n                                           desired_meas_result=desired_meas_result)\n            expectation_term",
                                       "            basis_circuit = Circuit(measurement_basis_gates(term))\n            full_circuit = initial_circuit + basis_circuit if (basis_circuit.size > 0) else initial_circuit\n            frequencies, _ = self.simulate(full_circuit,\n                                           desired_meas_result=desired_meas_result,\n                                           initial_statevector=updated_statevector)\n            expectation_term")]),
    ("pauli-table-rows-reordered", "C16", [(MULTI, '            ["I", 0, (0, 0)],\n            ["Z", 1, (0, 1)],', '            ["Z", 1, (0, 1)],\n            ["I", 0, (0, 0)],')]),
    ("depol-rate-spelling", "C19", [(TCIRQ, "depo = cirq.depolarize(np*(4**depo_size-1)/4**depo_size, depo_size)", "depo = cirq.depolarize(np*(1 - 1/4**depo_size), depo_size)")]),
    ("alpha-formula-closed-form", "C05", [(SV, "        n_alpha = n_electrons//2 + spin//2 + (n_electrons % 2)", "        n_alpha = (n_electrons + spin)//2")]),
    ("pad-rdm-explicit-copy", "C13", [(RDMS, "    twordm = twordm.transpose(1, 0, 3, 2).copy()  # work on a copy: the array passed in is left unchanged", "    twordm = np.array(twordm.transpose(1, 0, 3, 2))")]),
    ("histogram-copy-via-dict", "C18", [(HIST, "        self.counts = outcomes.copy()", "        self.counts = dict(outcomes)")]),
    ("sz-term-order", "C12", [(FO, "[((up[0], 1), (up[1], 0)), 1/2], [((dn[0], 1), (dn[1], 0)), -1/2]", "[((dn[0], 1), (dn[1], 0)), -1/2], [((up[0], 1), (up[1], 0)), 1/2]")]),
    ("suzuki-spelling", "C06", [(AU, "        outside = 2 * recursive_trotter_suzuki_decomposition(pauli_words, order-2, time_factor*time)", "        half = recursive_trotter_suzuki_decomposition(pauli_words, order-2, time_factor*time)\n        outside = half + half")]),
    # ---- rules added in wave 3
    ("identity-term-multi-control-first-qubit", "C06", [(AU, "target=control[-1], control=control[:-1], parameter=-np.real(coef)", "target=control[0], control=control[1:], parameter=-np.real(coef)")]),
    ("combinatorial-double-precision", "C03", [(COMBI, "    quop_matrix = np.zeros((2**n, 2**n), dtype=np.complex64)", "    quop_matrix = np.zeros((2**n, 2**n), dtype=np.complex128)")]),
    ("record-split-truthiness", "C10", [(BACK, "            if n_cmeas == 0:\n                self.mid_circuit_meas_freqs, frequencies = split_frequency_dict(", "            if not n_cmeas:\n                self.mid_circuit_meas_freqs, frequencies = split_frequency_dict(")]),
    ("cirq-records-numeric-sort", "C10", [(TGCIRQ, "                bitstr = \"\".join([str(job_sim.measurements[str(i)][j, 0]) for i in range(n_meas + source_circuit.width)])", "                bitstr = \"\".join([str(job_sim.measurements[k][j, 0]) for k in sorted(job_sim.measurements, key=int)])")]),
    ("simplify-out-of-place-passes", "C09", [(CIRC, "        c_new = merge_rotations(c_old)\n        c_new.remove_small_rotations(param_threshold=param_threshold, remove_qubits=remove_qubits)\n        c_new.remove_redundant_gates(remove_qubits=remove_qubits)",
                                               "        c_new = remove_small_rotations(merge_rotations(c_old), param_threshold=param_threshold, remove_qubits=remove_qubits)\n        c_new = remove_redundant_gates(c_new, remove_qubits=remove_qubits)")]),
    ("uccgd-rebuild-on-any-order-change", "C07", [(UCCGDF, "        if list(qu_op_dict) != [term for term, _ in self.pauli_order]:", "        if list(qu_op_dict.keys()) != [item[0] for item in self.pauli_order]:")]),
    ("deflation-coeff-float-default", "C08", [(VQE, "        self.deflation_coeff: float = copt_dict.pop(\"deflation_coeff\", 1)", "        self.deflation_coeff: float = copt_dict.pop(\"deflation_coeff\", 1.0)")]),
    ("explicit-mo-coeff-conditional-expression", "C04", [(ISP, "        if mo_coeff is None:\n            mo_coeff = self.mo_coeff\n\n        if sqmol.uhf:", "        mo_coeff = self.mo_coeff if mo_coeff is None else mo_coeff\n\n        if sqmol.uhf:")]),
    ("scbk-vector-explicit-slices", "C05", [(SV, "            warnings.warn(\"Symmetry-conserving Bravyi-Kitaev enforces all spin-up followed by all spin-down ordering.\", RuntimeWarning)\n            vector = np.concatenate((vector[::2], vector[1::2]))", "            warnings.warn(\"Symmetry-conserving Bravyi-Kitaev enforces all spin-up followed by all spin-down ordering.\", RuntimeWarning)\n            vector = np.concatenate((vector[0::2], vector[1::2]))")]),
    ("uccsd-spin-default-explicit-test", "C12", [(UCCSD, "        self.spin = molecule.active_spin if spin is None else spin", "        self.spin = spin if spin is not None else molecule.active_spin")]),
    ("do-commute-all-terms", "C16", [(MULTI, "    if not term_resolved:\n        return not np.any(term_bool)\n    else:\n        return np.logical_not(term_bool)", "    commutes = np.logical_not(term_bool)\n\n    return commutes if term_resolved else bool(np.all(commutes))")]),
    ("get-backend-default-target-recursion", "C19", [(SIMF, "    if target is None:\n        target = target_dict[default_simulator]\n    # If target is a string use target_dict to return built-in backend\n    elif isinstance(target, str):", "    if target is None:\n        return get_backend(default_simulator, n_shots=n_shots, noise_model=noise_model, **kwargs)\n    if isinstance(target, str):")]),
    ("split-complement-as-set", "C18", [(POST, "    other_indices = [i for i in range(key_length) if i not in indices]", "    chosen = set(indices)\n    other_indices = [i for i in range(key_length) if i not in chosen]")]),
    ("taper-sector-pairs-as-list", "C14", [(Z2TF, "        for index, eigenvalue in zip(q_indices, eigenvalues):", "        for index, eigenvalue in tapered_sector:"), (Z2TF, "    def do_taper(operator, eigenvalues=eigenvalues):", "    tapered_sector = list(zip(q_indices, eigenvalues))\n\n    def do_taper(operator, eigenvalues=eigenvalues):")]),
    ("trim-relabels-sorted-without-list", "C14", [(CIRC, "        mapping = {ind: i for i, ind in enumerate(sorted(list(qubits_in_use)))}", "        mapping = {ind: i for i, ind in enumerate(sorted(qubits_in_use))}")]),
    ("dmet-uhf-split-closed-form", "C15", [(DMETORBF, "        elec_diff = self.mol_full.spin\n        elec_paired = self.number_active_electrons-elec_diff\n        orbital_paired = elec_paired // 2", "        elec_diff = self.mol_full.spin\n        orbital_paired = (self.number_active_electrons - elec_diff) // 2")]),
    ("iqpe-feedback-halving", "C20", [(IQPEF, "                self.phase += 1/2**(self.bitplace)", "                self.phase += 0.5**(self.bitplace)")]),
    ("qpe-powers-by-shift", "C20", [(QPEF2, "            self.circuit += self.unitary.build_circuit(2**i, control=qubit)", "            self.circuit += self.unitary.build_circuit(1 << i, control=qubit)")]),
    # ---- rules added in wave 4
    ("sympy-s-gate-as-phase-pi-over-two", "C01", [(TSYM, "    GATE_SYMPY[\"S\"] = SYMPYGate.PhaseGate", "    from sympy import pi\n    GATE_SYMPY[\"S\"] = lambda target: p_gate(target, pi / 2)")]),
    ("cirq-measure-key-branches", "C02", [(TCIRQ, "            key = str(measure_count) if save_measurements else None\n            target_circuit.append(GATE_CIRQ[gate_name](qubit_list[gate.target[0]], key=key))", "            if save_measurements:\n                target_circuit.append(GATE_CIRQ[gate_name](qubit_list[gate.target[0]], key=str(measure_count)))\n            else:\n                target_circuit.append(GATE_CIRQ[gate_name](qubit_list[gate.target[0]], key=None))")]),
    ("trotter-unitary-keyword-call", "C06", [(TSUF, "            return trotterize(self.qubit_hamiltonian, self.time*n_steps, self.n_trotter_steps, self.trotter_order, control=control)", "            return trotterize(self.qubit_hamiltonian, self.time*n_steps, trotter_order=self.trotter_order, n_trotter_steps=self.n_trotter_steps, control=control)")]),
    ("bk-state-encoder-copies-first", "C05", [(SV, "    mat = bravyi_kitaev_code(len(vector)).encoder.toarray()\n    vector_bk = np.mod(np.dot(mat, vector), 2)", "    vector_bk = np.array(vector, dtype=int)\n    for j in range(len(vector_bk)):\n        parent = j | (j + 1)\n        if parent < len(vector_bk):\n            vector_bk[parent] ^= vector_bk[j]")]),
]
