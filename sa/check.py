"""Entry point:  /venv/bin/python -m sa.check C11 --tier quick

exit 0  every obligation discharged (known findings printed as KNOWN-FINDING)
exit 1  unlisted violation(s): prints `VIOLATION property=<id> replay=<path>`
exit 2  ANALYSIS-ERROR: the check itself is broken (anchor vanished, unknown idiom, floor not met)
"""
from __future__ import annotations

import argparse
import importlib
import json
import os
import sys
import traceback
from pathlib import Path

from .index import AnalysisError, Index
from .report import Report, VERIF

PROPS = ["C01", "C02", "C03", "C04", "C05", "C06", "C07", "C08", "C09", "C10",
         "C11", "C12", "C13", "C14", "C15", "C16", "C17", "C18", "C19", "C20"]


def anchor_files(prop: str):
    """the files a property is anchored in (properties.jsonl), non-test python files of the package only"""
    out = []
    for line in (VERIF / "properties.jsonl").read_text().splitlines():
        if not line.strip():
            continue
        d = json.loads(line)
        if d["id"] == prop:
            out = [f for f in d.get("anchors", {}).get("files", []) if f.endswith(".py") and "/tests/" not in f]
    return out


def run_property(prop: str, tier: str, seed: int, evidence_dir=None, quiet=False, index=None) -> int:
    try:
        mod = importlib.import_module(f"sa.props.{prop}")
    except ModuleNotFoundError:
        print(f"ANALYSIS-ERROR property={prop} no checker module sa.props.{prop}")
        return 2
    rep = Report(prop, tier, seed)
    try:
        idx = index or Index()
        rep.stats["modules_parsed"] = len(idx.modules)
        rep.stats["functions_indexed"] = sum(len(m.functions) for m in idx.modules.values())
        mod.run(idx, rep, tier)
        # shared rule: no function of the property's modules remembers results in a way that can go stale or be shared
        from .rules.memo import check_memoisation
        files = anchor_files(prop)
        n = check_memoisation(idx, rep, files)
        rep.floor("functions scanned for memoising decorators", n, 3)
        from .rules.memo import check_cache_keys
        check_cache_keys(idx, rep, files)
        if prop in ("C03", "C12", "C14", "C16"):
            # properties about operators as values (arithmetic leaves operands alone, stored operators keep their spectrum): sharing a term
            # dictionary between two operators breaks them; for the format translators (C17) sharing is outside what the property states
            from .rules.sharing import check_terms_copied
            check_terms_copied(idx, rep, files)
        from .rules.defaults import check_explicit_arguments
        rep.stats["optional_argument_defaults"] = check_explicit_arguments(idx, rep, files)
        from .rules.defaults import check_falsy_defaults
        check_falsy_defaults(idx, rep, files)
        from .rules.forwarding import check_encoding_forwarding
        rep.stats["encoder_call_sites"] = check_encoding_forwarding(idx, rep, files)
        from .rules.forwarding import check_swapped_arguments
        rep.stats["positional_call_sites"] = check_swapped_arguments(idx, rep, files)
        from .rules.overrides import check_overrides_restored
        rep.stats["temporary_overrides"] = check_overrides_restored(idx, rep, files)
        from .rules.fresh import check_operator_results
        rep.stats["out_of_place_operators"] = check_operator_results(idx, rep, files)
        from .rules.forwarding import check_catchall_parameters
        rep.stats["catch_all_parameters"] = check_catchall_parameters(idx, rep, files)
        from .rules.closures import check_closure_reuse
        rep.stats["inner_functions"] = check_closure_reuse(idx, rep, files)
        from .rules.annotations import check_annotation_forwarding
        rep.stats["self_copies"] = check_annotation_forwarding(idx, rep, files)
        if prop in ("C02", "C18"):
            # properties about values computed from frequency dictionaries: a botched refusal (`return ValueError(...)`) hands an exception object on as the value
            from .rules.exceptions import check_returned_exceptions
            check_returned_exceptions(idx, rep, files)
        from .rules.elementwise import check_elementwise
        check_elementwise(idx, rep, files)
        from .rules.protocols import check_protocols
        rep.stats["protocol_sites"] = check_protocols(idx, rep, files)
        if tier == "thorough" and not os.environ.get("SA_NO_SELFTEST") and not rep.has_unlisted_violations():
            # the checker is itself checked: variants of the source on scratch copies must fire / stay silent as expected
            from .selftest import run_selftest
            st = run_selftest(prop, quiet=True)
            rep.stats["selftest"] = st
            if not quiet:
                print(f"[{prop}] self-test: {st['variants']} variants ({st['must_fire']} must fire, {st['must_stay_silent']} must stay silent), {len(st['failed'])} failed")
            if st["failed"]:
                raise AnalysisError(f"self-test failed for {prop}: {st['failed'][:3]}")
        return rep.finish(evidence_dir=evidence_dir, quiet=quiet)
    except AnalysisError as e:
        if rep.has_unlisted_violations():
            # part of the analysis could not be completed, but violations were already established: they stand (exit 1); the undecided part is named
            print(f"NOTE property={prop} analysis stopped early ({e}); the violations below were established before that")
            return rep.finish(evidence_dir=evidence_dir, quiet=quiet)
        print(f"ANALYSIS-ERROR property={prop} {e}")
        return 2
    except Exception:
        traceback.print_exc()
        print(f"ANALYSIS-ERROR property={prop} internal error in checker (traceback above)")
        return 2


def main(argv=None) -> int:
    ap = argparse.ArgumentParser()
    ap.add_argument("prop", nargs="?")
    ap.add_argument("--tier", default=os.environ.get("VERIF_TIER", "quick"), choices=["quick", "thorough"])
    ap.add_argument("--replay")
    ap.add_argument("--all", action="store_true")
    ap.add_argument("--evidence-dir")
    ap.add_argument("--quiet", action="store_true")
    args = ap.parse_args(argv)
    seed = int(os.environ.get("VERIF_SEED", "0") or 0)
    evd = Path(args.evidence_dir) if args.evidence_dir else None
    if args.replay:
        data = json.loads(Path(args.replay).read_text())
        prop = data["property"]
        print(f"replaying {len(data['violations'])} recorded violation(s) of {prop} against the current tree")
        for v in data["violations"]:
            print(f"  recorded: {v['file']}:{v['line']} {v['qualname']} [{v['rule']}] {v['text']} :: {v['reason']}")
        return run_property(prop, args.tier, seed, evd)
    if args.all:
        rc = 0
        idx = Index()
        for p in PROPS:
            r = run_property(p, args.tier, seed, evd, quiet=args.quiet, index=idx)
            rc = max(rc, r)
        return rc
    if not args.prop:
        ap.error("property id required")
    return run_property(args.prop, args.tier, seed, evd, quiet=args.quiet)


if __name__ == "__main__":
    sys.exit(main())
