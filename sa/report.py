"""Obligation bookkeeping, known-findings filtering, evidence files and exit codes."""
from __future__ import annotations

import ast
import json
import os
import time
from dataclasses import dataclass, field, asdict
from pathlib import Path
from typing import Any, Dict, List, Optional

from .index import FunctionInfo, ModuleInfo, norm

VERIF = Path(__file__).resolve().parent.parent
KNOWN_FILE = VERIF / "known_findings.json"


@dataclass
class Item:
    rule: str            # e.g. "K1.purity"
    file: str            # repo-relative path
    qualname: str        # function / class / table name
    line: int
    text: str            # normalised statement text or instance name
    what: str            # obligation in words
    status: str = "ok"   # ok | violation | info
    reason: str = ""
    nontrivial: bool = True

    @property
    def key(self) -> str:
        return f"{self.rule}|{self.file}|{self.qualname}|{self.text}"

    def diag(self) -> str:
        return f"{self.file}:{self.line} {self.qualname} [{self.rule}] {self.text} :: {self.reason or self.what}"


class Report:
    def __init__(self, prop: str, tier: str = "quick", seed: int = 0):
        self.prop = prop
        self.tier = tier
        self.seed = seed
        self.items: List[Item] = []
        self.t0 = time.time()
        self.explanations: List[str] = []
        self.trusted: List[str] = []
        self.assumptions: List[str] = []
        self.stats: Dict[str, Any] = {}
        self.floors: List[str] = []

    # -- recording ------------------------------------------------------------
    def _mk(self, rule, where, node, text, what, status, reason, nontrivial=True) -> Item:
        if isinstance(where, FunctionInfo):
            file, qn = where.module.relpath, where.qualname
        elif isinstance(where, tuple):
            file, qn = where
            if isinstance(file, ModuleInfo):
                file = file.relpath
        else:
            raise TypeError(where)
        line = getattr(node, "lineno", 0) if node is not None else 0
        if text is None:
            text = norm(node) if node is not None else ""
        if len(text) > 300:
            text = text[:300]
        it = Item(rule, file, qn, line, text, what, status, reason, nontrivial)
        self.items.append(it)
        return it

    def ok(self, rule, where, node=None, text=None, what="", nontrivial=True):
        return self._mk(rule, where, node, text, what, "ok", "", nontrivial)

    def violation(self, rule, where, node=None, text=None, what="", reason=""):
        return self._mk(rule, where, node, text, what, "violation", reason)

    def info(self, rule, where, node=None, text=None, what="", reason=""):
        return self._mk(rule, where, node, text, what, "info", reason)

    def decide(self, cond: bool, rule, where, node=None, text=None, what="", reason=""):
        if cond:
            return self.ok(rule, where, node, text, what)
        return self.violation(rule, where, node, text, what, reason)

    def explain(self, s: str):
        self.explanations.append(s)

    def trust(self, *s: str):
        for x in s:
            if x not in self.trusted:
                self.trusted.append(x)

    def assume(self, *s: str):
        for x in s:
            if x not in self.assumptions:
                self.assumptions.append(x)

    def floor(self, name: str, count: int, minimum: int):
        """Instance-count floor confirmed by hand; falling below means the rule went blind."""
        from .index import AnalysisError
        self.floors.append(f"{name}: {count} >= {minimum}")
        if count < minimum:
            raise AnalysisError(f"instance floor not met for {name}: found {count}, need >= {minimum}")

    # -- finishing ------------------------------------------------------------
    @staticmethod
    def load_known() -> Dict[str, Dict[str, str]]:
        if not KNOWN_FILE.exists():
            return {}
        data = json.loads(KNOWN_FILE.read_text())
        out: Dict[str, Dict[str, str]] = {}
        for f in data.get("findings", []):
            out.setdefault(f["property"], {})[f["key"]] = f.get("what", "")
        return out

    def has_unlisted_violations(self) -> bool:
        known = self.load_known().get(self.prop, {})
        return any(i.status == "violation" and i.key not in known for i in self.items)

    def finish(self, evidence_dir: Optional[Path] = None, quiet: bool = False) -> int:
        evidence_dir = evidence_dir or (VERIF / "evidence")
        evidence_dir.mkdir(parents=True, exist_ok=True)
        known = self.load_known().get(self.prop, {})
        viol = [i for i in self.items if i.status == "violation"]
        # de-duplicate by key (same construct reported by several passes)
        seen = {}
        for v in viol:
            seen.setdefault(v.key, v)
        viol = list(seen.values())
        listed = [v for v in viol if v.key in known]
        unlisted = [v for v in viol if v.key not in known]
        infos = [i for i in self.items if i.status == "info"]
        oks = [i for i in self.items if i.status == "ok"]
        obligations = len(oks) + len(viol)
        distinct = len({i.key for i in self.items if i.nontrivial and i.status != "info"})
        samples = []
        by_rule: Dict[str, int] = {}
        for i in self.items:
            by_rule[i.rule] = by_rule.get(i.rule, 0) + 1
        shown: Dict[str, int] = {}
        for i in self.items:          # up to three samples per rule, written out
            if i.status == "info":
                continue
            if shown.get(i.rule, 0) < 3:
                samples.append({"rule": i.rule, "file": i.file, "function": i.qualname, "line": i.line,
                                "construct": i.text, "obligation": i.what, "status": i.status})
                shown[i.rule] = shown.get(i.rule, 0) + 1
        if not samples:
            samples = [{"note": "no obligations generated"}]
        ev = {
            "property_id": self.prop,
            "tier": self.tier,
            "seed": self.seed,
            "level": "other",
            "coverage": {
                "explanation": " ".join(self.explanations) or "static analysis of /repo sources",
                "obligations": obligations,
                "discharged": len(oks),
                "evaluations": len(self.items),
                "distinct_nontrivial": distinct,
                "rule": "one evaluation per (rule, construct) obligation extracted from the current source tree; "
                        "distinct = distinct (rule,file,function,construct) keys whose rule had something to decide",
                "samples": samples[:40],
                "obligations_by_rule": by_rule,
                "instance_floors": self.floors,
                "trusted_base": self.trusted,
                "known_findings_reported": [v.key for v in listed],
                "info": [i.diag() for i in infos][:60],
                "repo_root": str(os.environ.get("SA_REPO", "/repo")),
                "exhaustive": False,
                **self.stats,
            },
            "assumptions": self.assumptions,
            "wall_s": round(time.time() - self.t0, 3),
            "violations": len(unlisted),
        }
        (evidence_dir / f"{self.prop}.json").write_text(json.dumps(ev, indent=1, sort_keys=False) + "\n")
        if not quiet:
            print(f"[{self.prop}] tier={self.tier} obligations={obligations} discharged={len(oks)} "
                  f"known={len(listed)} violations={len(unlisted)} info={len(infos)} "
                  f"wall={ev['wall_s']}s")
            for r, n in sorted(by_rule.items()):
                print(f"    rule {r}: {n} obligations")
            for i in infos:
                print(f"INFO: property={self.prop} {i.diag()}")
            for v in listed:
                print(f"KNOWN-FINDING: property={self.prop} {v.diag()}")
        if unlisted:
            out = VERIF / "out"
            out.mkdir(exist_ok=True)
            rp = out / f"{self.prop}.violation.json"
            rp.write_text(json.dumps({"property": self.prop,
                                      "violations": [asdict(v) | {"key": v.key} for v in unlisted]}, indent=1))
            if not quiet:
                for v in unlisted:
                    print(f"  violation: {v.diag()}")
                    print(f"      key: {v.key}")
                print(f"VIOLATION property={self.prop} replay={rp}")
            return 1
        return 0
