"""K11.protocol: an object built from a repository class is only put through built-in protocols its class implements.

`len(x)`, `x[...]`, `for _ in x`, `v in x`, `x()` on a local name whose every binding in the function is a constructor call of one
repository class require `__len__`, `__getitem__`, `__iter__`, `__contains__` / `__iter__`, `__call__` somewhere in that class' MRO
(external bases are parsed, so inherited protocol methods count).  A missing one is a TypeError on every execution of the statement -
for every input, which is why a test that never reaches the branch cannot see it."""
from __future__ import annotations

import ast
from typing import Dict, Iterable, List, Optional

from ..index import ClassInfo, FunctionInfo, Index, norm

NEED = {"len": ["__len__"], "subscript": ["__getitem__", "__class_getitem__"], "iter": ["__iter__", "__getitem__"], "contains": ["__contains__", "__iter__", "__getitem__"]}


def _has(idx: Index, ci: ClassInfo, names: List[str]) -> Optional[bool]:
    """True/False when the whole MRO is known, None when an unresolved base could provide it"""
    unknown = False
    for c in idx.mro(ci):
        if any(n in c.methods for n in names):
            return True
    for c in idx.mro(ci):
        for b in c.node.bases:
            if not isinstance(idx.resolve_expr(c.module, b), ClassInfo) and norm(b) not in ("object", "abc.ABC", "ABC"):
                unknown = True
    return None if unknown else False


def check_protocols(idx: Index, rep, relpaths: Iterable[str], rule: str = "K11.protocol") -> int:
    n_sites = 0
    for rel in relpaths:
        try:
            m = idx.module_by_relpath(rel)
        except Exception:
            continue
        for f in m.functions.values():
            bind: Dict[str, List[ast.AST]] = {}
            for n in ast.walk(f.node):
                tgts = []
                if isinstance(n, ast.Assign):
                    tgts = [(t, n.value) for t in n.targets]
                elif isinstance(n, (ast.AugAssign, ast.AnnAssign)) and getattr(n, "value", None) is not None:
                    tgts = [(n.target, n.value)]
                elif isinstance(n, (ast.For, ast.comprehension)):
                    tgts = [(n.target, None)]
                elif isinstance(n, ast.With):
                    tgts = [(i.optional_vars, None) for i in n.items if i.optional_vars is not None]
                for t, v in tgts:
                    for x in ast.walk(t):
                        if isinstance(x, ast.Name):
                            bind.setdefault(x.id, []).append(v if x is t else None)
            typed: Dict[str, ClassInfo] = {}
            for name, vals in bind.items():
                if name in f.params or not vals or any(v is None for v in vals):
                    continue
                cls = set()
                for v in vals:
                    r = idx.resolve_expr(m, v.func) if isinstance(v, ast.Call) else None
                    cls.add(r if isinstance(r, ClassInfo) and not r.module.external else None)
                if len(cls) == 1 and None not in cls:
                    typed[name] = cls.pop()
            if not typed:
                continue
            for n in ast.walk(f.node):
                use = None
                if isinstance(n, ast.Call) and isinstance(n.func, ast.Name) and n.func.id == "len" and len(n.args) == 1 and isinstance(n.args[0], ast.Name) and n.args[0].id in typed:
                    use = ("len", n.args[0].id)
                elif isinstance(n, ast.Subscript) and isinstance(n.value, ast.Name) and n.value.id in typed:
                    use = ("subscript", n.value.id)
                elif isinstance(n, (ast.For, ast.comprehension)) and isinstance(n.iter, ast.Name) and n.iter.id in typed:
                    use = ("iter", n.iter.id)
                elif isinstance(n, ast.Compare) and len(n.ops) == 1 and isinstance(n.ops[0], (ast.In, ast.NotIn)) and isinstance(n.comparators[0], ast.Name) and n.comparators[0].id in typed:
                    use = ("contains", n.comparators[0].id)
                if use is None:
                    continue
                kind, name = use
                ci = typed[name]
                has = _has(idx, ci, NEED[kind])
                if has is None:
                    continue
                n_sites += 1
                node = n if hasattr(n, "lineno") else f.node
                rep.decide(has, rule, f, node, text=f"{kind} on `{name}`, a {ci.name}",
                           what="an object built from a repository class is only put through built-in protocols its class implements",
                           reason=f"`{name}` is always a {ci.name} here and {ci.name} defines none of {NEED[kind]}: this statement raises TypeError whenever it is reached")
    return n_sites
