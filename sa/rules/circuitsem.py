"""Exact (sympy) unitary of a short list of folded Gate records on a few qubits - the reference semantics of the documented
gate set, used to validate circuits *extracted by folding* generator functions.  Qubit 0 is the most significant factor of
the Kronecker product (any fixed convention works: both sides of every comparison are built here)."""
from __future__ import annotations

from typing import Any, Dict, List, Optional, Sequence

import sympy as sp

from ..consteval import Folder, FuncVal, Raised, Rec, Undecidable
from ..index import AnalysisError, Index
from .. import symx

P0 = sp.Matrix([[1, 0], [0, 0]])
P1 = sp.Matrix([[0, 0], [0, 1]])
SWAP2 = sp.Matrix([[1, 0, 0, 0], [0, 0, 1, 0], [0, 1, 0, 0], [0, 0, 0, 1]])


def kron_all(mats: Sequence[sp.Matrix]) -> sp.Matrix:
    out = sp.Matrix([[1]])
    for m in mats:
        out = sp.kronecker_product(out, m)
    return out


def embed1(u: sp.Matrix, q: int, n: int) -> sp.Matrix:
    return kron_all([u if i == q else sp.eye(2) for i in range(n)])


def embed_pauli_word(word: Dict[int, str], n: int) -> sp.Matrix:
    return kron_all([symx.PAULI[word.get(i, "I")] for i in range(n)])


def swap_matrix(a: int, b: int, n: int) -> sp.Matrix:
    # SWAP = (I + XX + YY + ZZ) / 2
    out = sp.eye(2 ** n)
    for p in ("X", "Y", "Z"):
        out += embed_pauli_word({a: p, b: p}, n)
    return out / 2


def base_unitary(name: str, targets: List[int], param, n: int) -> sp.Matrix:
    if name in ("SWAP",):
        return swap_matrix(targets[0], targets[1], n)
    if name == "XX":
        xx = embed_pauli_word({targets[0]: "X", targets[1]: "X"}, n)
        return sp.cos(param / 2) * sp.eye(2 ** n) - sp.I * sp.sin(param / 2) * xx
    if name == "CNOT":
        name = "X"
    return embed1(symx.gate_matrix(name, param), targets[0], n)


def gate_unitary(g: Rec, n: int) -> sp.Matrix:
    name = g.fields["name"]
    tgt = g.fields["target"]
    ctl = g.fields["control"]
    par = g.fields["parameter"]
    tgt = list(tgt) if isinstance(tgt, (list, tuple)) else [tgt]
    if ctl is not None:
        ctl = list(ctl) if isinstance(ctl, (list, tuple)) else [ctl]
    if par != "" and not isinstance(par, sp.Basic):
        par = sp.nsimplify(par)
    base = name
    if ctl:
        if name == "CNOT":
            base = "X"
        elif name.startswith("C"):
            base = name[1:]
        else:
            raise AnalysisError(f"gate {name} with controls")
    u = base_unitary(base, tgt, par, n)
    if not ctl:
        return u
    pc = sp.eye(2 ** n)
    for c in ctl:
        pc = pc * embed1(P1, c, n)
    return sp.eye(2 ** n) + pc * (u - sp.eye(2 ** n))


def circuit_unitary(gates: List[Rec], n: int) -> sp.Matrix:
    u = sp.eye(2 ** n)
    for g in gates:
        u = gate_unitary(g, n) * u
    return u


def simp(m: sp.Matrix) -> sp.Matrix:
    return m.applyfunc(lambda x: sp.simplify(sp.expand_complex(sp.expand(x.rewrite(sp.cos)))))


def mat_equal(a: sp.Matrix, b: sp.Matrix) -> bool:
    d = (a - b)
    for x in d:
        y = sp.simplify(sp.expand(sp.expand_complex(x.rewrite(sp.exp))))
        if y != 0:
            y = sp.simplify(sp.expand_trig(sp.expand(x.rewrite(sp.cos))))
            if y != 0:
                return False
    return True


# ---------------------------------------------------------------------------------------------------
def gate_inverse_ctor(idx: Index):
    """constructor-table entry that folds the repository's own Gate.inverse on a Gate record"""
    f = idx.function("tangelo/linq/gate.py::Gate.inverse")
    from ..props.C09 import gate_sets, _isinstance_hook
    sets = gate_sets(idx)

    def inv(obj: Rec, args, kwargs):
        fo = Folder(env=dict(sets), isinstance_hook=_isinstance_hook)
        fo.env["pi"] = sp.pi
        return fo.run_function(f.node, {"self": obj})
    return inv


def module_resolver(idx: Index, relpath: str):
    """resolver for Folder: module-level functions of `relpath` (and functions it imports from the package) become callable"""
    mod = idx.module_by_relpath(relpath)

    def resolve(name: str):
        r = idx.resolve_name(mod, name)
        from ..index import ClassInfo, FunctionInfo
        from ..consteval import ClassVal
        if isinstance(r, FunctionInfo) and not r.module.external:
            return FuncVal(r.node, home=r.module.relpath)
        if isinstance(r, ClassInfo) and not r.module.external:
            methods, props, homes = {}, {}, {}
            for c in reversed(idx.mro(r)):
                if c.module.external:
                    continue
                for mn, m in c.methods.items():
                    homes[mn] = c.module.relpath
                    if m.is_property():
                        props[mn] = m.node
                    else:
                        methods[mn] = m.node
            return ClassVal(r.name, methods, props, home=r.module.relpath, method_home=homes)
        if isinstance(r, tuple) and r and r[0] == "value":
            # module-level constant: literal containers / numbers / strings only
            import ast as _ast
            node = r[2]
            try:
                v = _ast.literal_eval(node)
                return frozenset(v) if isinstance(v, set) else v
            except Exception:
                pass
            # a module-level constant computed from other constants (set(TABLE), {**A, **B}, ...): fold it
            try:
                from ..consteval import Folder as _Folder, Undecidable as _Und, Raised as _Rai
                v = _Folder(resolver=resolve).expr(node)
                return v
            except Exception:
                return None
        from ..index import ModuleInfo
        if (r is None or (isinstance(r, ModuleInfo) and r.external)) and name in mod.imports and not mod.imports[name].startswith("tangelo"):
            from ..consteval import Opaque
            return Opaque(name)                      # an external module or object (numpy, warnings, ...): opaque, identified by its local name
        return None
    return resolve

def module_str_set(idx: Index, relpath: str, name: str):
    """a module-level table of names as a frozenset of strings: a literal set, or an expression over other module-level tables (unions, differences,
    set(...)) folded from the syntax tree; None when it is neither"""
    v = module_resolver(idx, relpath)(name)
    if isinstance(v, (set, frozenset, list, tuple)) and all(isinstance(x, str) for x in v):
        return frozenset(v)
    return None



def make_folder(idx: Index, relpath: str, **kw) -> Folder:
    """Folder whose names resolve in `relpath`, and whose callees resolve names in their own modules"""
    fo = Folder(resolver=module_resolver(idx, relpath), resolver_factory=lambda rel: module_resolver(idx, rel), **kw)
    fo.env["np.pi"] = sp.pi
    return fo


def fold_module_global(idx: Index, relpath: str, name: str):
    """value of a module-level name that is *built* by top-level statements (an empty container filled by loops and subscript stores): every top-level
    Assign / AugAssign / For / If statement that mentions the name is folded in order; other names resolve as usual"""
    import ast as _ast
    from ..consteval import Folder as _Folder
    mod = idx.module_by_relpath(relpath)
    fo = _Folder(resolver=module_resolver(idx, relpath), resolver_factory=lambda rel: module_resolver(idx, rel))
    seen = False
    for st in mod.tree.body:
        if isinstance(st, (_ast.Assign, _ast.AugAssign, _ast.AnnAssign, _ast.For, _ast.If)) and any(isinstance(x, _ast.Name) and x.id == name for x in _ast.walk(st)):
            fo.stmt(st)
            seen = True
    if not seen or name not in fo.env:
        raise AnalysisError(f"{relpath}: module-level name {name} is not built by top-level statements")
    return fo.env[name]
