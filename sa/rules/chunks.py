"""Shot conservation of the chunked sampling loops: the chunk sizes drawn in the loop add up to the number of shots requested.

Extracted from the source: `chunk_size = <const>`, `n_chunks = <expr>`, `for i in range(<expr>)`, `this_chunk = <expr>`; the three
expressions are folded (pure integer arithmetic) with the chunk size replaced by a small value, for every shot count of a grid that covers
"below one chunk", "exact multiples" and "multiples plus a remainder" - the three cases the arithmetic can distinguish."""
from __future__ import annotations

import ast
from typing import Optional

from ..consteval import Folder, Raised, Undecidable
from ..index import AnalysisError, FunctionInfo, norm, own_nodes
from ..report import Report


def check_chunk_sum(rep: Report, rule: str, f: FunctionInfo, shots_expr: str):
    asg = {}
    for n in own_nodes(f.node):
        if isinstance(n, ast.Assign) and len(n.targets) == 1 and isinstance(n.targets[0], ast.Name):
            asg.setdefault(n.targets[0].id, n)
    loops = [n for n in own_nodes(f.node) if isinstance(n, ast.For) and isinstance(n.iter, ast.Call) and norm(n.iter.func) == "range"
             and any(isinstance(x, ast.Assign) and norm(x.targets[0]) == "this_chunk" for x in n.body)]
    if "chunk_size" not in asg or "n_chunks" not in asg or not loops:
        rep.info(rule, f, f.node, text=f"{f.name}: no chunked sampling loop", reason="samples are drawn in one call")
        return
    loop = loops[0]
    tc = [x for x in loop.body if isinstance(x, ast.Assign) and norm(x.targets[0]) == "this_chunk"][0]
    draws = [c for c in ast.walk(loop) if isinstance(c, ast.Call) and isinstance(c.func, ast.Attribute) and c.func.attr == "rvs"]
    ok_draw = bool(draws) and any(k.arg == "size" and norm(k.value) == "this_chunk" for k in draws[0].keywords)
    rep.decide(ok_draw, rule, f, draws[0] if draws else loop, text=f"{f.name}: each iteration draws this_chunk samples", what="the number of samples drawn per iteration is the chunk size computed for it",
               reason="samples are not drawn with size=this_chunk")
    ivar = norm(loop.target)
    bad = []
    c = 4
    for shots in range(1, 3 * c + 2):
        fo = Folder(env={shots_expr: shots, "chunk_size": c, "math": None})
        fo.env.pop("math")
        try:
            fo.env["n_chunks"] = fo.expr(asg["n_chunks"].value)
            rng = fo.expr(loop.iter)
            total = 0
            for i in rng:
                fo.env[ivar] = i
                total += fo.expr(tc.value)
        except (Undecidable, Raised) as e:
            raise AnalysisError(f"{f.ref}: chunk arithmetic not foldable: {e}")
        if total != shots:
            bad.append((shots, total))
    rep.decide(not bad, rule, f, tc, text=f"{f.name}: chunk sizes add up to the number of shots (chunk size 4, shots 1..{3 * c + 1})",
               what="whatever the number of shots, the chunks drawn add up to exactly that number (exact multiples of the chunk size included)",
               reason=f"with chunk size {c}: " + ", ".join(f"{s} shots -> {t} samples" for s, t in bad[:4]))
