"""K8 helpers: call-site argument agreement and def-use reduction of an argument to its source."""
from __future__ import annotations

import ast
from typing import Dict, List, Optional, Tuple

from ..index import FunctionInfo, norm, own_nodes


def calls_to(func: FunctionInfo, callee_names) -> List[ast.Call]:
    if isinstance(callee_names, str):
        callee_names = {callee_names}
    out = []
    for n in own_nodes(func.node):
        if isinstance(n, ast.Call):
            f = n.func
            nm = f.id if isinstance(f, ast.Name) else (f.attr if isinstance(f, ast.Attribute) else None)
            if nm in callee_names:
                out.append(n)
    out.sort(key=lambda c: (c.lineno, c.col_offset))
    return out


def bound_args(call: ast.Call, positional: List[str]) -> Dict[str, ast.AST]:
    """map a call's arguments onto the callee's parameter names"""
    out: Dict[str, ast.AST] = {}
    for i, a in enumerate(call.args):
        if isinstance(a, ast.Starred):
            continue
        if i < len(positional):
            out[positional[i]] = a
    for k in call.keywords:
        if k.arg is not None:
            out[k.arg] = k.value
    return out


def source_of(func: FunctionInfo, expr: ast.AST, depth: int = 0) -> str:
    """reduce an argument expression to its source: a local name with exactly one plain definition is replaced by it;
    a parameter with a default defined from `self.x` keeps the parameter name (callers decide)."""
    if depth > 4:
        return norm(expr)
    if isinstance(expr, ast.Name) and expr.id not in func.params:
        defs = [n.value for n in own_nodes(func.node) if isinstance(n, ast.Assign) and len(n.targets) == 1 and
                isinstance(n.targets[0], ast.Name) and n.targets[0].id == expr.id]
        if len(defs) == 1:
            return source_of(func, defs[0], depth + 1)
    return norm(expr)
