"""Exact integer matrices of fermionic ladder-operator term lists on a small Fock space (checker-side algebra, used on term
lists *folded* from the source).  Mode j: a_j = Z^{(0..j-1)} (x) sigma^- (x) I ; all entries are integers, coefficients are
scaled by a common denominator so that everything stays in exact integer arithmetic."""
from __future__ import annotations

from fractions import Fraction
from functools import lru_cache
from typing import List, Sequence, Tuple

import numpy as np

I2 = np.array([[1, 0], [0, 1]], dtype=object)
Z2 = np.array([[1, 0], [0, -1]], dtype=object)
LOWER = np.array([[0, 1], [0, 0]], dtype=object)     # |0><1| : annihilates an occupied mode (|1> = occupied)
RAISE = np.array([[0, 0], [1, 0]], dtype=object)


def _kron(mats):
    out = np.array([[1]], dtype=object)
    for m in mats:
        out = np.kron(out, m)
    return out


@lru_cache(maxsize=None)
def ladder(j: int, dagger: int, n: int):
    return _kron([Z2] * j + [RAISE if dagger else LOWER] + [I2] * (n - j - 1))


def term_matrix(ops: Sequence[Tuple[int, int]], n: int):
    m = np.eye(2 ** n, dtype=object)
    for (j, d) in ops:
        if j >= n or j < 0:
            raise ValueError(f"mode {j} outside register of {n}")
        m = m.dot(ladder(int(j), int(d), n))
    return m


def operator_matrix(terms: List[Tuple[Sequence[Tuple[int, int]], object]], n: int, scale: int = 4):
    """sum_k coef_k * prod ops_k, multiplied by `scale` (coefficients must be multiples of 1/scale)"""
    tot = np.zeros((2 ** n, 2 ** n), dtype=object)
    for ops, coef in terms:
        c = Fraction(coef).limit_denominator(10 ** 6) * scale
        if c.denominator != 1:
            raise ValueError(f"coefficient {coef} is not a multiple of 1/{scale}")
        tot = tot + int(c) * term_matrix(ops, n)
    return tot


def number_ops(n: int):
    return [term_matrix(((j, 1), (j, 0)), n) for j in range(n)]
