"""K2: who may write a protected field set; local-owner escape analysis for writers outside the owners."""
from __future__ import annotations

import ast
from dataclasses import dataclass
from typing import Dict, Iterable, List, Optional, Set, Tuple

from ..index import FunctionInfo, Index, norm, own_nodes

MUTATING = {"append", "extend", "insert", "pop", "remove", "clear", "update", "add", "discard", "sort", "reverse",
            "setdefault", "popitem"}


@dataclass
class StoreSite:
    func: FunctionInfo
    node: ast.AST          # the Attribute / Subscript / Call node
    stmt: ast.AST
    attr: str              # protected attribute written
    recv: ast.AST          # receiver expression (object whose attribute is written)
    kind: str              # assign | aug | del | subscript | method | setattr

    @property
    def recv_text(self) -> str:
        return norm(self.recv)


def _parent_map(func_node) -> Dict[int, ast.AST]:
    pm = {}
    for n in ast.walk(func_node):
        for c in ast.iter_child_nodes(n):
            pm[id(c)] = n
    return pm


def enclosing_stmt(pm, node):
    cur = node
    while cur is not None and not isinstance(cur, ast.stmt):
        cur = pm.get(id(cur))
    return cur


def find_stores(idx: Index, attrs: Set[str]) -> List[StoreSite]:
    """every syntactic write to `<recv>.<attr>` for attr in attrs, anywhere in the package:
    assignment / augmented assignment / del of the attribute, subscript store or del below it,
    mutating container method on it, setattr with a literal name."""
    out: List[StoreSite] = []
    for f in idx.all_functions():
        pm = None
        for n in own_nodes(f.node):
            site = None
            if isinstance(n, ast.Attribute) and isinstance(n.ctx, (ast.Store, ast.Del)) and n.attr in attrs:
                site = (n, n.attr, n.value, "del" if isinstance(n.ctx, ast.Del) else "assign")
            elif isinstance(n, ast.Subscript) and isinstance(n.ctx, (ast.Store, ast.Del)):
                b = n.value
                while isinstance(b, ast.Subscript):
                    b = b.value
                if isinstance(b, ast.Attribute) and b.attr in attrs:
                    site = (n, b.attr, b.value, "subscript")
            elif isinstance(n, ast.Call) and isinstance(n.func, ast.Attribute) and n.func.attr in MUTATING:
                b = n.func.value
                while isinstance(b, ast.Subscript):
                    b = b.value
                if isinstance(b, ast.Attribute) and b.attr in attrs:
                    site = (n, b.attr, b.value, "method")
            elif isinstance(n, ast.Call) and isinstance(n.func, ast.Name) and n.func.id in ("setattr", "delattr") \
                    and len(n.args) >= 2 and isinstance(n.args[1], ast.Constant) and n.args[1].value in attrs:
                site = (n, n.args[1].value, n.args[0], "setattr")
            if site is None:
                continue
            if pm is None:
                pm = _parent_map(f.node)
            stmt = enclosing_stmt(pm, site[0])
            kind = site[3]
            if isinstance(stmt, ast.AugAssign) and kind == "assign":
                kind = "aug"
            out.append(StoreSite(f, site[0], stmt, site[1], site[2], kind))
    out.sort(key=lambda s: (s.func.module.relpath, s.node.lineno, s.node.col_offset))
    return out


# ---------------------------------------------------------------------------
# local-owner escape analysis
# ---------------------------------------------------------------------------

def _base_name(e: ast.AST) -> Optional[ast.AST]:
    """strip attribute / subscript / element-preserving calls: returns the Name (or other expr) at the root"""
    cur = e
    while True:
        if isinstance(cur, (ast.Attribute, ast.Subscript)):
            cur = cur.value
        elif isinstance(cur, ast.Starred):
            cur = cur.value
        elif isinstance(cur, ast.Call) and isinstance(cur.func, ast.Name) and cur.func.id in \
                ("reversed", "enumerate", "list", "iter", "sorted", "tuple") and cur.args:
            cur = cur.args[0]
        else:
            return cur


@dataclass
class Roots:
    params: Set[str]
    locals_from_alloc: Dict[str, List[ast.AST]]     # local variable -> allocating expressions
    unknown: List[str]


def roots_of(func: FunctionInfo, recv: ast.AST) -> Roots:
    """def-use walk from a receiver expression back to the variables that own the written object"""
    assigns: Dict[str, List[ast.AST]] = {}
    loop_iters: Dict[str, List[ast.AST]] = {}
    for n in own_nodes(func.node):
        if isinstance(n, ast.Assign):
            for t in n.targets:
                if isinstance(t, ast.Name):
                    assigns.setdefault(t.id, []).append(n.value)
                elif isinstance(t, (ast.Tuple, ast.List)):
                    for el in t.elts:
                        if isinstance(el, ast.Name):
                            assigns.setdefault(el.id, []).append(n.value)
        elif isinstance(n, ast.AnnAssign) and isinstance(n.target, ast.Name) and n.value is not None:
            assigns.setdefault(n.target.id, []).append(n.value)
        elif isinstance(n, ast.AugAssign) and isinstance(n.target, ast.Name):
            assigns.setdefault(n.target.id, []).append(n.value)
        elif isinstance(n, (ast.For, ast.comprehension)):
            tg = n.target
            names = [x.id for x in ast.walk(tg) if isinstance(x, ast.Name)]
            for nm in names:
                loop_iters.setdefault(nm, []).append(n.iter)
        elif isinstance(n, ast.With):
            for it in n.items:
                if isinstance(it.optional_vars, ast.Name):
                    assigns.setdefault(it.optional_vars.id, []).append(it.context_expr)
    params = set(func.params)
    res = Roots(set(), {}, [])
    seen: Set[str] = set()
    work = [recv]
    while work:
        e = work.pop()
        b = _base_name(e)
        if isinstance(b, ast.Name):
            v = b.id
            if v in seen:
                continue
            seen.add(v)
            srcs = loop_iters.get(v, []) + assigns.get(v, [])
            if v in params and not srcs:
                res.params.add(v)
                continue
            if v in params:
                res.params.add(v)
            if not srcs:
                res.unknown.append(v)
                continue
            for s in srcs:
                sb = _base_name(s)
                if isinstance(sb, ast.Name):
                    work.append(s)
                elif isinstance(sb, (ast.Call, ast.List, ast.ListComp, ast.Dict, ast.Tuple, ast.BinOp)):
                    res.locals_from_alloc.setdefault(v, []).append(sb)
                    # containers filled later by append(x): follow what is appended
                else:
                    res.unknown.append(norm(s))
            # values appended to a local container variable
            for n in own_nodes(func.node):
                if isinstance(n, ast.Call) and isinstance(n.func, ast.Attribute) and n.func.attr in ("append", "extend", "insert") \
                        and isinstance(n.func.value, ast.Name) and n.func.value.id == v and n.args:
                    a = n.args[-1]
                    ab = _base_name(a)
                    if isinstance(ab, ast.Name):
                        work.append(a)
                    elif isinstance(ab, ast.Call):
                        # call result: fresh unless it is a method of self/param returning shared state
                        res.locals_from_alloc.setdefault(v, []).append(ab)
        elif isinstance(b, ast.Call):
            res.locals_from_alloc.setdefault(norm(b)[:40], []).append(b)
        else:
            res.unknown.append(norm(e))
    return res


REBUILDING_CALLS = {"copy", "inverse"}


def escapes_unrebuilt(func: FunctionInfo, var: str) -> List[ast.AST]:
    """statements through which local variable `var` leaves the function as the same object:
    returned bare (or inside a tuple / conditional expression) or stored into an attribute / container
    of self or a parameter.  Operands of + * +=, arguments of calls, `var.copy()` do not count: they either
    rebuild a circuit from the gate list (recomputing every summary) or merely lend it."""
    out = []

    def bare_in(e) -> bool:
        if isinstance(e, ast.Name):
            return e.id == var
        if isinstance(e, (ast.Tuple, ast.List)):
            return any(bare_in(x) for x in e.elts)
        if isinstance(e, ast.IfExp):
            return bare_in(e.body) or bare_in(e.orelse)
        if isinstance(e, ast.Starred):
            return bare_in(e.value)
        return False

    aliases = {var}
    # one level of aliasing: x = var / x = (var, ...) if ... else var
    changed = True
    while changed:
        changed = False
        for n in own_nodes(func.node):
            if isinstance(n, ast.Assign) and len(n.targets) == 1 and isinstance(n.targets[0], ast.Name):
                v = n.value
                names = set()
                for sub in ([v] if not isinstance(v, ast.IfExp) else [v.body, v.orelse]):
                    if isinstance(sub, ast.Name):
                        names.add(sub.id)
                    elif isinstance(sub, (ast.Tuple, ast.List)):
                        names |= {x.id for x in sub.elts if isinstance(x, ast.Name)}
                if names & aliases and n.targets[0].id not in aliases:
                    aliases.add(n.targets[0].id)
                    changed = True
    for n in own_nodes(func.node):
        if isinstance(n, ast.Return) and n.value is not None:
            for a in aliases:
                var_save = var
                if _bare(n.value, a):
                    out.append(n)
                    break
        elif isinstance(n, ast.Assign):
            for t in n.targets:
                if isinstance(t, (ast.Attribute, ast.Subscript)):
                    tb = _base_name(t)
                    if isinstance(tb, ast.Name) and (tb.id == "self" or tb.id in func.params) and any(_bare(n.value, a) for a in aliases):
                        out.append(n)
        elif isinstance(n, ast.Call) and isinstance(n.func, ast.Attribute) and n.func.attr in ("append", "extend", "add", "insert"):
            tb = _base_name(n.func.value)
            if isinstance(tb, ast.Name) and (tb.id == "self" or tb.id in func.params) and any(_bare(a_, a) for a_ in n.args for a in aliases):
                out.append(n)
        elif isinstance(n, (ast.Yield, ast.YieldFrom)) and n.value is not None and any(_bare(n.value, a) for a in aliases):
            out.append(n)
    return out


def _bare(e, var) -> bool:
    if isinstance(e, ast.Name):
        return e.id == var
    if isinstance(e, (ast.Tuple, ast.List)):
        return any(_bare(x, var) for x in e.elts)
    if isinstance(e, ast.IfExp):
        return _bare(e.body, var) or _bare(e.orelse, var)
    if isinstance(e, ast.Starred):
        return _bare(e.value, var)
    return False
