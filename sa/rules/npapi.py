"""K11: every attribute taken from the numpy module alias in the anchor files exists in the *installed* numpy,
resolved statically from numpy's own stub file (numpy/__init__.pyi) - nothing is imported."""
from __future__ import annotations

import ast
from functools import lru_cache
from typing import List, Set

from ..index import AnalysisError, Index, norm, site_packages
from ..report import Report


@lru_cache(maxsize=1)
def numpy_namespace() -> frozenset:
    stub = site_packages() / "numpy" / "__init__.pyi"
    if not stub.is_file():
        raise AnalysisError("numpy stub file not found: cannot resolve the installed numpy namespace")
    tree = ast.parse(stub.read_text())
    names: Set[str] = set()
    for n in tree.body:
        if isinstance(n, (ast.FunctionDef, ast.AsyncFunctionDef, ast.ClassDef)):
            names.add(n.name)
        elif isinstance(n, ast.Assign):
            for t in n.targets:
                if isinstance(t, ast.Name):
                    names.add(t.id)
        elif isinstance(n, ast.AnnAssign) and isinstance(n.target, ast.Name):
            names.add(n.target.id)
        elif isinstance(n, ast.ImportFrom):
            for al in n.names:
                names.add(al.asname or al.name)
        elif isinstance(n, ast.Import):
            for al in n.names:
                names.add((al.asname or al.name).split(".")[0])
        elif isinstance(n, (ast.If, ast.Try)):
            for sub in ast.walk(n):
                if isinstance(sub, ast.ImportFrom):
                    for al in sub.names:
                        names.add(al.asname or al.name)
    # submodules that are packages/modules on disk
    np_dir = site_packages() / "numpy"
    for p in np_dir.iterdir():
        if p.is_dir() and (p / "__init__.py").exists():
            names.add(p.name)
        elif p.suffix in (".py", ".pyi") and not p.name.startswith("_"):
            names.add(p.stem)
    if len(names) < 400 or "prod" not in names or "array" not in names:
        raise AnalysisError("numpy namespace extraction looks wrong")
    return frozenset(names)


def check_numpy_api(idx: Index, rep: Report, relpaths: List[str], rule: str = "K11.numpy-api"):
    ns = numpy_namespace()
    rep.trust(f"numpy/__init__.pyi of the installed numpy ({len(ns)} public names)")
    n = 0
    for rel in relpaths:
        m = idx.module_by_relpath(rel)
        aliases = {k for k, v in m.imports.items() if v == "numpy"}
        direct = {k: v for k, v in m.imports.items() if v.startswith("numpy.") and v.count(".") == 1}
        for local, fq in sorted(direct.items()):
            attr = fq.split(".")[1]
            n += 1
            rep.decide(attr in ns, rule, (rel, "<module>"), None, text=f"from numpy import {attr}",
                       what="imported numpy name exists in the installed numpy", reason=f"numpy.{attr} does not exist in the installed numpy")
        seen = set()
        for f in m.functions.values():
            for node in ast.walk(f.node):
                if isinstance(node, ast.Attribute) and isinstance(node.value, ast.Name) and node.value.id in aliases:
                    key = (f.qualname, node.attr)
                    if key in seen:
                        continue
                    seen.add(key)
                    n += 1
                    ok = node.attr in ns
                    if ok:
                        rep.ok(rule, f, node, text=f"np.{node.attr}", what="numpy attribute exists in the installed numpy", nontrivial=False)
                    else:
                        rep.violation(rule, f, node, text=f"np.{node.attr}", what="numpy attribute exists in the installed numpy",
                                      reason=f"numpy.{node.attr} does not exist in the installed numpy (removed in NumPy 2): "
                                             f"the call raises AttributeError for every input")
    if n == 0:
        raise AnalysisError(f"K11: no numpy attribute uses found in {relpaths}")
