"""Order-aware stand-ins for openfermion's operator classes, for questions about the *order* in which an accumulated operator lists its terms.

openfermion's SymbolicOperator keeps its terms in a dict; `+=` / `-=` add the coefficient of each term of the right-hand side in that
operand's order and *delete* a term whose coefficient becomes smaller than EQ_TOLERANCE (symbolic_operator.py, __iadd__/__isub__), so a term that
is cancelled on the way and contributed to again later moves to the end of the dict.  `*=` builds the product left-major (for left in self.terms:
for right in multiplier.terms).  The Jordan-Wigner transform maps the fermionic terms one after the other (x-part before y-part of each ladder
operator) and accumulates them with `+=` (transforms/opconversions/jordan_wigner.py).  These facts are mirrored here; `source_facts_hold()` re-reads
them from the installed openfermion sources (syntax trees only) so that a different openfermion fails the analysis instead of being mis-modelled.
"""
from __future__ import annotations

import ast
from pathlib import Path
from typing import Dict, List, Optional, Tuple

EQ_TOLERANCE = 1e-8


class OrdFermionOp:
    """FermionOperator stand-in: ordered term dict {((mode, 1|0), ...): coefficient}"""
    _sa_model = True

    def __init__(self, term=None, coefficient=1.):
        self.terms: Dict[tuple, complex] = {}
        if term is not None:
            self.terms[tuple((int(i), int(d)) for i, d in term)] = coefficient

    def _acc(self, o, sign):
        for t, c in o.terms.items():
            self.terms[t] = self.terms.get(t, 0) + sign * c
            if abs(self.terms[t]) < EQ_TOLERANCE:
                del self.terms[t]
        return self

    def copy(self):
        r = OrdFermionOp()
        r.terms = dict(self.terms)
        return r

    def __iadd__(self, o):
        return self._acc(o, 1)

    def __isub__(self, o):
        return self._acc(o, -1)

    def __add__(self, o):
        return self.copy()._acc(o, 1)

    def __sub__(self, o):
        return self.copy()._acc(o, -1)

    def __imul__(self, o):
        """openfermion's in-place product: left-major over the terms, ladder operators concatenated (no re-ordering), equal products added up"""
        if isinstance(o, (int, float, complex)):
            for t in self.terms:
                self.terms[t] *= o
            return self
        if not isinstance(o, OrdFermionOp):
            return NotImplemented
        out: Dict[tuple, complex] = {}
        for ta, ca in list(self.terms.items()):
            for tb, cb in list(o.terms.items()):
                out[ta + tb] = out.get(ta + tb, 0) + ca * cb
        self.terms = out
        return self

    def __mul__(self, o):
        r = self.copy()
        r *= o
        return r

    def __rmul__(self, o):
        if isinstance(o, (int, float, complex)):
            return self.__mul__(o)
        return NotImplemented

    def __neg__(self):
        return self.__mul__(-1)


def hermitian_conjugated(op: OrdFermionOp) -> OrdFermionOp:
    r = OrdFermionOp()
    for t, c in op.terms.items():
        r.terms[tuple((i, 1 - d) for i, d in reversed(t))] = complex(c).conjugate()
    return r


_MUL = {("X", "Y"): ("Z", 1j), ("Y", "X"): ("Z", -1j), ("Y", "Z"): ("X", 1j), ("Z", "Y"): ("X", -1j), ("Z", "X"): ("Y", 1j), ("X", "Z"): ("Y", -1j)}


def _simplify(word: tuple) -> Tuple[complex, tuple]:
    """product of single-qubit Paulis given in multiplication order -> (phase, word sorted by qubit)"""
    acc: Dict[int, str] = {}
    ph = 1
    for q, p in word:
        if q not in acc:
            acc[q] = p
        elif acc[q] == p:
            del acc[q]
        else:
            acc[q], f = _MUL[(acc[q], p)]
            ph *= f
    return ph, tuple(sorted(acc.items()))


class OrdQubitOp:
    _sa_model = True

    def __init__(self, term=None, coefficient=1.):
        self.terms: Dict[tuple, complex] = {}
        if term is not None:
            self.terms[tuple(term)] = coefficient

    def __iadd__(self, o):
        for t, c in o.terms.items():
            self.terms[t] = self.terms.get(t, 0) + c
            if abs(self.terms[t]) < EQ_TOLERANCE:
                del self.terms[t]
        return self

    def __add__(self, o):
        r = OrdQubitOp()
        r.terms = dict(self.terms)
        r += o
        return r

    def __imul__(self, m):
        out: Dict[tuple, complex] = {}
        for lt, lc in self.terms.items():
            for rt, rc in m.terms.items():
                ph, w = _simplify(lt + rt)
                out[w] = out.get(w, 0) + lc * rc * ph
        self.terms = out
        return self

    def compress(self, abs_tol=EQ_TOLERANCE):
        new = {}
        for t, c in self.terms.items():
            c = complex(c)
            if abs(c.imag) <= abs_tol:
                c = c.real
            if abs(c.real if isinstance(c, complex) else c) <= abs_tol and isinstance(c, complex):
                c = 1j * c.imag
            if abs(c) > abs_tol:
                new[t] = c
        self.terms = new


def jordan_wigner(op: OrdFermionOp) -> OrdQubitOp:
    out = OrdQubitOp()
    ladder: Dict[tuple, OrdQubitOp] = {}
    for term, coef in op.terms.items():
        tt = OrdQubitOp((), coef)
        for lad in term:
            if lad not in ladder:
                z = tuple((i, "Z") for i in range(lad[0]))
                ladder[lad] = OrdQubitOp(z + ((lad[0], "X"),), 0.5) + OrdQubitOp(z + ((lad[0], "Y"),), -0.5j if lad[1] else 0.5j)
            tt *= ladder[lad]
        out += tt
    return out


def source_facts_hold() -> Optional[str]:
    """re-read, from the installed openfermion sources, the three facts the stand-ins mirror; returns a description of the first one that fails"""
    import importlib.util
    spec = importlib.util.find_spec("openfermion")
    if spec is None or not spec.submodule_search_locations:
        return "openfermion sources not found"
    root = Path(list(spec.submodule_search_locations)[0])
    so = root / "ops" / "operators" / "symbolic_operator.py"
    jw = root / "transforms" / "opconversions" / "jordan_wigner.py"
    if not so.exists() or not jw.exists():
        return "symbolic_operator.py / jordan_wigner.py not found"
    t = ast.parse(so.read_text())
    fns = {n.name: n for c in ast.walk(t) if isinstance(c, ast.ClassDef) and c.name == "SymbolicOperator" for n in c.body if isinstance(n, ast.FunctionDef)}
    for name in ("__iadd__", "__isub__"):
        f = fns.get(name)
        if f is None or not any(isinstance(n, ast.Delete) and "self.terms[term]" in ast.unparse(n) for n in ast.walk(f)) or \
                not any(isinstance(n, ast.For) and ast.unparse(n.iter).endswith(".terms") for n in ast.walk(f)):
            return f"SymbolicOperator.{name} no longer iterates the right-hand terms and deletes cancelled ones"
    f = fns.get("__imul__")
    loops = [n for n in ast.walk(f) if isinstance(n, ast.For)] if f else []
    if not any(ast.unparse(n.iter) == "self.terms" and any(isinstance(m, ast.For) and ast.unparse(m.iter) == "multiplier.terms" for m in n.body) for n in loops):
        return "SymbolicOperator.__imul__ is no longer a left-major double loop"
    t = ast.parse(jw.read_text())
    f = next((n for n in ast.walk(t) if isinstance(n, ast.FunctionDef) and n.name == "_jordan_wigner_fermion_operator"), None)
    if f is None or not any(isinstance(n, ast.For) and ast.unparse(n.iter) == "operator.terms" and
                            any(isinstance(m, ast.AugAssign) and isinstance(m.op, ast.Add) and ast.unparse(m.target) == "transformed_operator" for m in n.body) for n in ast.walk(f)):
        return "_jordan_wigner_fermion_operator no longer accumulates the transformed terms one by one"
    return None


# ---------------------------------------------------------------------------------------------------
# normal ordering (openfermion convention: creation operators first, then, within each kind, decreasing mode index)
def _normal_order_term(term: tuple, coef) -> Dict[tuple, complex]:
    out: Dict[tuple, complex] = {}
    stack = [(list(term), coef)]
    while stack:
        ops, c = stack.pop()
        done = True
        for i in range(len(ops) - 1):
            (p, dp), (q, dq) = ops[i], ops[i + 1]
            if dp == 0 and dq == 1:                      # a_p a+_q = delta_pq - a+_q a_p
                swapped = ops[:i] + [ops[i + 1], ops[i]] + ops[i + 2:]
                stack.append((swapped, -c))
                if p == q:
                    stack.append((ops[:i] + ops[i + 2:], c))
                done = False
                break
            if dp == dq:
                if p == q:
                    done = False                      # a+_p a+_p = 0 = a_p a_p
                    break
                if p < q:
                    swapped = ops[:i] + [ops[i + 1], ops[i]] + ops[i + 2:]
                    stack.append((swapped, -c))
                    done = False
                    break
        if done:
            k = tuple(ops)
            out[k] = out.get(k, 0) + c
    return out


def normal_ordered(op: OrdFermionOp) -> OrdFermionOp:
    r = type(op)() if type(op) is not OrdFermionOp else OrdFermionOp()
    for term, coef in op.terms.items():
        for k, c in _normal_order_term(term, coef).items():
            r.terms[k] = r.terms.get(k, 0) + c
            if abs(r.terms[k]) < EQ_TOLERANCE:
                del r.terms[k]
    return r
