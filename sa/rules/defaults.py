"""K7.explicit-argument: an argument with an instance default is the value used.

The repository's idiom for "use the stored value unless the caller supplies one" is

    if mo_coeff is None:
        mo_coeff = self.mo_coeff

After that statement the local name stands for the value to use.  A later read of the default's source (`self.mo_coeff`) in the same function
bypasses the caller's argument at that site - a call with an explicit argument then mixes the two values.  18 instances of the idiom were read
(integral solvers, VQESolver, ansatz set_var_params, classical shadows); one of them legitimately reads the source again (as an upper bound:
`min(end, self.size)`) and is listed below with its reason.  A built-in example is evaluated on every run."""
from __future__ import annotations

import ast
from typing import Iterable, List, Tuple

from ..index import AnalysisError, Index

# (file, function, parameter): the default's source is read again on purpose
EXCEPTIONS = {
    ("tangelo/toolboxes/measurements/classical_shadows/randomized.py", "estimate_state", "end"): "the stored size is also the upper bound of the requested range: min(end, self.size)",
}

_EXAMPLE = '''
class S:
    def good(self, sqmol, mo_coeff=None):
        if mo_coeff is None:
            mo_coeff = self.mo_coeff
        return mo_coeff.T @ sqmol.h @ mo_coeff
    def bad(self, sqmol, mo_coeff=None):
        if mo_coeff is None:
            mo_coeff = self.mo_coeff
        h = self.mo_coeff.T @ sqmol.h @ self.mo_coeff
        return h, transform(sqmol.eri, mo_coeff)
'''


def default_shadow_findings(tree: ast.AST) -> List[Tuple[ast.AST, str, str, str, List[int], int]]:
    """(function node, qualname, parameter, default source, lines of later reads of the source, instances seen)"""
    out = []

    def visit(body, prefix):
        for fn in body:
            if isinstance(fn, ast.ClassDef):
                visit(fn.body, prefix + fn.name + ".")
                continue
            if not isinstance(fn, (ast.FunctionDef, ast.AsyncFunctionDef)):
                continue
            params = {a.arg for a in fn.args.posonlyargs + fn.args.args + fn.args.kwonlyargs} - {"self", "cls"}
            for n in ast.walk(fn):
                if isinstance(n, ast.If) and isinstance(n.test, ast.Compare) and len(n.test.ops) == 1 and isinstance(n.test.ops[0], ast.Is) and \
                        isinstance(n.test.left, ast.Name) and n.test.left.id in params and isinstance(n.test.comparators[0], ast.Constant) and n.test.comparators[0].value is None:
                    p = n.test.left.id
                    for st in n.body:
                        if isinstance(st, ast.Assign) and len(st.targets) == 1 and isinstance(st.targets[0], ast.Name) and st.targets[0].id == p and \
                                isinstance(st.value, ast.Attribute) and ast.unparse(st.value).startswith("self."):
                            src = ast.unparse(st.value)
                            later = [x.lineno for x in ast.walk(fn) if isinstance(x, ast.Attribute) and isinstance(x.ctx, ast.Load) and ast.unparse(x) == src and x.lineno > st.lineno]
                            # a store into the source in between (self.x = p) re-synchronises the two: reads after it are the argument again
                            resync = [x.lineno for x in ast.walk(fn) if isinstance(x, ast.Assign) and any(ast.unparse(t) == src for t in x.targets) and
                                      isinstance(x.value, ast.Name) and x.value.id == p and x.lineno > st.lineno]
                            if resync:
                                later = [ln for ln in later if ln < min(resync)]
                            out.append((fn, prefix + fn.name, p, src, later))
            visit(fn.body, prefix + fn.name + ".")
    visit(tree.body, "")
    return out


def check_explicit_arguments(idx: Index, rep, relpaths: Iterable[str], rule: str = "K7.explicit-argument") -> int:
    ex = default_shadow_findings(ast.parse(_EXAMPLE))
    if [(q, bool(l)) for _, q, _, _, l in ex] != [("S.good", False), ("S.bad", True)]:
        raise AnalysisError(f"explicit-argument rule self-check failed: built-in example gives {[(q, l) for _, q, _, _, l in ex]}")
    n = 0
    for rel in relpaths:
        try:
            m = idx.module_by_relpath(rel)
        except Exception:
            continue
        for node, qual, p, src, later in default_shadow_findings(m.tree):
            n += 1
            why = EXCEPTIONS.get((m.relpath, qual.split(".")[-1], p))
            if later and why is None:
                rep.violation(rule, (m.relpath, qual), node, text=f"{qual}: `{p}` defaults to {src}; the argument is what the function uses",
                              what="once an optional argument has been resolved against its stored default, the function works with the resolved value only",
                              reason=f"{src} is read again at line(s) {later} after `if {p} is None: {p} = {src}`: a caller's explicit {p} is ignored there and mixed with the stored one")
            else:
                rep.ok(rule, (m.relpath, qual), node, text=f"{qual}: `{p}` defaults to {src}" + (f" (listed exception: {why})" if later else ""),
                       what="once an optional argument has been resolved against its stored default, the function works with the resolved value only")
    return n
