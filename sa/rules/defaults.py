"""K7.explicit-argument: an argument with an instance default is the value used.

The repository's idiom for "use the stored value unless the caller supplies one" is

    if mo_coeff is None:
        mo_coeff = self.mo_coeff

After that statement the local name stands for the value to use.  A later read of the default's source (`self.mo_coeff`) in the same function
bypasses the caller's argument at that site - a call with an explicit argument then mixes the two values.  18 instances of the idiom were read
(integral solvers, VQESolver, ansatz set_var_params, classical shadows); one of them legitimately reads the source again (as an upper bound:
`min(end, self.size)`) and is listed below with its reason.  A built-in example is evaluated on every run."""
from __future__ import annotations

import ast
from typing import Iterable, List, Tuple

from ..index import AnalysisError, Index

# (file, function, parameter): the default's source is read again on purpose
EXCEPTIONS = {
    ("tangelo/toolboxes/measurements/classical_shadows/randomized.py", "estimate_state", "end"): "the stored size is also the upper bound of the requested range: min(end, self.size)",
}

_EXAMPLE = '''
class S:
    def good(self, sqmol, mo_coeff=None):
        if mo_coeff is None:
            mo_coeff = self.mo_coeff
        return mo_coeff.T @ sqmol.h @ mo_coeff
    def bad(self, sqmol, mo_coeff=None):
        if mo_coeff is None:
            mo_coeff = self.mo_coeff
        h = self.mo_coeff.T @ sqmol.h @ self.mo_coeff
        return h, transform(sqmol.eri, mo_coeff)
'''


def default_shadow_findings(tree: ast.AST) -> List[Tuple[ast.AST, str, str, str, List[int], int]]:
    """(function node, qualname, parameter, default source, lines of later reads of the source, instances seen)"""
    out = []

    def visit(body, prefix):
        for fn in body:
            if isinstance(fn, ast.ClassDef):
                visit(fn.body, prefix + fn.name + ".")
                continue
            if not isinstance(fn, (ast.FunctionDef, ast.AsyncFunctionDef)):
                continue
            params = {a.arg for a in fn.args.posonlyargs + fn.args.args + fn.args.kwonlyargs} - {"self", "cls"}
            for n in ast.walk(fn):
                if isinstance(n, ast.If) and isinstance(n.test, ast.Compare) and len(n.test.ops) == 1 and isinstance(n.test.ops[0], ast.Is) and \
                        isinstance(n.test.left, ast.Name) and n.test.left.id in params and isinstance(n.test.comparators[0], ast.Constant) and n.test.comparators[0].value is None:
                    p = n.test.left.id
                    for st in n.body:
                        if isinstance(st, ast.Assign) and len(st.targets) == 1 and isinstance(st.targets[0], ast.Name) and st.targets[0].id == p and \
                                isinstance(st.value, ast.Attribute) and ast.unparse(st.value).startswith("self."):
                            src = ast.unparse(st.value)
                            later = [x.lineno for x in ast.walk(fn) if isinstance(x, ast.Attribute) and isinstance(x.ctx, ast.Load) and ast.unparse(x) == src and x.lineno > st.lineno]
                            # a store into the source in between (self.x = p) re-synchronises the two: reads after it are the argument again
                            resync = [x.lineno for x in ast.walk(fn) if isinstance(x, ast.Assign) and any(ast.unparse(t) == src for t in x.targets) and
                                      isinstance(x.value, ast.Name) and x.value.id == p and x.lineno > st.lineno]
                            if resync:
                                later = [ln for ln in later if ln < min(resync)]
                            out.append((fn, prefix + fn.name, p, src, later))
            visit(fn.body, prefix + fn.name + ".")
    visit(tree.body, "")
    return out


def check_explicit_arguments(idx: Index, rep, relpaths: Iterable[str], rule: str = "K7.explicit-argument") -> int:
    ex = default_shadow_findings(ast.parse(_EXAMPLE))
    if [(q, bool(l)) for _, q, _, _, l in ex] != [("S.good", False), ("S.bad", True)]:
        raise AnalysisError(f"explicit-argument rule self-check failed: built-in example gives {[(q, l) for _, q, _, _, l in ex]}")
    n = 0
    for rel in relpaths:
        try:
            m = idx.module_by_relpath(rel)
        except Exception:
            continue
        for node, qual, p, src, later in default_shadow_findings(m.tree):
            n += 1
            why = EXCEPTIONS.get((m.relpath, qual.split(".")[-1], p))
            if later and why is None:
                rep.violation(rule, (m.relpath, qual), node, text=f"{qual}: `{p}` defaults to {src}; the argument is what the function uses",
                              what="once an optional argument has been resolved against its stored default, the function works with the resolved value only",
                              reason=f"{src} is read again at line(s) {later} after `if {p} is None: {p} = {src}`: a caller's explicit {p} is ignored there and mixed with the stored one")
            else:
                rep.ok(rule, (m.relpath, qual), node, text=f"{qual}: `{p}` defaults to {src}" + (f" (listed exception: {why})" if later else ""),
                       what="once an optional argument has been resolved against its stored default, the function works with the resolved value only")
    return n


# ---------------------------------------------------------------------------------------------------
# K7.falsy-default: `value = param or fallback` replaces an explicit 0 / 0.0 / False by the fallback
_FALSY_EXAMPLE = '''
class A:
    """Args:
        molecule (Mol): the molecule
        spin (int): 2*S, defaults to the molecule's
        name (str): label
    """
    def __init__(self, molecule, spin=None, name=None, shots: int = None):
        if spin:
            self.flag = True
        self.spin = spin or molecule.active_spin
        self.name = name or "no_name"
        self.shots = shots if shots else 100
        self.ok = molecule.spin if spin is None else spin
'''

_NUMERIC_WORDS = ("int", "float", "number", "bool", "complex", "double", "real")


def _doc_types(doc: str):
    """{parameter: type text} from a Google-style `name (type): description` docstring"""
    import re
    out = {}
    for m in re.finditer(r"^\s*(\w+)\s*\(([^)]*)\)\s*:", doc or "", re.M):
        out[m.group(1)] = m.group(2).lower()
    return out


def falsy_default_findings(tree: ast.AST):
    out = []

    def used_as_number(scope: ast.AST, texts) -> bool:
        """is one of the expressions (by source text) compared with a numeric literal or used in arithmetic somewhere in `scope`?"""
        for n in ast.walk(scope):
            if isinstance(n, ast.Compare) and len(n.ops) == 1 and not isinstance(n.ops[0], (ast.Is, ast.IsNot, ast.In, ast.NotIn)):
                sides = [n.left, n.comparators[0]]
                if any(ast.unparse(x) in texts for x in sides) and any(isinstance(x, ast.Constant) and isinstance(x.value, (int, float)) and not isinstance(x.value, bool) for x in sides):
                    return True
            if isinstance(n, ast.BinOp) and isinstance(n.op, (ast.FloorDiv, ast.Mult, ast.Add, ast.Sub, ast.Div, ast.Mod, ast.Pow)) and \
                    any(ast.unparse(x) in texts for x in (n.left, n.right)) and not any(isinstance(x, ast.Constant) and isinstance(x.value, str) for x in (n.left, n.right)):
                return True
        return False

    def visit(body, prefix, cls_doc, scope=None):
        for fn in body:
            if isinstance(fn, ast.ClassDef):
                visit(fn.body, prefix + fn.name + ".", ast.get_docstring(fn) or "", fn)
                continue
            if not isinstance(fn, (ast.FunctionDef, ast.AsyncFunctionDef)):
                continue
            types = dict(_doc_types(cls_doc))
            types.update(_doc_types(ast.get_docstring(fn) or ""))
            args = fn.args.posonlyargs + fn.args.args + fn.args.kwonlyargs
            for a in args:
                if a.annotation is not None:
                    types[a.arg] = ast.unparse(a.annotation).lower()
            numeric = {a.arg for a in args if any(w in types.get(a.arg, "") for w in _NUMERIC_WORDS)}
            for st in ast.walk(fn):
                if not isinstance(st, (ast.Assign, ast.AnnAssign, ast.Return)) or getattr(st, "value", None) is None:
                    continue
                v = st.value
                hit = None
                if isinstance(v, ast.BoolOp) and isinstance(v.op, ast.Or) and isinstance(v.values[0], ast.Name) and v.values[0].id in numeric:
                    hit = v.values[0].id
                if isinstance(v, ast.IfExp) and isinstance(v.test, ast.Name) and v.test.id in numeric and isinstance(v.body, ast.Name) and v.body.id == v.test.id:
                    hit = v.test.id
                if isinstance(v, ast.IfExp) and isinstance(v.test, ast.UnaryOp) and isinstance(v.test.op, ast.Not) and isinstance(v.test.operand, ast.Name) and \
                        v.test.operand.id in numeric and isinstance(v.orelse, ast.Name) and v.orelse.id == v.test.operand.id:
                    hit = v.test.operand.id
                if hit:
                    out.append((fn, prefix + fn.name, hit, ast.unparse(v), types.get(hit, "")))
                    continue
                # not documented as a number, but used as one: the value (or the attribute it is stored in) is compared with a number / enters arithmetic
                cand = None
                if isinstance(v, ast.BoolOp) and isinstance(v.op, ast.Or) and isinstance(v.values[0], ast.Name) and v.values[0].id in {a.arg for a in args}:
                    cand = v.values[0].id
                if cand and not isinstance(st, ast.Return):
                    tg = st.targets[0] if isinstance(st, ast.Assign) else st.target
                    texts = {cand, ast.unparse(tg)}
                    if used_as_number(scope if scope is not None else fn, texts):
                        out.append((fn, prefix + fn.name, cand, ast.unparse(v), "used in arithmetic / compared with a number"))
            # `if p:` / `if not p:` on a parameter documented as a number whose default is None: zero is treated as "not given"
            dflts = dict(zip([a.arg for a in fn.args.args][-len(fn.args.defaults):] if fn.args.defaults else [], fn.args.defaults))
            dflts.update({a.arg: d for a, d in zip(fn.args.kwonlyargs, fn.args.kw_defaults) if d is not None})
            opt_numeric = {p for p in numeric if isinstance(dflts.get(p), ast.Constant) and dflts[p].value is None}
            for n in ast.walk(fn):
                if isinstance(n, ast.If):
                    t = n.test.operand if isinstance(n.test, ast.UnaryOp) and isinstance(n.test.op, ast.Not) else n.test
                    if isinstance(t, ast.Name) and t.id in opt_numeric:
                        out.append((fn, prefix + fn.name, t.id, "if " + ast.unparse(n.test) + ":", types.get(t.id, "") + ", default None"))
            visit(fn.body, prefix + fn.name + ".", cls_doc, scope)
    visit(tree.body, "", "")
    return out


# truthiness tests of optional numeric parameters that were read and found intended: (file, function, parameter) -> reason
IF_EXCEPTIONS = {
    ("tangelo/problem_decomposition/dmet/dmet_problem_decomposition.py", "_oneshot_loop", "n_shots"): "zero shots and no shot number both mean exact evaluation",
    ("tangelo/toolboxes/qubit_mappings/statevector_mapping.py", "get_vector", "spin"): "spin 0 and no spin both fill the lowest spin-orbitals in interleaved order (alpha first)",
    ("tangelo/toolboxes/ansatz_generator/hea.py", "__init__", "n_qubits"): "a register of zero qubits is not a register: the number is then derived from the molecule",
}


def check_falsy_defaults(idx: Index, rep, relpaths: Iterable[str], rule: str = "K7.falsy-default") -> int:
    ex = falsy_default_findings(ast.parse(_FALSY_EXAMPLE))
    if sorted(h for _, _, h, _, _ in ex) != ["shots", "spin", "spin"]:
        raise AnalysisError(f"falsy-default rule self-check failed: built-in example gives {[(q, h) for _, q, h, _, _ in ex]}")
    n = 0
    for rel in relpaths:
        try:
            m = idx.module_by_relpath(rel)
        except Exception:
            continue
        for node, qual, p, expr, ty in falsy_default_findings(m.tree):
            n += 1
            why = IF_EXCEPTIONS.get((m.relpath, qual.split(".")[-1], p)) if expr.startswith("if ") else None
            if why:
                rep.ok(rule, (m.relpath, qual), node, text=f"{qual}: `{expr[:70]}` (listed: {why})", what="an argument documented as a number is used as given, zero included")
                continue
            rep.violation(rule, (m.relpath, qual), node, text=f"{qual}: `{expr[:70]}`", what="an argument documented as a number is used as given, zero included",
                          reason=f"`{p}` ({ty}) is defaulted by truthiness: an explicit {p}=0 is replaced by the fallback")
        rep.ok(rule, (m.relpath, "<module>"), None, text=f"{rel}: numeric arguments are not defaulted by truthiness", what="an argument documented as a number is used as given, zero included",
               nontrivial=False)
    return n
