"""Numeric (numpy, complex128) unitary of a list of folded Gate records: the same reference semantics as circuitsem (each one-qubit
matrix is taken from symx.gate_matrix and evaluated), for comparisons where angles are concrete numbers (threshold / period rules).
Qubit 0 is the most significant Kronecker factor."""
from __future__ import annotations

from functools import lru_cache
from typing import List

import numpy as np
import sympy as sp

from ..consteval import Rec
from ..index import AnalysisError
from .. import symx

_P1 = np.array([[0, 0], [0, 1]], dtype=complex)
_I2 = np.eye(2, dtype=complex)


@lru_cache(maxsize=None)
def _one(name: str, par) -> np.ndarray:
    m = symx.gate_matrix(name, sp.Float(par, 30) if par is not None else None)
    return np.array(m.evalf(30).tolist(), dtype=complex)


def _embed(u: np.ndarray, q: int, n: int) -> np.ndarray:
    out = np.array([[1]], dtype=complex)
    for i in range(n):
        out = np.kron(out, u if i == q else _I2)
    return out


def _pauli(word, n):
    out = np.array([[1]], dtype=complex)
    for i in range(n):
        out = np.kron(out, _one(word.get(i, "I"), None) if word.get(i) else _I2)
    return out


def gate_unitary(g: Rec, n: int) -> np.ndarray:
    name, tgt, ctl, par = g.fields["name"], g.fields["target"], g.fields["control"], g.fields["parameter"]
    tgt = list(tgt) if isinstance(tgt, (list, tuple)) else [tgt]
    ctl = (list(ctl) if isinstance(ctl, (list, tuple)) else [ctl]) if ctl is not None else []
    try:
        p = None if par == "" or par is None else float(par)
    except TypeError:
        raise AnalysisError(f"gate {name}: parameter {par!r} is not a number")
    base = name
    if ctl:
        base = "X" if name == "CNOT" else (name[1:] if name.startswith("C") else None)
        if base is None:
            raise AnalysisError(f"gate {name} with controls")
    dim = 2 ** n
    if base == "SWAP":
        u = np.eye(dim, dtype=complex)
        for pl in ("X", "Y", "Z"):
            u = u + _pauli({tgt[0]: pl, tgt[1]: pl}, n)
        u = u / 2
    elif base == "XX":
        u = np.cos(p / 2) * np.eye(dim) - 1j * np.sin(p / 2) * _pauli({tgt[0]: "X", tgt[1]: "X"}, n)
    else:
        u = _embed(_one("X" if base == "CNOT" else base, p), tgt[0], n)
    if not ctl:
        return u
    pc = np.eye(dim, dtype=complex)
    for c in ctl:
        pc = pc @ _embed(_P1, c, n)
    return np.eye(dim) + pc @ (u - np.eye(dim))


def circuit_unitary(gates: List[Rec], n: int) -> np.ndarray:
    u = np.eye(2 ** n, dtype=complex)
    for g in gates:
        u = gate_unitary(g, n) @ u
    return u


def distance_up_to_phase(a: np.ndarray, b: np.ndarray) -> float:
    """min over phases of the operator-norm-like distance max|a - e^{i phi} b| (phase fixed from the largest entry of b)"""
    k = np.unravel_index(np.argmax(np.abs(b)), b.shape)
    if abs(a[k]) < 1e-12:
        return float(np.max(np.abs(a - b)))
    ph = (a[k] / b[k]) / abs(a[k] / b[k])
    return float(np.max(np.abs(a - ph * b)))
