"""K2.operator-returns-operand: an out-of-place operator hands back a new object.

`a + b`, `a * n`, `-a`, `a.copy()`, `a.inverse()` promise a result the caller may change without touching an operand.  A method of that kind
that returns `self` (or the other operand) on some path - a shortcut for the neutral element, `n == 1`, an empty right-hand side - makes every later
in-place operation on the result an edit of the operand."""
from __future__ import annotations
import ast
from typing import Iterable
from ..index import AnalysisError, Index, norm, own_nodes

OUT_OF_PLACE = {"__add__", "__radd__", "__sub__", "__rsub__", "__mul__", "__rmul__", "__matmul__", "__rmatmul__", "__truediv__", "__pow__", "__neg__",
                "__pos__", "__invert__", "__and__", "__or__", "__xor__", "copy", "__copy__", "__deepcopy__", "inverse"}


def _operand_returns(fnode: ast.FunctionDef):
    params = [a.arg for a in fnode.args.posonlyargs + fnode.args.args]
    out = []
    for r in ast.walk(fnode):
        if not (isinstance(r, ast.Return) and r.value is not None):
            continue
        cands = [r.value]
        if isinstance(r.value, ast.IfExp):
            cands = [r.value.body, r.value.orelse]
        for c in cands:
            if isinstance(c, ast.Name) and c.id in params:
                # a parameter re-bound to something new before the return is not the operand any more
                rebound = any(isinstance(a, (ast.Assign, ast.AugAssign)) and any(isinstance(t, ast.Name) and t.id == c.id for t in (a.targets if isinstance(a, ast.Assign) else []))
                              for a in ast.walk(fnode))
                if not rebound:
                    out.append((r, c.id))
    return out


def check_operator_results(idx: Index, rep, relpaths: Iterable[str], rule: str = "K2.operator-returns-operand") -> int:
    ex = ast.parse("class C:\n    def __mul__(self, n):\n        return self if n == 1 else C(n)\n    def __add__(self, o):\n        r = C(0)\n        return r\n")
    got = [(m.name, [v for _, v in _operand_returns(m)]) for m in ex.body[0].body]
    if got != [("__mul__", ["self"]), ("__add__", [])]:
        raise AnalysisError(f"operator-result rule self-check failed: {got}")
    n = 0
    for rel in relpaths:
        try:
            m = idx.module_by_relpath(rel)
        except Exception:
            continue
        for f in m.functions.values():
            if f.node.name not in OUT_OF_PLACE or "." not in f.qualname:
                continue
            n += 1
            hits = _operand_returns(f.node)
            rep.decide(not hits, rule, f, hits[0][0] if hits else f.node, text=f"{f.qualname}: the result is a new object on every path",
                       what="an out-of-place operator (+, *, -, copy, inverse) returns an object of its own, never one of its operands",
                       reason=f"`{norm(hits[0][0])[:80]}` hands back the operand `{hits[0][1]}` itself: an in-place operation on the result then changes the operand" if hits else "")
    return n
