"""K7.encoding-forwarding: a class that stores the caller's spin-orbital ordering (`self.up_then_down`) and encoding name (`self.qubit_mapping` /
`self.mapping`) hands both to every encoding routine it calls - the operator encoder (fermion_to_qubit_mapping) and the state encoders
(get_reference_circuit, get_mapped_vector, get_vector).  A call that leaves one out falls back to the callee's default (interleaved order, ...), so the
operator and the state - or two solvers given the same options - silently use different conventions.  All 40 call sites of the repository were read and
forward both; the callee's parameter list is taken from its definition, so positional and keyword spellings are equivalent."""
from __future__ import annotations

import ast
from typing import Dict, Iterable, List

from ..index import AnalysisError, Index, norm, own_nodes
from . import siblings as sib

ENCODERS = {"fermion_to_qubit_mapping": "tangelo/toolboxes/qubit_mappings/mapping_transform.py",
            "get_mapped_vector": "tangelo/toolboxes/qubit_mappings/statevector_mapping.py",
            "get_reference_circuit": "tangelo/toolboxes/qubit_mappings/statevector_mapping.py",
            "get_vector": "tangelo/toolboxes/qubit_mappings/statevector_mapping.py"}


def signatures(idx: Index) -> Dict[str, List[str]]:
    out = {}
    for n, rel in ENCODERS.items():
        f = idx.function(f"{rel}::{n}")
        out[n] = [a.arg for a in f.node.args.posonlyargs + f.node.args.args]
        if "up_then_down" not in out[n] or "mapping" not in out[n]:
            raise AnalysisError(f"{n}: parameters `mapping` / `up_then_down` not found in its signature")
    return out


def check_encoding_forwarding(idx: Index, rep, relpaths: Iterable[str], rule: str = "K7.encoding-forwarding") -> int:
    sigs = signatures(idx)
    n = 0
    for rel in relpaths:
        try:
            m = idx.module_by_relpath(rel)
        except Exception:
            continue
        for c in m.classes.values():
            init = c.methods.get("__init__")
            if init is None:
                continue
            stores = {norm(t) for x in own_nodes(init.node) if isinstance(x, (ast.Assign, ast.AnnAssign)) for t in (x.targets if isinstance(x, ast.Assign) else [x.target])}
            if "self.up_then_down" not in stores:
                continue
            mapattr = next((a for a in ("self.qubit_mapping", "self.mapping") if a in stores), None)
            for mt in c.methods.values():
                for call in own_nodes(mt.node):
                    if not (isinstance(call, ast.Call) and norm(call.func).split(".")[-1] in ENCODERS):
                        continue
                    fn = norm(call.func).split(".")[-1]
                    b = sib.bound_args(call, sigs[fn])
                    got_o = sib.source_of(mt, b["up_then_down"]) if "up_then_down" in b else None
                    got_m = sib.source_of(mt, b["mapping"]) if "mapping" in b else None
                    n += 1
                    ok = got_o == "self.up_then_down" and (mapattr is None or got_m == mapattr)
                    why = []
                    if got_o != "self.up_then_down":
                        why.append(f"up_then_down is {'not passed (the callee then assumes its default)' if got_o is None else 'bound to ' + got_o}")
                    if mapattr is not None and got_m != mapattr:
                        why.append(f"mapping is {'not passed' if got_m is None else 'bound to ' + got_m} instead of {mapattr}")
                    rep.decide(ok, rule, mt, call, text=f"{c.name}.{mt.name}: {fn}(mapping={got_m}, up_then_down={got_o})",
                               what="every encoding routine is called with the object's own encoding name and spin-orbital ordering",
                               reason="; ".join(why))
    return n
