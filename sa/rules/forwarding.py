"""K7.encoding-forwarding: a class that stores the caller's spin-orbital ordering (`self.up_then_down`) and encoding name (`self.qubit_mapping` /
`self.mapping`) hands both to every encoding routine it calls - the operator encoder (fermion_to_qubit_mapping) and the state encoders
(get_reference_circuit, get_mapped_vector, get_vector).  A call that leaves one out falls back to the callee's default (interleaved order, ...), so the
operator and the state - or two solvers given the same options - silently use different conventions.  All 40 call sites of the repository were read and
forward both; the callee's parameter list is taken from its definition, so positional and keyword spellings are equivalent."""
from __future__ import annotations

import ast
from typing import Dict, Iterable, List

from ..index import AnalysisError, Index, norm, own_nodes
from . import siblings as sib

ENCODERS = {"fermion_to_qubit_mapping": "tangelo/toolboxes/qubit_mappings/mapping_transform.py",
            "get_mapped_vector": "tangelo/toolboxes/qubit_mappings/statevector_mapping.py",
            "get_reference_circuit": "tangelo/toolboxes/qubit_mappings/statevector_mapping.py",
            "get_vector": "tangelo/toolboxes/qubit_mappings/statevector_mapping.py"}


def signatures(idx: Index) -> Dict[str, List[str]]:
    out = {}
    for n, rel in ENCODERS.items():
        f = idx.function(f"{rel}::{n}")
        out[n] = [a.arg for a in f.node.args.posonlyargs + f.node.args.args]
        if "up_then_down" not in out[n] or "mapping" not in out[n]:
            raise AnalysisError(f"{n}: parameters `mapping` / `up_then_down` not found in its signature")
    return out


def check_encoding_forwarding(idx: Index, rep, relpaths: Iterable[str], rule: str = "K7.encoding-forwarding") -> int:
    sigs = signatures(idx)
    n = 0
    for rel in relpaths:
        try:
            m = idx.module_by_relpath(rel)
        except Exception:
            continue
        for c in m.classes.values():
            init = c.methods.get("__init__")
            if init is None:
                continue
            stores = {norm(t) for x in own_nodes(init.node) if isinstance(x, (ast.Assign, ast.AnnAssign)) for t in (x.targets if isinstance(x, ast.Assign) else [x.target])}
            if "self.up_then_down" not in stores:
                continue
            mapattr = next((a for a in ("self.qubit_mapping", "self.mapping") if a in stores), None)
            for mt in c.methods.values():
                for call in own_nodes(mt.node):
                    if not (isinstance(call, ast.Call) and norm(call.func).split(".")[-1] in ENCODERS):
                        continue
                    fn = norm(call.func).split(".")[-1]
                    b = sib.bound_args(call, sigs[fn])
                    got_o = sib.source_of(mt, b["up_then_down"]) if "up_then_down" in b else None
                    got_m = sib.source_of(mt, b["mapping"]) if "mapping" in b else None
                    n += 1
                    ok = got_o == "self.up_then_down" and (mapattr is None or got_m == mapattr)
                    why = []
                    if got_o != "self.up_then_down":
                        why.append(f"up_then_down is {'not passed (the callee then assumes its default)' if got_o is None else 'bound to ' + got_o}")
                    if mapattr is not None and got_m != mapattr:
                        why.append(f"mapping is {'not passed' if got_m is None else 'bound to ' + got_m} instead of {mapattr}")
                    rep.decide(ok, rule, mt, call, text=f"{c.name}.{mt.name}: {fn}(mapping={got_m}, up_then_down={got_o})",
                               what="every encoding routine is called with the object's own encoding name and spin-orbital ordering",
                               reason="; ".join(why))
    return n


# ---------------------------------------------------------------------------------------------------
# K7.swapped-arguments: a positional argument named after a *different* parameter of the callee
_SWAP_EXAMPLE = '''
def trotterize(operator, time=1., n_trotter_steps=1, trotter_order=1, control=None):
    return operator
class U:
    def good(self, t):
        return trotterize(self.operator, t, self.n_trotter_steps, self.trotter_order, control=None)
    def bad(self, t):
        return trotterize(self.operator, t, self.trotter_order, self.n_trotter_steps, control=None)
'''


def swapped_findings(tree: ast.AST, resolve):
    """(call node, qualname of the caller, callee, position, argument name, parameter name): `resolve(name)` -> parameter list of a function called by its bare name"""
    out = []
    n_sites = 0

    def visit(body, prefix):
        nonlocal n_sites
        for fn in body:
            if isinstance(fn, ast.ClassDef):
                visit(fn.body, prefix + fn.name + ".")
            elif isinstance(fn, (ast.FunctionDef, ast.AsyncFunctionDef)):
                for c in ast.walk(fn):
                    if not (isinstance(c, ast.Call) and isinstance(c.func, ast.Name)):
                        continue
                    params = resolve(c.func.id)
                    if not params:
                        continue
                    n_sites += 1
                    for i, a in enumerate(c.args):
                        if isinstance(a, ast.Starred) or i >= len(params):
                            break
                        t = a.attr if isinstance(a, ast.Attribute) else (a.id if isinstance(a, ast.Name) else None)
                        if t and t != params[i] and t in params:
                            out.append((c, prefix + fn.name, c.func.id, i, t, params[i]))
                visit(fn.body, prefix + fn.name + ".")
    visit(tree.body, "")
    return out, n_sites


def check_swapped_arguments(idx: Index, rep, relpaths: Iterable[str], rule: str = "K7.swapped-arguments") -> int:
    ex_tree = ast.parse(_SWAP_EXAMPLE)
    ex_params = {f.name: [a.arg for a in f.args.args] for f in ex_tree.body if isinstance(f, ast.FunctionDef)}
    ex, _ = swapped_findings(ex_tree, lambda nm: ex_params.get(nm))
    if [(q, i) for _, q, _, i, _, _ in ex] != [("U.bad", 2), ("U.bad", 3)]:
        raise AnalysisError(f"swapped-arguments rule self-check failed: {[(q, i) for _, q, _, i, _, _ in ex]}")
    from ..index import FunctionInfo
    total = 0
    for rel in relpaths:
        try:
            m = idx.module_by_relpath(rel)
        except Exception:
            continue

        def resolve(name, m=m):
            try:
                r = idx.resolve_name(m, name)
            except Exception:
                return None
            if not isinstance(r, FunctionInfo) or r.module.external:
                return None
            ps = [a.arg for a in r.node.args.posonlyargs + r.node.args.args]
            return ps[1:] if ps and ps[0] in ("self", "cls") else ps
        hits, n_sites = swapped_findings(m.tree, resolve)
        total += n_sites
        for node, qual, callee, i, got, want in hits:
            rep.violation(rule, (m.relpath, qual), node, text=f"{qual}: {callee}(... position {i}: {got} ...)", what="a positional argument reaches the parameter it is named after",
                          reason=f"`{got}` is passed in position {i}, which is {callee}'s parameter `{want}`; {callee} also has a parameter `{got}`: the two are swapped")
        rep.ok(rule, (m.relpath, "<module>"), None, text=f"{rel}: {n_sites} calls of repository functions by position ({len(hits)} with an argument named after another parameter)",
               what="a positional argument reaches the parameter it is named after", nontrivial=False)
    return total


# ---------------------------------------------------------------------------------------------------
def check_catchall_parameters(idx: Index, rep, relpaths: Iterable[str], rule: str = "K7.catch-all-forwarded") -> int:
    """A function that declares `*args` or `**kwargs` accepts whatever the caller adds; unless its body is a stub (docstring, pass, raise) the
    catch-all has to be read somewhere in the body - otherwise the caller's extra arguments are accepted and silently dropped (a predicate or
    solver option passed by keyword is replaced by its default)."""
    ex = ast.parse("def f(g, *args, **kwargs):\n    return g(1, *args)\n").body[0]
    if [v for v in _unread_catchalls(ex)] != ["kwargs"]:
        raise AnalysisError("catch-all rule self-check failed")
    total = 0
    for rel in relpaths:
        try:
            m = idx.module_by_relpath(rel)
        except Exception:
            continue
        for f in m.functions.values():
            node = f.node
            if node.args.vararg is None and node.args.kwarg is None:
                continue
            body = [b for b in node.body if not (isinstance(b, ast.Expr) and isinstance(b.value, ast.Constant))]
            if all(isinstance(b, (ast.Pass, ast.Raise)) for b in body):
                continue
            total += 1
            unread = _unread_catchalls(node)
            rep.decide(not unread, rule, f, node, text=f"{f.qualname}: catch-all parameter(s) {', '.join(a.arg for a in (node.args.vararg, node.args.kwarg) if a is not None)} read in the body",
                       what="extra positional / keyword arguments a function accepts are used or passed on, not dropped",
                       reason=f"`{'`, `'.join(unread)}` is accepted and never read: what the caller passes that way is silently ignored")
    return total


def _unread_catchalls(node) -> List[str]:
    out = []
    for va in (node.args.vararg, node.args.kwarg):
        if va is not None and not any(isinstance(n, ast.Name) and n.id == va.arg and isinstance(n.ctx, ast.Load) for n in ast.walk(node)):
            out.append(va.arg)
    return out
