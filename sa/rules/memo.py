"""K1.memoisation: a result that is remembered between calls must not be able to go stale or be shared.

A function or property carrying a memoising decorator (functools.lru_cache / cache / cached_property, or a name containing "memo")
  (a) must not read a field of `self` that some method of the class (or any other function of the repository) can write after
      construction - otherwise the remembered value outlives the data it was computed from;
  (b) must not hand out a mutable object it built (list, dict, set, array, an instance of a repository class): every caller would
      receive the same object and a change made by one is seen by all later callers.
Both are decided from the syntax tree: decorators, field reads of the function, field stores anywhere in the repository, and the
constructors / literals reaching its return statements.  The repository has no memoised function today, so the rule also evaluates a
built-in positive example on every run and fails the check (exit 2) if that example is not reported."""
from __future__ import annotations

import ast
from typing import Dict, Iterable, List, Optional, Set, Tuple

from ..index import AnalysisError, FunctionInfo, Index, norm

MEMO = ("lru_cache", "cache", "cached_property")
IMMUTABLE_CALLS = {"int", "float", "str", "bool", "tuple", "frozenset", "len", "sum", "abs", "round", "min", "max", "complex"}


def is_memoised(node: ast.AST) -> Optional[str]:
    for d in getattr(node, "decorator_list", []):
        t = ast.unparse(d.func if isinstance(d, ast.Call) else d)
        base = t.split(".")[-1]
        if base in MEMO or "memo" in base.lower():
            return t
    return None


def _attribute_memo(fn: ast.AST) -> Optional[str]:
    """name X when the method returns a remembered self.X early (`if self.X is not None: return self.X` / `if self.X: return self.X`) and assigns self.X later"""
    for st in fn.body:
        if isinstance(st, ast.If) and st.body and isinstance(st.body[0], ast.Return) and st.body[0].value is not None:
            rv = st.body[0].value
            if isinstance(rv, ast.Attribute) and isinstance(rv.value, ast.Name) and rv.value.id == "self":
                t = ast.unparse(st.test)
                if t in (f"self.{rv.attr} is not None", f"self.{rv.attr}", f"self.{rv.attr} != None"):
                    if any(isinstance(a, ast.Assign) and any(ast.unparse(x) == f"self.{rv.attr}" for x in a.targets) for a in ast.walk(fn)):
                        return rv.attr
    return None


def _build_guard(fn: ast.AST) -> Optional[str]:
    """name X when a procedure (no value returned) skips its whole body once self.X exists: `if self.X is not None: return` ... `self.X = value`"""
    for st in fn.body:
        if isinstance(st, ast.Expr) and isinstance(st.value, ast.Constant):
            continue
        if isinstance(st, ast.If) and st.body and isinstance(st.body[-1], ast.Return) and (st.body[-1].value is None or (isinstance(st.body[-1].value, ast.Constant) and st.body[-1].value.value is None)) \
                and not st.orelse:
            t = st.test
            if isinstance(t, ast.Compare) and len(t.ops) == 1 and isinstance(t.ops[0], (ast.IsNot, ast.NotEq)) and isinstance(t.comparators[0], ast.Constant) and t.comparators[0].value is None:
                t = t.left
            if isinstance(t, ast.Attribute) and isinstance(t.value, ast.Name) and t.value.id == "self":
                if any(isinstance(a, ast.Assign) and any(ast.unparse(x) == f"self.{t.attr}" for x in a.targets) for a in ast.walk(fn)):
                    return t.attr
        break                       # only a guard in front of everything else skips the whole procedure
    return None


def _self_reads(fn: ast.AST) -> Set[str]:
    out = set()
    for n in ast.walk(fn):
        if isinstance(n, ast.Attribute) and isinstance(n.value, ast.Name) and n.value.id == "self" and isinstance(n.ctx, ast.Load):
            out.add(n.attr)
    return out


def _field_writers(cls_node: ast.ClassDef) -> Dict[str, List[str]]:
    """field -> methods (other than __init__) that store into it, into something below it, or call a mutating method on it"""
    out: Dict[str, List[str]] = {}
    for m in cls_node.body:
        if not isinstance(m, (ast.FunctionDef, ast.AsyncFunctionDef)) or m.name == "__init__":
            continue
        for n in ast.walk(m):
            tgt = None
            if isinstance(n, (ast.Assign, ast.AugAssign, ast.AnnAssign, ast.Delete)):
                tgts = n.targets if isinstance(n, (ast.Assign, ast.Delete)) else [n.target]
                for t in tgts:
                    b = t
                    while isinstance(b, (ast.Subscript, ast.Attribute)) and not (isinstance(b, ast.Attribute) and isinstance(b.value, ast.Name) and b.value.id == "self"):
                        b = b.value
                    if isinstance(b, ast.Attribute) and isinstance(b.value, ast.Name) and b.value.id == "self":
                        out.setdefault(b.attr, []).append(m.name)
                        if b.attr == "__dict__":
                            out.setdefault("*", []).append(m.name)
            if isinstance(n, ast.Call) and isinstance(n.func, ast.Attribute) and n.func.attr in ("append", "extend", "update", "pop", "clear", "insert", "remove", "setdefault", "popitem", "add", "discard", "sort", "reverse"):
                b = n.func.value
                if isinstance(b, ast.Attribute) and isinstance(b.value, ast.Name) and b.value.id == "self":
                    out.setdefault(b.attr, []).append(m.name)
    return out


def _mutable_returns(fn: ast.AST, repo_classes: Set[str], expr: Optional[ast.AST] = None) -> List[str]:
    """descriptions of mutable objects that can reach a return statement (directly or through a local name)"""
    defs: Dict[str, List[ast.AST]] = {}
    for n in ast.walk(fn):
        if isinstance(n, ast.Assign) and len(n.targets) == 1 and isinstance(n.targets[0], ast.Name):
            defs.setdefault(n.targets[0].id, []).append(n.value)
        if isinstance(n, ast.AugAssign) and isinstance(n.target, ast.Name):
            defs.setdefault(n.target.id, []).append(n.value)

    def mutable(e, depth=0) -> Optional[str]:
        if isinstance(e, (ast.List, ast.Dict, ast.Set, ast.ListComp, ast.DictComp, ast.SetComp)):
            return f"a {type(e).__name__.replace('Comp', '').lower()} built here"
        if isinstance(e, ast.Call):
            t = norm(e.func)
            base = t.split(".")[-1]
            if base in IMMUTABLE_CALLS:
                return None
            if base in repo_classes or (base[:1].isupper() and base not in ("Fraction",)):
                return f"an instance of {base}"
            if t.startswith(("np.", "numpy.")) and base not in ("sum", "prod", "trace", "dot", "vdot", "real", "imag", "linalg.norm", "norm", "sqrt", "abs", "isclose", "allclose"):
                return f"the array returned by {t}"
            if base in ("list", "dict", "set", "copy", "deepcopy", "Counter", "defaultdict", "OrderedDict"):
                return f"the {base} built here"
            return f"the object returned by {t}(...)" if depth == 0 and isinstance(e.func, ast.Name) and not t.startswith(("len", "str")) and t in repo_funcs else None
        if isinstance(e, ast.Name) and depth < 3:
            for d in defs.get(e.id, []):
                r = mutable(d, depth + 1)
                if r:
                    return r
        if isinstance(e, ast.IfExp):
            return mutable(e.body, depth) or mutable(e.orelse, depth)
        if isinstance(e, ast.Tuple):
            for x in e.elts:
                r = mutable(x, depth)
                if r:
                    return f"a tuple holding {r}"
        return None
    repo_funcs: Set[str] = set()
    if expr is not None:
        r = mutable(expr)
        return [r] if r else []
    out = []
    for n in ast.walk(fn):
        if isinstance(n, ast.Return) and n.value is not None:
            r = mutable(n.value)
            if r:
                out.append(r)
    return out


def findings(tree: ast.AST, repo_classes: Set[str], returns_mutable_func: Set[str] = frozenset()) -> List[Tuple[ast.AST, str, str]]:
    """(function node, qualname, reason) for every memoised function/property of `tree` that can go stale or shares a mutable result"""
    out = []

    def visit(body, cls: Optional[ast.ClassDef], prefix: str):
        for n in body:
            if isinstance(n, ast.ClassDef):
                visit(n.body, n, prefix + n.name + ".")
            elif isinstance(n, (ast.FunctionDef, ast.AsyncFunctionDef)):
                deco = is_memoised(n)
                if not deco and cls is not None and n.name != "__init__":
                    slot = _attribute_memo(n)
                    if slot:
                        # a hand-rolled memo: `if self.X is not None: return self.X` ... `self.X = value`.  The remembered value goes stale when it was
                        # computed from fields that another method (which does not reset X) can change afterwards
                        writers = _field_writers(cls)
                        resetters = set(writers.get(slot, []))
                        stale = sorted((f, sorted(set(writers[f]) - resetters - {n.name})) for f in _self_reads(n) if f in writers and f != slot)
                        stale = [(f, ms) for f, ms in stale if ms]
                        if stale:
                            f0, ms = stale[0]
                            out.append((n, prefix + n.name, f"{n.name} remembers its result in self.{slot}; the result is computed from self.{f0}, which {', '.join(ms[:3])} can change "
                                                            f"afterwards without resetting self.{slot}: later calls return the value of the earlier state"))
                if not deco and cls is not None and n.name != "__init__":
                    slot = _build_guard(n)
                    if slot:
                        # a build step that is skipped once its product exists: the product was computed from public attributes, which the caller may set to
                        # something else before building again - the second build silently keeps the product of the first
                        assigned_here = {ast.unparse(x)[5:] for a in ast.walk(n) if isinstance(a, ast.Assign) for x in a.targets if ast.unparse(x).startswith("self.")}
                        public = sorted(f for f in _self_reads(n) if not f.startswith("_") and f != slot and f not in assigned_here)
                        if public:
                            out.append((n, prefix + n.name, f"{n.name} returns at once when self.{slot} exists; self.{slot} was computed from the public attribute(s) "
                                                            f"{', '.join('self.' + f for f in public[:4])}: after one of them is changed, calling {n.name} again keeps the product of the "
                                                            f"earlier values"))
                if deco:
                    if cls is not None and n.args.args and n.args.args[0].arg == "self":
                        writers = _field_writers(cls)
                        stale = sorted((f, sorted(set(writers[f]))) for f in _self_reads(n) if f in writers)
                        if "*" in writers:
                            stale.append(("__dict__", sorted(set(writers["*"]))))
                        if stale:
                            f0, ms = stale[0]
                            out.append((n, prefix + n.name, f"@{deco} remembers a value computed from self.{f0}, which {', '.join(ms[:3])} can change afterwards: "
                                                            f"the remembered value goes stale"))
                            continue
                    mr = _mutable_returns(n, repo_classes)
                    # a function whose result comes from another repository function that builds a mutable object
                    for r in [x for x in ast.walk(n) if isinstance(x, ast.Return) and x.value is not None]:
                        v = r.value
                        names = {v.id} if isinstance(v, ast.Name) else set()
                        for a in ast.walk(n):
                            if isinstance(a, ast.Assign) and isinstance(a.targets[0], ast.Name) and a.targets[0].id in names and isinstance(a.value, ast.Call) and \
                                    norm(a.value.func).split(".")[-1] in returns_mutable_func:
                                mr.append(f"the object built by {norm(a.value.func)}")
                        if isinstance(v, ast.Call) and norm(v.func).split(".")[-1] in returns_mutable_func:
                            mr.append(f"the object built by {norm(v.func)}")
                    if mr:
                        out.append((n, prefix + n.name, f"@{deco} hands the same remembered object ({mr[0]}) to every caller: a change made through one result "
                                                        f"shows up in all later ones"))
                visit(n.body, cls, prefix + n.name + ".")
    visit(tree.body, None, "")
    return out


_EXAMPLE = '''
from functools import lru_cache, cached_property
class Solver:
    def __init__(self, mol):
        self.mol = mol
        self.fragment = None
        self.rdms = None
    def simulate(self):
        self.fragment = solve(self.mol)
        return self.fragment.e
    def get_rdm(self):
        if self.rdms is not None:
            return self.rdms
        self.rdms = make(self.fragment)
        return self.rdms
class Box:
    def __init__(self, items):
        self.items = dict(items)
    @cached_property
    def total(self):
        return sum(self.items.values())
    def drop(self, k):
        del self.items[k]
@lru_cache(maxsize=8)
def build(n):
    out = []
    for i in range(n):
        out.append(i)
    return out
@lru_cache(maxsize=8)
def size(n):
    return n * 2
'''


def check_memoisation(idx: Index, rep, relpaths: Iterable[str], rule: str = "K1.memoisation"):
    ex = findings(ast.parse(_EXAMPLE), set())
    if sorted(q for _, q, _ in ex) != ["Box.total", "Solver.get_rdm", "build"]:
        raise AnalysisError(f"memoisation rule self-check failed: built-in example reports {[q for _, q, _ in ex]}")
    classes = {c.name for m in idx.modules.values() if not m.external for c in m.classes.values()}
    # repository functions that build and return a mutable object (one level): used for memoised wrappers around them
    builders: Set[str] = set()
    for m in idx.modules.values():
        if m.external:
            continue
        for f in m.functions.values():
            if _mutable_returns(f.node, classes):
                builders.add(f.name)
    n_funcs = 0
    for rel in relpaths:
        try:
            m = idx.module_by_relpath(rel)
        except Exception:
            continue
        n_funcs += len(m.functions)
        hits = findings(m.tree, classes, builders)
        for node, qual, why in hits:
            rep.violation(rule, (m.relpath, qual), node, text=f"{qual} is memoised", what="a remembered result can neither go stale nor be shared as a mutable object", reason=why)
        memo_ok = [q for q in _all_memoised(m.tree) if q not in {h[1] for h in hits}]
        for q in memo_ok:
            rep.ok(rule, (m.relpath, q), None, text=f"{q} is memoised: immutable result, no mutable source", what="a remembered result can neither go stale nor be shared as a mutable object")
        rep.ok(rule, (m.relpath, "<module>"), None, text=f"{rel}: {len(m.functions)} functions scanned for memoising decorators ({len(hits) + len(memo_ok)} found)",
               what="no function of the property's modules remembers results in a way that can go stale or be shared", nontrivial=False)
    return n_funcs


def _all_memoised(tree) -> List[str]:
    out = []

    def visit(body, prefix):
        for n in body:
            if isinstance(n, ast.ClassDef):
                visit(n.body, prefix + n.name + ".")
            elif isinstance(n, (ast.FunctionDef, ast.AsyncFunctionDef)):
                if is_memoised(n):
                    out.append(prefix + n.name)
                visit(n.body, prefix + n.name + ".")
    visit(tree.body, "")
    return out


# ---------------------------------------------------------------------------------------------------
# hand-rolled caches: the key must name everything the remembered value depends on
_CACHE_EXAMPLE = '''
class U:
    def build(self, method, n_steps, control=None):
        key = (method, n_steps)
        if key in self._circuits:
            return self._circuits[key]
        self._circuits[key] = make(method, n_steps, control=control)
        return self._circuits[key]
    def fine(self, method, n_steps):
        key = (method, n_steps)
        if key not in self._c:
            self._c[key] = int(make(method, n_steps))
        return self._c[key]
    def shares(self, k):
        import numpy as np
        if k in self._d:
            return self._d[k]
        a = np.zeros((k, k))
        self._d[k] = (1.0, a)
        return self._d[k]
    def lazy(self, mol, c):
        if self._eri is None:
            self._eri = mol.intor("int2e")
        return transform(self._eri, c)
    def lazy_ok(self):
        if self._ref is None:
            self._ref = self.prepare()
        return self._ref
'''


def cache_key_findings(tree: ast.AST):
    """(function node, qualname, reason): functions that keep results in a container under a key built from some of their parameters while the
    stored expression also depends on other parameters - a later call that differs only in those gets the value computed for the first"""
    out = []

    def visit(body, prefix):
        for fn in body:
            if isinstance(fn, ast.ClassDef):
                visit(fn.body, prefix + fn.name + ".")
                continue
            if not isinstance(fn, (ast.FunctionDef, ast.AsyncFunctionDef)):
                continue
            params = {a.arg for a in fn.args.posonlyargs + fn.args.args + fn.args.kwonlyargs} - {"self", "cls"}
            if fn.args.vararg:
                params.add(fn.args.vararg.arg)
            if fn.args.kwarg:
                params.add(fn.args.kwarg.arg)
            # local definitions, to expand a key variable into the parameters it is made of
            defs = {}
            for n in ast.walk(fn):
                if isinstance(n, ast.Assign) and len(n.targets) == 1 and isinstance(n.targets[0], ast.Name):
                    defs.setdefault(n.targets[0].id, []).append(n.value)

            def names_of(e, depth=0):
                got = set()
                for x in ast.walk(e):
                    if isinstance(x, ast.Name):
                        if x.id in params:
                            got.add(x.id)
                        elif x.id in defs and depth < 3:
                            for d in defs[x.id]:
                                got |= names_of(d, depth + 1)
                return got
            # membership tests on a container: `key in C` / `key not in C`
            tested = {}
            for n in ast.walk(fn):
                if isinstance(n, ast.Compare) and len(n.ops) == 1 and isinstance(n.ops[0], (ast.In, ast.NotIn)):
                    tested[norm(n.comparators[0])] = n.left
            for n in ast.walk(fn):
                if isinstance(n, ast.Assign) and isinstance(n.targets[0], ast.Subscript) and norm(n.targets[0].value) in tested:
                    cont = norm(n.targets[0].value)
                    key_params = names_of(n.targets[0].slice)
                    if not key_params:
                        continue
                    val_params = names_of(n.value)
                    missing = sorted(val_params - key_params)
                    # the value must also be *returned from the container* somewhere (otherwise it is not a cache)
                    returned = any(isinstance(r, ast.Return) and r.value is not None and norm(r.value).startswith(cont + "[") for r in ast.walk(fn))
                    if missing and returned:
                        out.append((fn, prefix + fn.name, f"results are remembered in {cont} under a key made of {sorted(key_params)}, but the remembered value also depends on "
                                                          f"{missing}: a later call that differs only in {missing} receives the value computed for the first one"))
                        break
                    if returned:
                        mut = _mutable_returns(fn, set(), n.value)
                        if mut:
                            out.append((fn, prefix + fn.name, f"results are remembered in {cont} and handed out as they are: the remembered value is {mut[0]}, so a caller that "
                                                              f"modifies what it received (an in-place scaling, an append) changes what every later caller gets"))
                            break
            # lazily filled attribute: `if self.A is None: self.A = <expression of the method's arguments>` - a cache with no key at all
            if fn.name != "__init__":
                for n in ast.walk(fn):
                    if not isinstance(n, ast.If):
                        continue
                    t = n.test
                    attr = None
                    if isinstance(t, ast.Compare) and len(t.ops) == 1 and isinstance(t.ops[0], ast.Is) and isinstance(t.comparators[0], ast.Constant) and t.comparators[0].value is None:
                        attr = norm(t.left)
                        if isinstance(t.left, ast.Call) and norm(t.left.func) == "getattr" and len(t.left.args) >= 2 and isinstance(t.left.args[1], ast.Constant):
                            attr = f"{norm(t.left.args[0])}.{t.left.args[1].value}"          # getattr(self, "x", None) is None
                    elif isinstance(t, ast.UnaryOp) and isinstance(t.op, ast.Not) and isinstance(t.operand, ast.Call) and norm(t.operand.func) == "hasattr" and \
                            len(t.operand.args) == 2 and isinstance(t.operand.args[1], ast.Constant):
                        attr = f"{norm(t.operand.args[0])}.{t.operand.args[1].value}"
                    if not attr or not attr.startswith("self."):
                        continue
                    for st in n.body:
                        if isinstance(st, ast.Assign) and len(st.targets) == 1 and norm(st.targets[0]) == attr:
                            dep = sorted(names_of(st.value))
                            # ... and the remembered value is then combined with this call's own arguments (a one-time initialiser that only keeps what
                            # it built - `if self.mol is None: self.mol = make(solver)` - is not a result cache)
                            end = max(getattr(x, "end_lineno", n.lineno) for x in ast.walk(n) if hasattr(x, "lineno"))
                            used_after = False
                            for x in ast.walk(fn):
                                if isinstance(x, (ast.Assign, ast.AugAssign, ast.Return, ast.Expr)) and x.lineno > end and getattr(x, "value", None) is not None:
                                    reads = any(isinstance(y, ast.Attribute) and norm(y) == attr and isinstance(y.ctx, ast.Load) for y in ast.walk(x.value))
                                    if reads and names_of(x.value):
                                        used_after = True
                            if dep and used_after:
                                out.append((fn, prefix + fn.name, f"{attr} is computed from the argument(s) {dep} on the first call only and reused afterwards: a later call with "
                                                                  f"another {dep[0]} receives the value computed for the first one"))
            visit(fn.body, prefix + fn.name + ".")
    visit(tree.body, "")
    return out


def check_cache_keys(idx: Index, rep, relpaths: Iterable[str], rule: str = "K1.cache-key"):
    ex = cache_key_findings(ast.parse(_CACHE_EXAMPLE))
    if [q for _, q, _ in ex] != ["U.build", "U.shares", "U.lazy"]:
        raise AnalysisError(f"cache-key rule self-check failed: built-in example reports {[q for _, q, _ in ex]}")
    for rel in relpaths:
        try:
            m = idx.module_by_relpath(rel)
        except Exception:
            continue
        hits = cache_key_findings(m.tree)
        for node, qual, why in hits:
            rep.violation(rule, (m.relpath, qual), node, text=f"{qual} keeps results under an incomplete key", what="a remembered result is looked up by everything it depends on", reason=why)
        rep.ok(rule, (m.relpath, "<module>"), None, text=f"{rel}: scanned for hand-rolled result caches ({len(hits)} with an incomplete key)",
               what="a remembered result is looked up by everything it depends on", nontrivial=False)
