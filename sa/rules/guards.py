"""K6 helper: the refusal behaviour of a function, read off its own raise-guards by folding their tests.

`refusal(idx, func, env)` walks the statements of `func` that are reachable without entering loops, in source order, keeping the
straight-line assignments it can fold, and answers whether one of the `if <test>: raise ...` guards fires for the given argument
values.  Guards whose test cannot be folded from the supplied values are reported back (they are about other arguments).  The
decision is made from the guard's *value* on chosen arguments, never from its spelling."""
from __future__ import annotations

import ast
from typing import Any, Dict, List, Optional, Tuple

from ..consteval import Folder, Raised, Undecidable
from ..index import FunctionInfo, Index, norm
from .circuitsem import make_folder


def _is_raise_guard(s: ast.stmt) -> bool:
    return isinstance(s, ast.If) and bool(s.body) and isinstance(s.body[0], ast.Raise)


def refusal(idx: Index, func: FunctionInfo, env: Dict[str, Any], enter: Tuple[str, ...] = ()) -> Tuple[Optional[bool], List[str], Optional[ast.AST]]:
    """-> (refused?, tests that could not be folded, the guard that fired).  `enter`: texts of `if` tests whose body is descended into
    when they fold to True (nested guards)."""
    fo = make_folder(idx, func.module.relpath, env=dict(env))
    unknown: List[str] = []

    def walk(stmts) -> Optional[ast.AST]:
        for s in stmts:
            if _is_raise_guard(s):
                try:
                    if fo.truth(fo.expr(s.test), s.test):
                        return s
                except (Undecidable, Raised, KeyError, TypeError, AttributeError):
                    unknown.append(norm(s.test))
                continue
            if isinstance(s, ast.If):
                try:
                    t = fo.truth(fo.expr(s.test), s.test)
                except (Undecidable, Raised, KeyError, TypeError, AttributeError):
                    continue
                hit = walk(s.body if t else s.orelse)
                if hit is not None:
                    return hit
                continue
            if isinstance(s, (ast.Assign, ast.AugAssign)):
                try:
                    fo.stmt(s)
                except (Undecidable, Raised, KeyError, TypeError, AttributeError):
                    pass
        return None

    hit = walk(func.node.body)
    return (hit is not None), unknown, hit


def decide_refusals(idx: Index, rep, rule: str, func: FunctionInfo, cases: List[Tuple[str, Dict[str, Any], bool]], what: str, may_skip: Tuple[str, ...] = ()):
    """cases: (label, argument values, must it be refused?).  A raise-guard whose test cannot be folded from the case's values makes the
    case undecidable (analysis error) unless its text contains one of `may_skip` (guards about arguments the case does not concern)."""
    from ..index import AnalysisError
    for label, env, want in cases:
        got, unknown, hit = refusal(idx, func, env)
        blind = [u for u in unknown if not any(m in u for m in may_skip)]
        if blind and not got:
            raise AnalysisError(f"{func.qualname}: guard(s) {blind[:2]} cannot be evaluated for case `{label}`")
        rep.decide(got == want, rule, func, hit if hit is not None else func.node, text=f"{func.qualname}: {label} -> {'refused' if want else 'accepted'}", what=what,
                   reason=f"{label}: {'refused by `' + norm(hit.test)[:70] + '`' if got else 'no guard fires'}, expected {'a refusal' if want else 'acceptance'}")
