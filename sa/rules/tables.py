"""Folding of the translators' gate-name tables (get_<fmt>_gates) with the restricted constant folder."""
from __future__ import annotations

import ast
from typing import Any, Dict, Optional

from ..consteval import Folder, Opaque, Raised, Undecidable
from ..index import AnalysisError, FunctionInfo, Index

TABLE_FUNCS = {
    "cirq": ("tangelo/linq/translator/translate_cirq.py", "get_cirq_gates"),
    "sympy": ("tangelo/linq/translator/translate_sympy.py", "get_sympy_gates"),
    "qiskit": ("tangelo/linq/translator/translate_qiskit.py", "get_qiskit_gates"),
    "qulacs": ("tangelo/linq/translator/translate_qulacs.py", "get_qulacs_gates"),
    "braket": ("tangelo/linq/translator/translate_braket.py", "get_braket_gates"),
    "pennylane": ("tangelo/linq/translator/translate_pennylane.py", "get_pennylane_gates"),
    "stim": ("tangelo/linq/translator/translate_stim.py", "get_stim_gates"),
    "qsharp": ("tangelo/linq/translator/translate_qdk.py", "get_qdk_gates"),
    "json_ionq": ("tangelo/linq/translator/translate_json_ionq.py", "get_ionq_gates"),
    "projectq": ("tangelo/linq/translator/translate_projectq.py", "get_projectq_gates"),
    "openqasm": ("tangelo/linq/translator/translate_openqasm.py", "get_openqasm_gates"),
    "tableau": ("tangelo/linq/translator/translate_stim.py", "get_stim_gates"),
}


def fold_table(idx: Index, fmt: str) -> Dict[str, Any]:
    if fmt not in TABLE_FUNCS:
        raise AnalysisError(f"no gate table known for format {fmt}")
    rel, name = TABLE_FUNCS[fmt]
    f = idx.function(f"{rel}::{name}")
    fo = Folder(opaque_unknown=True)
    # module-level helper functions referenced by the table (sympy: rx_gate, controlled_gate ...) stay opaque
    try:
        res = fo.run_function(f.node, {})
    except (Undecidable, Raised) as e:
        raise AnalysisError(f"{f.ref}: gate table not foldable: {e}")
    if not isinstance(res, dict) or not res:
        raise AnalysisError(f"{f.ref}: folded table is not a non-empty dict")
    return res


def table_func(idx: Index, fmt: str) -> FunctionInfo:
    rel, name = TABLE_FUNCS[fmt]
    return idx.function(f"{rel}::{name}")
