"""K1.closure-reuse: a returned inner function must not consume a one-shot iterator of its enclosing scope (see check_closure_reuse)."""
from __future__ import annotations

import ast

from ..index import Index, norm


def check_closure_reuse(idx: Index, rep, relpaths, rule: str = "K1.closure-reuse") -> int:
    """The function returned by get_z2_taper_function is applied many times (QubitTapering keeps it and z2_tapering() calls it for every operator).  Whatever it
    closes over must therefore be re-usable: a one-shot iterator (zip, map, filter, a generator expression, iter(...), reversed(...)) bound outside the inner
    function and consumed inside it is empty from the second application on."""
    ONE_SHOT = ("zip", "map", "filter", "iter", "reversed", "enumerate")
    n = 0
    for rel in relpaths:
        try:
            m = idx.module_by_relpath(rel)
        except Exception:
            continue
        for fn in m.functions.values():
            inner = [x for x in fn.node.body if isinstance(x, (ast.FunctionDef, ast.Lambda))] + [x for x in ast.walk(fn.node) if isinstance(x, ast.FunctionDef) and x is not fn.node]
            if not inner:
                continue
            outer_iters = {}
            for st in fn.node.body:
                if isinstance(st, ast.Assign) and len(st.targets) == 1 and isinstance(st.targets[0], ast.Name):
                    v = st.value
                    if isinstance(v, ast.GeneratorExp) or (isinstance(v, ast.Call) and isinstance(v.func, ast.Name) and v.func.id in ONE_SHOT):
                        outer_iters[st.targets[0].id] = st
            for g in inner:
                n += 1
                params = {a.arg for a in g.args.args + g.args.kwonlyargs}
                assigned = {t.id for x in ast.walk(g) if isinstance(x, ast.Assign) for t in x.targets if isinstance(t, ast.Name)}
                used = [x for x in ast.walk(g) if isinstance(x, ast.Name) and isinstance(x.ctx, ast.Load) and x.id in outer_iters and x.id not in params and x.id not in assigned]
                rep.decide(not used, rule, fn, used[0] if used else g, text=f"{fn.qualname}: inner function {g.name} and the iterators of its enclosing scope",
                           what="a function that is returned and applied repeatedly does not consume a one-shot iterator created once outside it",
                           reason=f"`{used[0].id if used else ''}` is bound once to `{norm(outer_iters[used[0].id].value)[:60] if used else ''}` in {fn.qualname} and iterated inside {g.name}: "
                                  f"the second application finds it exhausted")
    return n
