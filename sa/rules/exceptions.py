"""K12.returned-exception: `return ValueError("...")` hands the caller an exception *object* where a result is expected - the refusal the author meant never
happens, and the object travels on as if it were a number or a dictionary.  No function of the repository is documented to return exception objects, so
every `return <BuiltinException>(...)` is reported; a built-in example is evaluated on every run."""
from __future__ import annotations

import ast
import builtins
from typing import Iterable

from ..index import AnalysisError, Index, norm

_EXAMPLE = '''
def bad(freqs):
    if not freqs:
        return ValueError("empty")
    return sum(freqs.values())
def good(freqs):
    if not freqs:
        raise ValueError("empty")
    return sum(freqs.values())
def factory(msg):
    err = ValueError(msg)
    return err
'''


def _is_builtin_exception(name: str) -> bool:
    obj = getattr(builtins, name, None)
    return isinstance(obj, type) and issubclass(obj, BaseException)


def findings(tree: ast.AST):
    out = []

    def visit(body, prefix):
        for fn in body:
            if isinstance(fn, ast.ClassDef):
                visit(fn.body, prefix + fn.name + ".")
            elif isinstance(fn, (ast.FunctionDef, ast.AsyncFunctionDef)):
                for n in ast.walk(fn):
                    if isinstance(n, ast.Return) and isinstance(n.value, ast.Call) and isinstance(n.value.func, ast.Name) and _is_builtin_exception(n.value.func.id):
                        out.append((n, prefix + fn.name, n.value.func.id))
                visit(fn.body, prefix + fn.name + ".")
    visit(tree.body, "")
    return out


def check_returned_exceptions(idx: Index, rep, relpaths: Iterable[str], rule: str = "K12.returned-exception") -> int:
    ex = findings(ast.parse(_EXAMPLE))
    if [q for _, q, _ in ex] != ["bad"]:
        raise AnalysisError(f"returned-exception rule self-check failed: {[q for _, q, _ in ex]}")
    n = 0
    for rel in relpaths:
        try:
            m = idx.module_by_relpath(rel)
        except Exception:
            continue
        n += 1
        hits = findings(m.tree)
        for node, qual, exc in hits:
            rep.violation(rule, (m.relpath, qual), node, text=f"{qual}: `{norm(node)[:70]}`", what="an input the function cannot handle is refused by raising",
                          reason=f"a {exc} object is *returned*: the caller receives it as the result (an expectation value, a dictionary) and the refusal never happens")
        rep.ok(rule, (m.relpath, "<module>"), None, text=f"{rel}: no exception object is returned as a result ({len(hits)} found)", what="an input the function cannot handle is refused by raising",
               nontrivial=False)
    return n
