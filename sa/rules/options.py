"""K7 helper: option dictionaries.  Many solvers read their options as `self.x = opts.pop("x", default)`.  The value a caller supplies has to be
the value stored - also when it is falsy (0, 0.0, False): `opts.pop("x", None) or default`, `opts.get("x") or default`, `if not value: value = default`
replace an explicit zero by the default.  Each such statement is folded with the key present for probe values of the default's own kind."""
from __future__ import annotations

import ast
from typing import List

from ..consteval import Folder, Raised, Undecidable
from ..index import AnalysisError, FunctionInfo, Index, norm, own_nodes


def option_reads(f: FunctionInfo):
    """(statement, dict name, key, default node) for every `target = <expr containing D.pop("key", default) / D.get("key", default)>`"""
    out = []
    for s in f.node.body:
        if not isinstance(s, (ast.Assign, ast.AnnAssign)) or s.value is None:
            continue
        for n in ast.walk(s.value):
            if isinstance(n, ast.Call) and isinstance(n.func, ast.Attribute) and n.func.attr in ("pop", "get") and isinstance(n.func.value, ast.Name) and \
                    n.args and isinstance(n.args[0], ast.Constant) and isinstance(n.args[0].value, str):
                out.append((s, n.func.value.id, n.args[0].value, n.args[1] if len(n.args) > 1 else None))
                break
    return out


def check_option_passthrough(idx: Index, rep, rule: str, f: FunctionInfo, minimum: int = 1):
    reads = option_reads(f)
    n = 0
    for s, dname, key, dflt in reads:
        ann = norm(s.annotation) if isinstance(s, ast.AnnAssign) else ""
        if isinstance(dflt, ast.Constant) and isinstance(dflt.value, bool) or ann == "bool":
            probes = [True, False]
        elif isinstance(dflt, ast.Constant) and isinstance(dflt.value, (int, float)) or ann in ("float", "int"):
            probes = [0, 0.0, 2.5, -1]
        else:
            continue
        bad: List[str] = []
        for pv in probes:
            fo = Folder(env={dname: {key: pv}})
            try:
                got = fo.expr(s.value)
            except (Undecidable, Raised) as e:
                raise AnalysisError(f"{f.qualname}: option read `{norm(s.value)[:80]}` not foldable: {e}")
            if not (got == pv and type(got) is type(pv)):
                bad.append(f"{key}={pv!r} is stored as {got!r}")
        n += 1
        rep.decide(not bad, rule, f, s, text=f"{f.qualname}: option `{key}` (default {norm(dflt) if dflt is not None else None}) stores the supplied value, falsy ones included",
                   what="a value the caller supplies for an option is the value the solver uses, also when it is zero or False", reason="; ".join(bad[:3]))
    rep.floor(f"{f.qualname}: numeric / boolean options folded", n, minimum)
