"""K7.annotation-forwarding: a method that builds a copy of `self` by calling its own class's constructor and then filling in self's data
(`f = FermionOperator(...); f.terms = self.terms.copy()`) has to carry over every annotation the constructor stores (`self.spin = spin`, ...): a result that
silently loses one no longer compares equal to the operator it was made from and is refused by the consistency checks of the in-place operators."""
from __future__ import annotations

import ast
from typing import Iterable, List

from ..index import AnalysisError, Index, norm, own_nodes

_EXAMPLE = '''
class Op(Base):
    def __init__(self, term=None, coefficient=1., n_spinorbitals=None, n_electrons=None, spin=None):
        super().__init__(term, coefficient)
        self.n_spinorbitals = n_spinorbitals
        self.n_electrons = n_electrons
        self.spin = spin
    def _copy_bad(self):
        f = Op(n_spinorbitals=self.n_spinorbitals, n_electrons=self.n_electrons)
        f.terms = self.terms.copy()
        return f
    def _copy_ok(self):
        f = Op(n_spinorbitals=self.n_spinorbitals, n_electrons=self.n_electrons)
        f.spin = self.spin
        f.terms = self.terms.copy()
        return f
    def from_other(self, other):
        f = Op()
        f.terms = other.terms.copy()
        return f
'''


def findings(tree: ast.AST):
    out = []
    for c in [n for n in ast.walk(tree) if isinstance(n, ast.ClassDef)]:
        init = next((m for m in c.body if isinstance(m, ast.FunctionDef) and m.name == "__init__"), None)
        if init is None:
            continue
        params = [a.arg for a in init.args.args[1:] + init.args.kwonlyargs]
        stored = [p for p in params if any(isinstance(s, ast.Assign) and len(s.targets) == 1 and ast.unparse(s.targets[0]) == f"self.{p}" and
                                           isinstance(s.value, ast.Name) and s.value.id == p for s in ast.walk(init))]
        if not stored:
            continue
        for m in c.body:
            if not isinstance(m, ast.FunctionDef) or m.name == "__init__":
                continue
            for st in ast.walk(m):
                if not (isinstance(st, ast.Assign) and len(st.targets) == 1 and isinstance(st.targets[0], ast.Name) and isinstance(st.value, ast.Call)):
                    continue
                fn = ast.unparse(st.value.func)
                if fn not in (c.name, "type(self)", "self.__class__", "cls"):
                    continue
                v = st.targets[0].id
                fills = [x for x in ast.walk(m) if isinstance(x, ast.Assign) and len(x.targets) == 1 and isinstance(x.targets[0], ast.Attribute) and
                         isinstance(x.targets[0].value, ast.Name) and x.targets[0].value.id == v]
                from_self = [x for x in fills if any(isinstance(y, ast.Name) and y.id == "self" for y in ast.walk(x.value)) and x.targets[0].attr not in stored]
                if not from_self:
                    continue                     # not a copy of self
                bound = {}
                for i, a in enumerate(st.value.args):
                    if i < len(params):
                        bound[params[i]] = ast.unparse(a)
                for k in st.value.keywords:
                    if k.arg:
                        bound[k.arg] = ast.unparse(k.value)
                for x in fills:
                    if x.targets[0].attr in stored:
                        bound[x.targets[0].attr] = ast.unparse(x.value)
                missing = [p for p in stored if bound.get(p) != f"self.{p}"]
                out.append((m, f"{c.name}.{m.name}", v, missing))
    return out


def check_annotation_forwarding(idx: Index, rep, relpaths: Iterable[str], rule: str = "K7.annotation-forwarding") -> int:
    ex = findings(ast.parse(_EXAMPLE))
    if [(q, bool(miss)) for _, q, _, miss in ex] != [("Op._copy_bad", True), ("Op._copy_ok", False)]:
        raise AnalysisError(f"annotation-forwarding rule self-check failed: {[(q, miss) for _, q, _, miss in ex]}")
    n = 0
    for rel in relpaths:
        try:
            m = idx.module_by_relpath(rel)
        except Exception:
            continue
        for node, qual, var, missing in findings(m.tree):
            n += 1
            rep.decide(not missing, rule, (m.relpath, qual), node, text=f"{qual}: `{var}` is built as a copy of self",
                       what="a copy of an annotated operator made through the class constructor carries every annotation the constructor stores",
                       reason=f"{var} is filled from self but {missing} is not taken from self: the copy has the constructor's default there")
    return n
