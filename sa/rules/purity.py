"""K1: a listed entry point cannot write to any object reachable from a protected parameter."""
from __future__ import annotations

from typing import Dict, Iterable, List, Optional, Sequence, Tuple

from ..alias import Analyzer, Event, is_P
from ..index import ClassInfo, FunctionInfo, Index, norm
from ..report import Report


def _prefix(path: Tuple[str, ...], allowed: Iterable[Tuple[str, ...]]) -> bool:
    for a in allowed:
        if path[:len(a)] == tuple(a):
            return True
    return False


def check_purity(idx: Index, rep: Report, an: Analyzer, func: FunctionInfo,
                 protected: Optional[Sequence[str]] = None,
                 allowed: Dict[str, Sequence[Tuple[str, ...]]] = None,
                 rule: str = "K1.purity", self_class: Optional[ClassInfo] = None,
                 what: str = "", label: Optional[str] = None, fresh_result: bool = False) -> List[Event]:
    """One obligation per (function, protected parameter).  `allowed[param]` lists access-path prefixes that
    are documented result channels (writes below them are not violations)."""
    allowed = allowed or {}
    fa = an.analyze(func, self_class)
    params = list(protected) if protected is not None else [p for p in func.params]
    missing = [p for p in params if p not in func.params]
    if missing:
        from ..index import AnalysisError
        raise AnalysisError(f"{func.ref}: protected parameter(s) {missing} not in signature {func.params}")
    bad: List[Event] = []
    qual = label or func.qualname
    where = (func.module.relpath, qual)
    for p in params:
        evs = [e for e in fa.events if is_P(e.obj) and e.obj[1] == p and not _prefix(e.path(), allowed.get(p, ()))]
        # one report per statement: keep the event with the shortest access path
        by_node: Dict[Tuple[int, int, str], Event] = {}
        for e in evs:
            k = (getattr(e.node, "lineno", 0), getattr(e.node, "col_offset", 0), e.fieldname or "")
            if k not in by_node or len(e.obj[2]) < len(by_node[k].obj[2]):
                by_node[k] = e
        if not by_node:
            rep.ok(rule, where, func.node, text=f"{qual}({p})",
                   what=what or f"no store reaches an object reachable from parameter '{p}'")
        for e in by_node.values():
            stmt = _stmt_of(func, e.node)
            rep.violation(rule, where, e.node, text=f"{p}: {norm(stmt)}",
                          what=what or f"parameter '{p}' must be left unchanged",
                          reason=e.describe())
            bad.append(e)
    if fresh_result:
        aliased = sorted({o[1] for o in fa.returned if is_P(o) and o[2] == () and o[1] in params})
        if aliased:
            import ast as _ast
            rets = [n for n in _ast.walk(func.node) if isinstance(n, _ast.Return)]
            rep.violation("K1.fresh-result", where, rets[0] if rets else func.node, text=f"{qual} may return its input {', '.join(aliased)}",
                          what="an out-of-place operation returns a new object, never its input",
                          reason=f"{qual} can return the very object passed as {', '.join(aliased)}: modifying the result then modifies the input")
        else:
            rep.ok("K1.fresh-result", where, func.node, text=f"{qual} returns a new object", what="an out-of-place operation returns a new object, never its input")
    if not fa.complete:
        rep.info(rule, where, func.node, text=f"{qual}: analysis cut", reason="call depth cut at " + ", ".join(sorted(set(fa.cuts))[:5]))
    return bad


def _stmt_of(func: FunctionInfo, node):
    """smallest statement of func containing node"""
    import ast
    best = None
    for s in ast.walk(func.node):
        if isinstance(s, ast.stmt) and s is not func.node:
            for sub in ast.walk(s):
                if sub is node:
                    if best is None or (s.end_lineno - s.lineno) <= (best.end_lineno - best.lineno):
                        best = s
                    break
    if best is None:
        return node
    if isinstance(best, (ast.For, ast.While, ast.If, ast.With, ast.Try)):
        return node
    return best
