"""K2.terms-copied: an operator never receives another operator's term dictionary itself.

Every operator class of the repository (and openfermion's) keeps its terms in a dictionary `terms` that its in-place arithmetic
(`+=`, `*=`, `compress`, ...) modifies.  Wherever the repository builds one operator from another it writes
`new.terms = other.terms.copy()` (eleven sites on the pinned tree, all alike).  The rule makes that the law: an assignment whose target is
`<x>.terms` and whose value is the bare attribute `<y>.terms` of a *different* object shares the dictionary, so an in-place operation on
either operator silently changes the other (a property that hands out `self.terms` this way lets callers rewrite the stored operator)."""
from __future__ import annotations

import ast
from typing import Iterable

from ..index import AnalysisError, Index, norm

_EXAMPLE = '''
class B:
    def __init__(self, terms, n):
        self.terms = terms
    @classmethod
    def from_op(cls, op):
        return cls(op.terms, 3)
    @classmethod
    def from_op_ok(cls, op):
        return cls(op.terms.copy(), 3)
class A:
    @property
    def qubitoperator(self):
        q = QubitOperator()
        q.terms = self.terms
        return q
    def ok(self):
        q = QubitOperator()
        q.terms = self.terms.copy()
        r = QubitOperator()
        r.terms = dict(self.terms)
        self.terms = self.terms
        return q, r
'''


def findings(tree: ast.AST):
    out = []
    # constructors of this module that keep a parameter as their term dictionary: which parameter (position, name)
    keeps = {}
    for c in ast.walk(tree):
        if isinstance(c, ast.ClassDef):
            for m in c.body:
                if isinstance(m, ast.FunctionDef) and m.name == "__init__":
                    ps = [a.arg for a in m.args.args][1:]
                    for n in ast.walk(m):
                        if isinstance(n, ast.Assign) and len(n.targets) == 1 and norm(n.targets[0]) == "self.terms" and isinstance(n.value, ast.Name) and n.value.id in ps:
                            keeps[c.name] = (ps.index(n.value.id), n.value.id)
    for c in ast.walk(tree):
        if isinstance(c, ast.ClassDef):
            for m in ast.walk(c):
                if not isinstance(m, (ast.FunctionDef, ast.AsyncFunctionDef)):
                    continue
                for call in ast.walk(m):
                    if not isinstance(call, ast.Call):
                        continue
                    target = c.name if norm(call.func) == "cls" else (norm(call.func) if norm(call.func) in keeps else None)
                    if target not in keeps:
                        continue
                    pos, pname = keeps[target]
                    arg = call.args[pos] if pos < len(call.args) else next((k.value for k in call.keywords if k.arg == pname), None)
                    if isinstance(arg, ast.Attribute) and arg.attr == "terms":
                        out.append((m, call))
    for fn in ast.walk(tree):
        if not isinstance(fn, (ast.FunctionDef, ast.AsyncFunctionDef)):
            continue
        for n in ast.walk(fn):
            if isinstance(n, ast.Assign) and len(n.targets) == 1 and isinstance(n.targets[0], ast.Attribute) and n.targets[0].attr == "terms":
                v = n.value
                if isinstance(v, ast.Attribute) and v.attr == "terms" and norm(v.value) != norm(n.targets[0].value):
                    out.append((fn, n))
    return out


def check_terms_copied(idx: Index, rep, relpaths: Iterable[str], rule: str = "K2.terms-copied"):
    ex = findings(ast.parse(_EXAMPLE))
    if sorted(f.name for f, _ in ex) != ["from_op", "qubitoperator"]:
        raise AnalysisError(f"terms-copied rule self-check failed: built-in example reports {[f.name for f, _ in ex]}")
    n_sites = 0
    for rel in relpaths:
        try:
            m = idx.module_by_relpath(rel)
        except Exception:
            continue
        hits = findings(m.tree)
        sites = sum(1 for fn in ast.walk(m.tree) if isinstance(fn, ast.Assign) and len(fn.targets) == 1 and isinstance(fn.targets[0], ast.Attribute) and fn.targets[0].attr == "terms")
        n_sites += sites
        for fn, node in hits:
            rep.violation(rule, (m.relpath, fn.name), node, text=f"{fn.name}: {norm(node)[:80]}", what="an operator built from another one gets a copy of its term dictionary",
                          reason=f"`{norm(node)[:80]}` hands the other operator's own dictionary to the new operator: in-place arithmetic on either operator changes both")
        if sites:
            rep.ok(rule, (m.relpath, "<module>"), None, text=f"{rel}: {sites} assignment(s) to a term dictionary, {len(hits)} sharing it",
                   what="an operator built from another one gets a copy of its term dictionary")
    return n_sites
