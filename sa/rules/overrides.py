"""K8.override-restored: an attribute of `self` that a method saves, overwrites for the duration of a call and writes back afterwards is written back on
EVERY way out of the method - the exceptional ones included.  `old, self.x = self.x, tmp ... call() ... self.x = old` leaves the object in its temporary
state when the call raises (a refused argument is enough); the next call on the same object then runs with the temporary value."""
from __future__ import annotations
import ast
from typing import Iterable
from ..cfg import CFG
from ..index import AnalysisError, Index, norm, own_nodes


def _saves(fnode):
    """(saved name, attribute text, save statement) for `t = self.x` and for the tuple form `t, self.x = self.x, v`"""
    out = []
    for st in own_nodes(fnode):
        if not isinstance(st, ast.Assign) or len(st.targets) != 1:
            continue
        t, v = st.targets[0], st.value
        if isinstance(t, ast.Name) and isinstance(v, ast.Attribute) and norm(v).startswith("self."):
            out.append((t.id, norm(v), st, False))
        if isinstance(t, ast.Tuple) and isinstance(v, ast.Tuple) and len(t.elts) == len(v.elts):
            for a, b in zip(t.elts, v.elts):
                if isinstance(a, ast.Name) and isinstance(b, ast.Attribute) and norm(b).startswith("self.") and any(norm(x) == norm(b) for x in t.elts):
                    out.append((a.id, norm(b), st, True))
    return out


def check_overrides_restored(idx: Index, rep, relpaths: Iterable[str], rule: str = "K8.override-restored") -> int:
    ex = ast.parse("class C:\n    def f(self):\n        old, self.n = self.n, None\n        self.g()\n        self.n = old\n"
                   "    def h(self):\n        old = self.n\n        self.n = None\n        try:\n            self.g()\n        finally:\n            self.n = old\n")
    got = [bool(_unrestored(m)) for m in ex.body[0].body]
    if got != [True, False]:
        raise AnalysisError(f"override rule self-check failed: {got}")
    n = 0
    for rel in relpaths:
        try:
            m = idx.module_by_relpath(rel)
        except Exception:
            continue
        for f in m.functions.values():
            for name, attr, st, _ in _saves(f.node):
                restores = [r for r in own_nodes(f.node) if isinstance(r, ast.Assign) and any(norm(t) == attr for t in r.targets) and isinstance(r.value, ast.Name) and r.value.id == name]
                if not restores:
                    continue
                n += 1
                bad = _unrestored(f.node, only=(name, attr))
                rep.decide(not bad, rule, f, st, text=f"{f.qualname}: {attr} saved in `{name}`, overridden and written back",
                           what="an attribute overridden for the duration of a call is written back on every way out of the method, exceptions included",
                           reason=f"a call between the override and `{attr} = {name}` can raise past the write-back (it is not in a finally clause): the object keeps the temporary value "
                                  f"and later calls on it silently run with it")
    return n


def _unrestored(fnode, only=None):
    g = CFG(fnode, exc_edges=True)
    out = []
    for name, attr, st, tuple_form in _saves(fnode):
        if only is not None and (name, attr) != only:
            continue
        restores = [r for r in own_nodes(fnode) if isinstance(r, ast.Assign) and any(norm(t) == attr for t in r.targets) and isinstance(r.value, ast.Name) and r.value.id == name]
        if not restores:
            continue
        overrides = [st] if tuple_form else [o for o in own_nodes(fnode) if isinstance(o, ast.Assign) and any(norm(t) == attr for t in o.targets) and o not in restores and o.lineno > st.lineno]
        via = [g.node_for(r) for r in restores]
        for o in overrides:
            oid = g.node_for(o)
            # successors of the override: the statements that run while the attribute holds the temporary value
            for succ in g.g.successors(oid):
                if succ in via:
                    continue
                if g.path_exists(succ, g.raise_exit.id, avoid=via) or succ == g.raise_exit.id:
                    out.append((o, attr))
                    break
    return out
