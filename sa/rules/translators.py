"""Extraction of the gate-dispatch chains of the circuit translators (rule kinds K3/K4/K5).

A *writer* is a function translate_c_to_<fmt>(source_circuit, ...) (plus translate_tableau) that loops over the
gates of its source circuit and dispatches on ``gate.name`` through an if/elif chain of literal name sets.
A *reader* is translate_c_from_<fmt>(...) that builds ``Gate(...)`` objects from a foreign description through a
similar chain over a local name variable.
"""
from __future__ import annotations

import ast
from dataclasses import dataclass, field
from typing import Dict, FrozenSet, List, Optional, Set, Tuple

from ..index import AnalysisError, FunctionInfo, Index, const_str_set, norm, own_nodes

TRANSLATOR_DIR = "tangelo/linq/translator/"


@dataclass
class Branch:
    names: FrozenSet[str]
    node: ast.If
    body: List[ast.stmt]
    extra: List[ast.AST] = field(default_factory=list)     # further conjuncts of the test

    @property
    def lineno(self):
        return self.node.lineno


@dataclass
class Dispatch:
    func: FunctionInfo
    loop: ast.For
    var: str                        # loop variable holding the gate
    subject: str                    # normalised dispatch subject, e.g. "gate.name"
    branches: List[Branch]
    final_else: List[ast.stmt]      # statements of the last else (empty when absent)
    pre: List[ast.stmt]             # statements of the loop body before the chain
    post: List[ast.stmt]            # statements of the loop body after the chain
    chain: ast.If = None

    @property
    def fmt(self) -> str:
        return self.func.name.replace("translate_c_to_", "").replace("translate_c_from_", "").replace("translate_", "")

    def ends_in_raise(self) -> bool:
        return bool(self.final_else) and any(isinstance(s, ast.Raise) for s in self.final_else)

    def all_names(self) -> Set[str]:
        out: Set[str] = set()
        for b in self.branches:
            out |= b.names
        return out


def _name_test(test: ast.AST, subject_pred) -> Optional[Tuple[FrozenSet[str], str, List[ast.AST]]]:
    """recognise `S in {..}` / `S == ".."` possibly conjoined with other conditions; returns (names, subject, extra)"""
    conj = test.values if isinstance(test, ast.BoolOp) and isinstance(test.op, ast.And) else [test]
    names = None
    subj = None
    extra = []
    for c in conj:
        got = None
        if isinstance(c, ast.Compare) and len(c.ops) == 1:
            if isinstance(c.ops[0], ast.In):
                s = const_str_set(c.comparators[0])
                if s is not None and subject_pred(c.left):
                    got = (s, norm(c.left))
            elif isinstance(c.ops[0], ast.Eq):
                s = const_str_set(c.comparators[0])
                if s is not None and isinstance(c.comparators[0], ast.Constant) and subject_pred(c.left):
                    got = (s, norm(c.left))
        if got and names is None:
            names, subj = got
        else:
            extra.append(c)
    if names is None:
        return None
    return names, subj, extra


def _chain_from(stmt: ast.If, subject_pred) -> Optional[Tuple[List[Branch], List[ast.stmt], str]]:
    branches: List[Branch] = []
    cur = stmt
    subject = None
    final_else: List[ast.stmt] = []
    while True:
        r = _name_test(cur.test, subject_pred)
        if r is None:
            return None
        names, subj, extra = r
        if subject is None:
            subject = subj
        elif subj != subject:
            return None
        branches.append(Branch(names, cur, cur.body, extra))
        if len(cur.orelse) == 1 and isinstance(cur.orelse[0], ast.If) and _name_test(cur.orelse[0].test, subject_pred) is not None:
            cur = cur.orelse[0]
            continue
        final_else = cur.orelse
        break
    return branches, final_else, subject


def _gate_loops(f: FunctionInfo) -> List[ast.For]:
    return [n for n in own_nodes(f.node) if isinstance(n, ast.For)]


def extract_writer(f: FunctionInfo) -> Optional[Dispatch]:
    best = None
    for loop in _gate_loops(f):
        if not isinstance(loop.target, ast.Name):
            continue
        var = loop.target.id
        # the dispatch subject is gate.name, or a local name initialised from gate.name in the loop body
        # (so that a multi-controlled CNOT can be re-dispatched as CX without writing to the source gate)
        local_names = set()
        for st in loop.body:
            for n in ast.walk(st):
                if isinstance(n, ast.Assign) and len(n.targets) == 1 and isinstance(n.targets[0], ast.Name) and \
                        isinstance(n.value, ast.Attribute) and n.value.attr == "name" and isinstance(n.value.value, ast.Name) \
                        and n.value.value.id == var:
                    local_names.add(n.targets[0].id)

        def pred(e, var=var, local_names=local_names):
            if isinstance(e, ast.Name) and e.id in local_names:
                return True
            return isinstance(e, ast.Attribute) and e.attr == "name" and isinstance(e.value, ast.Name) and e.value.id == var
        for i, st in enumerate(loop.body):
            if isinstance(st, ast.If):
                r = _chain_from(st, pred)
                if r is not None and len(r[0]) >= 3:
                    d = Dispatch(f, loop, var, r[2], r[0], r[1], loop.body[:i], loop.body[i + 1:], st)
                    if best is None or len(d.branches) > len(best.branches):
                        best = d
    return best


def extract_reader(f: FunctionInfo) -> Optional[Dispatch]:
    best = None
    for loop in _gate_loops(f):
        def pred(e):
            return isinstance(e, ast.Name)
        for i, st in enumerate(loop.body):
            if isinstance(st, ast.If):
                r = _chain_from(st, pred)
                if r is not None and len(r[0]) >= 3:
                    var = ""
                    d = Dispatch(f, loop, var, r[2], r[0], r[1], loop.body[:i], loop.body[i + 1:], st)
                    if best is None or len(d.branches) > len(best.branches):
                        best = d
    return best


def writer_functions(idx: Index) -> List[FunctionInfo]:
    out = []
    for m in idx.modules.values():
        if not m.relpath.startswith(TRANSLATOR_DIR + "translate_"):
            continue
        for name, f in sorted(m.functions.items()):
            if "." in name:
                continue
            if name.startswith("translate_c_to_") or name == "translate_tableau":
                out.append(f)
    return out


def reader_functions(idx: Index) -> List[FunctionInfo]:
    out = []
    for m in idx.modules.values():
        if not m.relpath.startswith(TRANSLATOR_DIR + "translate_"):
            continue
        for name, f in sorted(m.functions.items()):
            if "." not in name and name.startswith("translate_c_from_"):
                out.append(f)
    return out


def writer_dispatches(idx: Index) -> List[Dispatch]:
    out = []
    for f in writer_functions(idx):
        d = extract_writer(f)
        if d is not None:
            out.append(d)
    return out


def reader_dispatches(idx: Index) -> List[Dispatch]:
    out = []
    for f in reader_functions(idx):
        d = extract_reader(f)
        if d is not None:
            out.append(d)
    return out


# ---------------------------------------------------------------------------
# operand usage inside a branch
# ---------------------------------------------------------------------------

def _field_uses(stmts: List[ast.stmt], var: str, fld: str) -> Tuple[Set[int], bool, List[ast.AST]]:
    """(constant subscripts used on var.fld, whether var.fld is used as a whole, the whole-use nodes)"""
    idxs: Set[int] = set()
    whole_nodes: List[ast.AST] = []
    sub_parents: Set[int] = set()
    for st in stmts:
        for n in ast.walk(st):
            if isinstance(n, ast.Subscript) and isinstance(n.value, ast.Attribute) and n.value.attr == fld and \
                    isinstance(n.value.value, ast.Name) and n.value.value.id == var:
                sub_parents.add(id(n.value))
                if isinstance(n.slice, ast.Constant) and isinstance(n.slice.value, int):
                    idxs.add(n.slice.value)
                else:
                    whole_nodes.append(n)
    for st in stmts:
        for n in ast.walk(st):
            if isinstance(n, ast.Attribute) and n.attr == fld and isinstance(n.value, ast.Name) and n.value.id == var \
                    and id(n) not in sub_parents:
                whole_nodes.append(n)
    return idxs, bool(whole_nodes), whole_nodes


def target_indices_used(br: Branch, var: str = "gate") -> Set[int]:
    return _field_uses(br.body, var, "target")[0]


def uses_whole_target(br: Branch, var: str = "gate") -> bool:
    return _field_uses(br.body, var, "target")[1]


def control_indices_used(br: Branch, var: str = "gate") -> Set[int]:
    return _field_uses(br.body, var, "control")[0]


def uses_whole_control(br: Branch, var: str = "gate") -> bool:
    return _field_uses(br.body, var, "control")[1]


def derived_vars(stmts: List[ast.stmt], var: str, fld: str) -> Dict[str, str]:
    """local variables computed from the *whole* list var.fld in `stmts` (e.g. control_list, num_controls):
    name -> 'whole' | 'len'"""
    out: Dict[str, str] = {}
    for st in stmts:
        for n in ast.walk(st):
            if isinstance(n, ast.Assign) and len(n.targets) == 1 and isinstance(n.targets[0], ast.Name):
                idxs, whole, nodes = _field_uses([ast.Expr(n.value)], var, fld)
                if whole:
                    v = n.value
                    kind = "len" if isinstance(v, ast.Call) and isinstance(v.func, ast.Name) and v.func.id == "len" else "whole"
                    out[n.targets[0].id] = kind
            elif isinstance(n, ast.AugAssign) and isinstance(n.target, ast.Name):
                idxs, whole, nodes = _field_uses([ast.Expr(n.value)], var, fld)
                if whole or any(isinstance(x, ast.Name) and x.id in out for x in ast.walk(n.value)):
                    out.setdefault(n.target.id, "whole")
            elif isinstance(n, ast.For):
                idxs, whole, nodes = _field_uses([ast.Expr(n.iter)], var, fld)
                if whole:
                    # variables accumulated inside a loop over the whole list
                    for sub in ast.walk(n):
                        if isinstance(sub, ast.AugAssign) and isinstance(sub.target, ast.Name):
                            out.setdefault(sub.target.id, "whole")
    return out
