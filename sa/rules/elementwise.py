"""K11.elementwise: numpy's element-wise comparison idiom is applied only to values known to be arrays.

`np.flatnonzero(x == c)`, `np.where(x == c)`, `np.nonzero(x != c)`, `np.count_nonzero(x > c)`, `np.argwhere(...)` and boolean indexing
`y[x == c]` rely on `x == c` being evaluated element by element.  That is true for numpy arrays; for a Python list or tuple `x == c` is a
single bool and the idiom silently selects nothing (or everything).  The rule reports the idiom when `x` is a bare parameter of the function
that is documented or used as a general sequence - i.e. the function neither converts it (`np.array`, `np.asarray`, `np.asanyarray`,
`np.atleast_1d`, `.astype`, `.copy()` of an array) nor receives it annotated as an ndarray - before the comparison.  A parameter whose docstring entry names an array type only is taken at its word."""
from __future__ import annotations

import ast
from typing import Iterable

from ..index import AnalysisError, Index, norm

SELECTORS = {"np.flatnonzero", "np.where", "np.nonzero", "np.count_nonzero", "np.argwhere", "numpy.flatnonzero", "numpy.where", "numpy.nonzero", "np.any", "np.all"}
CONVERTERS = ("np.array", "np.asarray", "np.asanyarray", "np.atleast_1d", "numpy.array", "numpy.asarray", "np.concatenate", "np.zeros", "np.ones")

_EXAMPLE = '''
import numpy as np
def bad(vector):
    out = []
    for i in np.flatnonzero(vector == 1):
        out.append(i)
    return out
def good(vector):
    vector = np.asarray(vector)
    return np.flatnonzero(vector == 1)
def also_good(vector: np.ndarray):
    return np.flatnonzero(vector == 1)
'''


def findings(tree: ast.AST):
    out = []
    for fn in ast.walk(tree):
        if not isinstance(fn, (ast.FunctionDef, ast.AsyncFunctionDef)):
            continue
        ann = {a.arg: (norm(a.annotation) if a.annotation is not None else "") for a in fn.args.posonlyargs + fn.args.args + fn.args.kwonlyargs}
        params = set(ann) - {"self", "cls"}
        converted = {}
        for n in ast.walk(fn):
            if isinstance(n, ast.Assign) and len(n.targets) == 1 and isinstance(n.targets[0], ast.Name) and isinstance(n.value, ast.Call):
                f = norm(n.value.func)
                if f in CONVERTERS or f.endswith((".astype", ".reshape", ".flatten")):
                    converted.setdefault(n.targets[0].id, n.lineno)

        def elementwise_param(e):
            if isinstance(e, ast.Compare) and len(e.ops) == 1 and isinstance(e.ops[0], (ast.Eq, ast.NotEq, ast.Gt, ast.GtE, ast.Lt, ast.LtE)):
                for side, other in ((e.left, e.comparators[0]), (e.comparators[0], e.left)):
                    if isinstance(side, ast.Name) and side.id in params and isinstance(other, ast.Constant) and isinstance(other.value, (int, float)) and not isinstance(other.value, bool):
                        return side.id
            return None
        for n in ast.walk(fn):
            name = None
            if isinstance(n, ast.Call) and norm(n.func) in SELECTORS and n.args:
                name = elementwise_param(n.args[0])
            elif isinstance(n, ast.Subscript) and not isinstance(n.ctx, ast.Store):
                name = elementwise_param(n.slice)
            if name is None:
                continue
            if "ndarray" in ann.get(name, "") or "np.array" in ann.get(name, ""):
                continue
            # documented type: a parameter documented as an array only (no list / tuple / sequence) is taken at its word
            doc = ast.get_docstring(fn) or ""
            import re as _re
            mdoc = _re.search(r"^\s*" + _re.escape(name) + r"\s*\(([^)]*)\)", doc, _re.M)
            if mdoc:
                t = mdoc.group(1).lower()
                if ("array" in t or "ndarray" in t) and not any(w in t for w in ("list", "tuple", "sequence", "iterable")):
                    continue
            if name in converted and converted[name] <= n.lineno:
                continue
            out.append((fn, n, name))
    return out


def check_elementwise(idx: Index, rep, relpaths: Iterable[str], rule: str = "K11.elementwise"):
    ex = findings(ast.parse(_EXAMPLE))
    if [f.name for f, _, _ in ex] != ["bad"]:
        raise AnalysisError(f"elementwise rule self-check failed: built-in example reports {[f.name for f, _, _ in ex]}")
    n = 0
    for rel in relpaths:
        try:
            m = idx.module_by_relpath(rel)
        except Exception:
            continue
        hits = findings(m.tree)
        n += len(hits)
        for fn, node, name in hits:
            rep.violation(rule, (m.relpath, fn.name), node, text=f"{fn.name}: {norm(node)[:70]}",
                          what="numpy's element-wise comparison idiom is applied only to values known to be arrays",
                          reason=f"`{name}` is a parameter that is neither converted to an array nor annotated as one before `{norm(node)[:50]}`: for a list or tuple the comparison is a "
                                 f"single bool and the selection is silently empty (or complete)")
        rep.ok(rule, (m.relpath, "<module>"), None, text=f"{rel}: scanned for element-wise comparisons on unconverted parameters ({len(hits)} found)",
               what="numpy's element-wise comparison idiom is applied only to values known to be arrays", nontrivial=False)
    return n
