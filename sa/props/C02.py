"""C02 Expectation values equal <psi|H|psi> on every evaluation path (structural part).

C02.a K9  measurement-basis table: folded rows X, Y, Z, I; for each rotation U emitted before measuring, U^dagger Z U equals the
          Pauli being measured (exact 2x2 algebra); anything else raises
C02.b K7  forwarding in Backend: every evaluation entry point hands initial_statevector and desired_meas_result to every
          simulate / get_* / _get_* call it makes, unless the call continues from a state that was itself prepared with both
          (the "prepare once, then rotate" idiom) - decided per call from the reaching definitions of the state argument
C02.c K8  the expectation and the variance routes agree on: path predicate, preamble, basis-circuit construction and the
          arguments of the per-term simulation
C02.d K3  route selection in get_expectation_value / get_variance is total over its named atoms (no configuration falls
          through to an implicit None) and complex coefficients are split into real and imaginary parts with both forwarded
C02.e K9  the parity skeleton of the per-term estimator: mask marks exactly the qubits of the term, sample = (-1)^popcount(mask & state)
"""
from __future__ import annotations

import ast
import copy
import itertools
from typing import Dict, List, Optional, Set, Tuple

import sympy as sp

from ..consteval import Folder, Opaque, Raised, Rec, Undecidable
from ..index import AnalysisError, FunctionInfo, Index, full, norm, own_nodes, resolve_local
from ..report import Report
from ..rules import siblings as sib
from .. import symx

BACKEND = "tangelo/linq/target/backend.py"
MB = "tangelo/linq/helpers/circuits/measurement_basis.py"
STATE_PARAMS = ("initial_statevector", "desired_meas_result")
ENTRY_POINTS = ["get_expectation_value", "get_variance", "get_standard_error", "_get_expectation_value_from_statevector",
                "_get_expectation_value_from_frequencies", "_get_variance_from_frequencies"]


def run(idx: Index, rep: Report, tier: str):
    rep.explain("C02 structural part: measurement-basis rotations folded and checked exactly (U^dagger Z U = P); forwarding of the two "
                "state-selecting parameters through every evaluation route of Backend, with the consuming idiom recognised from "
                "reaching definitions; sibling agreement of expectation and variance routes; totality of the route selection; "
                "skeleton of the parity estimator.")
    rep.trust("CPython ast", "sa.consteval folding subset", "sympy exact 2x2 algebra", "reference gate matrices in sa/symx.py")
    rep.assume("numerical equality with <psi|H|psi>, sampling statistics and the backend-native expectation (cirq) are not decided")
    check_basis_table(idx, rep)
    check_forwarding(idx, rep, tier)
    check_stateless_evaluation(idx, rep, tier)        # before the route table: a memo adds a predicate the table does not know (exit 2) - the memo itself is the report
    check_sibling_routes(idx, rep)
    check_parity_skeleton(idx, rep)
    check_route_totality(idx, rep)
    from ..rules.chunks import check_chunk_sum
    check_chunk_sum(rep, "K9.shot-conservation", idx.function(f"{BACKEND}::Backend._statevector_to_frequencies"), "self.n_shots")


# ---------------------------------------------------------------------------------------------------
def check_basis_table(idx: Index, rep: Report):
    rule = "K9.measurement-basis"
    f = idx.function(f"{MB}::measurement_basis_gates")
    for p in ("X", "Y", "Z", "I"):
        fo = Folder(env={"np": None})
        fo.env.pop("np")
        fo.env["np.pi"] = sp.pi
        try:
            gates = fo.run_function(f.node, {"term": [(2, p)]})
        except Raised as r:
            rep.violation(rule, f, r.node, text=f"basis change for {p}", what=f"{p} can be measured", reason=f"raises {r.exc_type} for {p}")
            continue
        except Undecidable as u:
            raise AnalysisError(f"measurement_basis_gates not foldable: {u}")
        u_mat = sp.eye(2)
        ok_q = True
        for g in gates:
            u_mat = symx.gate_matrix(g.fields["name"], g.fields["parameter"]) * u_mat
            tgt = g.fields["target"]
            ok_q = ok_q and (tgt == 2 or tgt == [2]) and g.fields["control"] is None
        lhs = sp.simplify(u_mat.H * symx.Z * u_mat)
        want = symx.PAULI[p] if p != "I" else symx.Z       # I: nothing applied; the term mask excludes the qubit
        ok = symx.matrix_equal(lhs, want) and ok_q
        if p == "I":
            ok = len(gates) == 0
        rep.decide(ok, rule, f, f.node, text=f"{p}: {[ (g.fields['name'], g.fields['parameter']) for g in gates]}",
                   what=f"the rotation applied before a computational-basis measurement turns Z into {p} (U^dagger Z U = {p}), on the term's own qubit",
                   reason=f"U^dagger Z U = {lhs.tolist()} for {p}")
    fo = Folder()
    try:
        fo.run_function(f.node, {"term": [(0, "Q")]})
        rep.violation(rule, f, f.node, text="unknown Pauli refused", what="an unknown Pauli letter is refused", reason="no error for letter 'Q'")
    except Raised:
        rep.ok(rule, f, f.node, text="unknown Pauli refused", what="an unknown Pauli letter is refused")
    except Undecidable as u:
        raise AnalysisError(f"measurement_basis_gates not foldable: {u}")
    # multi-qubit terms: one rotation per non-diagonal factor, in term order
    fo = Folder()
    fo.env["np.pi"] = sp.pi
    gates = fo.run_function(f.node, {"term": [(0, "X"), (3, "Z"), (5, "Y")]})
    ok = [(g.fields["name"], g.fields["target"]) for g in gates] in ([("RY", 0), ("RX", 5)], [("RY", [0]), ("RX", [5])])
    rep.decide(ok, rule, f, f.node, text="X0 Z3 Y5 -> RY on 0, RX on 5", what="each factor of a word gets its own rotation on its own qubit",
               reason=f"rotations {[(g.fields['name'], g.fields['target']) for g in gates]}")


# ---------------------------------------------------------------------------------------------------
def _reaching_defs(f: FunctionInfo, var: str) -> List[ast.AST]:
    """value expressions assigned to `var` anywhere in f (tuple unpacking returns the whole right-hand side)"""
    out = []
    for n in own_nodes(f.node):
        if isinstance(n, ast.Assign):
            for t in n.targets:
                if isinstance(t, ast.Name) and t.id == var:
                    out.append(n.value)
                elif isinstance(t, (ast.Tuple, ast.List)) and any(isinstance(e, ast.Name) and e.id == var for e in t.elts):
                    out.append(n.value)
    return out


def _bare_names(e: ast.AST) -> Set[str]:
    """names used as objects in e (uses that only read a scalar property such as X.width are not counted)"""
    skip = set()
    for n in ast.walk(e):
        if isinstance(n, ast.Attribute) and n.attr in ("width", "size", "n_qubits") and isinstance(n.value, ast.Name):
            skip.add(id(n.value))
    return {n.id for n in ast.walk(e) if isinstance(n, ast.Name) and id(n) not in skip}


def _is_forwarding_simulate(f: FunctionInfo, e: ast.AST, have: Set[str]) -> bool:
    if not (isinstance(e, ast.Call) and norm(e.func) == "self.simulate"):
        return False
    kws = {k.arg: norm(k.value) for k in e.keywords}
    return all(kws.get(q) == q for q in have)


def _callee_params(idx: Index, backend, name: str) -> Optional[List[str]]:
    m = backend.methods.get(name)
    return m.positional[1:] if m else None


def check_forwarding(idx: Index, rep: Report, tier: str):
    rule = "K7.state-forwarding"
    backend = idx.cls(f"{BACKEND}::Backend")
    n = 0
    for ep in ENTRY_POINTS:
        f = backend.methods.get(ep)
        if f is None:
            raise AnalysisError(f"Backend.{ep} not found")
        have = {q for q in STATE_PARAMS if q in f.params}
        if not have:
            raise AnalysisError(f"Backend.{ep} has none of {STATE_PARAMS}")
        state_circ = "state_prep_circuit"
        for c in [c for c in own_nodes(f.node) if isinstance(c, ast.Call) and isinstance(c.func, ast.Attribute)
                  and isinstance(c.func.value, ast.Name) and c.func.value.id == "self"]:
            cname = c.func.attr
            cparams = _callee_params(idx, backend, cname)
            if cparams is None or not (set(cparams) & set(STATE_PARAMS)):
                continue
            bound = sib.bound_args(c, cparams)
            for q in sorted(have):
                if q not in cparams:
                    continue
                n += 1
                got = norm(bound[q]) if q in bound else None
                label = f"{ep}: self.{cname}(...) {q}={got}"
                if got == q:
                    rep.ok(rule, f, c, text=label, what=f"{q} is forwarded unchanged")
                    continue
                # consuming idiom: continuation from a state prepared with every state parameter
                sv_arg = bound.get("initial_statevector")
                consumed = False
                if isinstance(sv_arg, ast.Name) and sv_arg.id != "initial_statevector":
                    defs = _reaching_defs(f, sv_arg.id)
                    circ_arg = bound.get("source_circuit") or bound.get("state_prep_circuit")
                    circ_from_prep = circ_arg is not None and state_circ in _bare_names(circ_arg)
                    if isinstance(circ_arg, ast.Name) and circ_arg.id != state_circ:
                        # circuit variable: may it contain the state preparation circuit?
                        for dv in _reaching_defs(f, circ_arg.id):
                            names = _bare_names(dv)
                            if state_circ in names:
                                circ_from_prep = True
                            for nm in names - {state_circ}:
                                for dv2 in _reaching_defs(f, nm):
                                    if state_circ in _bare_names(dv2):
                                        circ_from_prep = True
                    if q == "initial_statevector":
                        # the state argument is the caller's vector itself or a state prepared from it
                        consumed = bool(defs) and all(_is_forwarding_simulate(f, dv, have) or (isinstance(dv, ast.Name) and dv.id == q) for dv in defs)
                    else:
                        consumed = bool(defs) and all(_is_forwarding_simulate(f, dv, have) for dv in defs) and not circ_from_prep
                if consumed:
                    rep.ok(rule, f, c, text=label + " (continues from the prepared state)",
                           what=f"the call starts from a state that was prepared with {sorted(have)}; {q} is already accounted for")
                else:
                    rep.violation(rule, f, c, text=label,
                                  what=f"{q} selects the state whose expectation is taken: it is forwarded to every nested evaluation",
                                  reason=f"Backend.{ep} calls self.{cname} with {q}={got}; the call can run the state-preparation circuit itself "
                                         f"(its state argument is not exclusively a state prepared with {q}), so the value supplied by the caller is dropped")
    rep.floor("state-forwarding obligations", n, 20)


# ---------------------------------------------------------------------------------------------------
def check_sibling_routes(idx: Index, rep: Report):
    rule = "K8.expectation-variance"
    a = idx.function(f"{BACKEND}::Backend._get_expectation_value_from_frequencies")
    b = idx.function(f"{BACKEND}::Backend._get_variance_from_frequencies")

    def preamble(f):
        """what the part before the term loop decides, independent of how it is laid out (a try/finally around the call, a local for an argument): the route
        predicates, the state-preparing simulate calls with their bound arguments, and what the two route variables are set to"""
        tests, calls, sets = [], [], []
        for s_ in f.node.body:
            if isinstance(s_, ast.For):
                break
            for n_ in ast.walk(s_):
                if isinstance(n_, ast.If):
                    tests.append(norm(n_.test))
                elif isinstance(n_, ast.Call) and norm(n_.func) == "self.simulate":
                    calls.append(norm(n_.func) + "(" + ", ".join([norm(x) for x in n_.args] + sorted(f"{k.arg}={norm(k.value)}" for k in n_.keywords)) + ")")
                elif isinstance(n_, ast.Assign) and any(norm(t) in ("initial_circuit", "updated_statevector") for t in n_.targets) and not isinstance(n_.value, ast.Call):
                    sets.append(f"{norm(n_.targets[0])} = {norm(n_.value)}")
                elif isinstance(n_, ast.Raise):
                    sets.append("raise " + (norm(n_.exc.func) if isinstance(n_.exc, ast.Call) else norm(n_.exc) if n_.exc else ""))
        return sorted(tests) + sorted(calls) + sorted(sets)
    pa, pb = preamble(a), preamble(b)
    rep.decide(pa == pb, rule, b, b.node, text="preamble of the frequency routes",
               what="expectation and variance prepare the state under the same predicate and with the same arguments",
               reason=f"statements differ: {[x for x in pa if x not in pb][:2]} vs {[x for x in pb if x not in pa][:2]}")

    def loop_parts(f):
        loop = [s for s in f.node.body if isinstance(s, ast.For)]
        if not loop:
            raise AnalysisError(f"{f.ref}: term loop not found")
        parts = {}
        for n in ast.walk(loop[0]):
            if isinstance(n, ast.Assign) and isinstance(n.targets[0], ast.Name) and n.targets[0].id in ("basis_circuit", "full_circuit"):
                v = copy.deepcopy(n.value)
                for sub in ast.walk(v):             # values handed on through locals are the same values
                    for fld, val in ast.iter_fields(sub):
                        if isinstance(val, list):
                            for i_, x in enumerate(val):
                                if isinstance(x, ast.Name) and x.id not in ("basis_circuit", "initial_circuit", "term"):
                                    val[i_] = resolve_local(f.node, x)
                        elif isinstance(val, ast.Name) and val.id not in ("basis_circuit", "initial_circuit", "term"):
                            setattr(sub, fld, resolve_local(f.node, val))
                parts[n.targets[0].id] = norm(v)
            if isinstance(n, ast.Call) and norm(n.func) == "self.simulate":
                parts["simulate"] = norm(n.func) + "(" + ", ".join([norm(a) for a in n.args] + sorted(f"{k.arg}={norm(k.value)}" for k in n.keywords)) + ")"
        parts["iter"] = norm(loop[0].iter)
        return parts
    la, lb = loop_parts(a), loop_parts(b)
    for k in ("iter", "basis_circuit", "full_circuit", "simulate"):
        rep.decide(la.get(k) == lb.get(k), rule, b, b.node, text=f"per-term {k}",
                   what=f"expectation and variance build the per-term {k} identically", reason=f"expectation: {la.get(k)} / variance: {lb.get(k)}")
    # top-level entry points: same width check and complex-coefficient test
    ea = idx.function(f"{BACKEND}::Backend.get_expectation_value")
    eb = idx.function(f"{BACKEND}::Backend.get_variance")

    def head(f):
        out = []
        for s in f.node.body:
            if isinstance(s, ast.Expr) and isinstance(s.value, ast.Constant):
                continue
            if isinstance(s, ast.If) and "are_coefficients_real" in norm(s.test):
                break
            out.append(full(s))
        return out
    rep.decide(head(ea) == head(eb), rule, eb, eb.node, text="validation head of get_expectation_value / get_variance",
               what="both entry points validate the operator against the circuit width and classify coefficients the same way",
               reason="the validation heads differ")


# ---------------------------------------------------------------------------------------------------
ATOMS = {"self._noise_model": "noise", "self.statevector_available": "sv", "self.n_shots is not None": "shots",
         "state_prep_circuit.is_mixed_state": "mixed", "state_prep_circuit.size == 0": "empty", "are_coefficients_real": "real"}


def _tv(t: ast.AST, a: Dict[str, bool]) -> bool:
    if isinstance(t, ast.BoolOp):
        vals = [_tv(v, a) for v in t.values]
        return all(vals) if isinstance(t.op, ast.And) else any(vals)
    if isinstance(t, ast.UnaryOp) and isinstance(t.op, ast.Not):
        return not _tv(t.operand, a)
    txt = norm(t)
    if txt in ATOMS:
        return a[ATOMS[txt]]
    raise AnalysisError(f"route predicate atom '{txt}' not recognised")


def _returns_on_all(stmts: List[ast.stmt], a: Dict[str, bool]) -> bool:
    for s in stmts:
        if isinstance(s, ast.Return):
            return True
        if isinstance(s, ast.Raise):
            return True
        if isinstance(s, ast.If):
            if _tv(s.test, a):
                if _returns_on_all(s.body, a):
                    return True
            else:
                if _returns_on_all(s.orelse, a):
                    return True
    return False


def check_route_totality(idx: Index, rep: Report):
    rule = "K3.route-totality"
    f = idx.function(f"{BACKEND}::Backend.get_expectation_value")
    top = [s for s in f.node.body if isinstance(s, ast.If) and "are_coefficients_real" in norm(s.test)]
    if not top:
        raise AnalysisError("get_expectation_value: route selection not found")
    names = ["noise", "sv", "shots", "mixed", "empty", "real"]
    missing = []
    for bits in itertools.product([False, True], repeat=len(names)):
        a = dict(zip(names, bits))
        if not _returns_on_all([top[0]], a):
            missing.append(a)
    rep.decide(not missing, rule, f, top[0], text="every configuration reaches a return",
               what="whatever the backend capabilities, shots, noise and circuit kind, one evaluation route is taken (no implicit None)",
               reason=f"{len(missing)} configuration(s) fall through, e.g. {missing[0] if missing else ''}")
    # route choice: statevector route only when no noise, statevector available, no shots, non-empty circuit
    sv_ok = []
    for bits in itertools.product([False, True], repeat=len(names)):
        a = dict(zip(names, bits))
        if not a["real"]:
            continue
        inner = top[0].body[0] if top[0].body and isinstance(top[0].body[0], ast.If) else None
        if inner is None:
            raise AnalysisError("get_expectation_value: inner route selection not found")
        freq = _tv(inner.test, a)
        want_freq = a["noise"] or not a["sv"] or a["shots"] or a["empty"]
        if freq != want_freq:
            sv_ok.append(a)
    rep.decide(not sv_ok, rule, f, top[0], text="frequency route iff noise or no statevector or shots or empty circuit",
               what="the direct statevector route is taken exactly for noiseless, exact (no shots) evaluation on a statevector backend",
               reason=f"route predicate differs on {len(sv_ok)} configuration(s), e.g. {sv_ok[0] if sv_ok else ''}")
    check_complex_split(idx, rep, rule)
    check_sympy_expectation(idx, rep)
    from . import C01 as _C01
    _C01.check_cirq_initial_state(idx, rep)          # expectation values from shots start from the user's initial state on every cirq path
    _C01.check_no_silent_drop(idx, rep, "quick")        # a MEASURE (or any gate) dropped by the translator changes the state every expectation value is taken in
    from .C10 import check_cirq_record_assembly
    check_cirq_record_assembly(idx, rep)             # shot strings of the all-shots cirq path: character p = record of position p


class _NpComplex:
    """stand-in for a numpy complex scalar: `type()` of it is the numpy type, it is not an instance of Python's complex unless numpy makes it one
    (complex128 subclasses complex, complex64 does not), and it has .real / .imag"""
    _sa_model = True

    def __init__(self, v, tname):
        self.v = complex(v)
        self.real, self.imag = self.v.real, self.v.imag
        self._sa_type_text = tname

    def __complex__(self):
        return self.v

    def __abs__(self):
        return abs(self.v)


class _NpComplex128(complex):
    """numpy's complex128 is a subclass of Python's complex"""
    _sa_model = True
    _sa_type_text = "np.complex128"


class _BackendProbe:
    """stand-in for the backend inside its own get_expectation_value / get_variance: the recursive calls and the estimator routes answer with a
    linear (expectation) or quadratic (variance) form in per-term symbols, and remember the keyword arguments they were given"""
    _sa_model = True
    statevector_available = True
    n_shots = None
    _noise_model = None

    def __init__(self):
        self.calls = []

    def _lin(self, op, circ, **kw):
        self.calls.append(("E", circ, kw))
        return sum((sp.nsimplify(complex(c) if isinstance(c, _NpComplex) else c) * sp.Symbol("E" + repr(t), real=True) for t, c in op.terms.items()), sp.Integer(0))

    def _quad(self, op, circ, **kw):
        self.calls.append(("V", circ, kw))
        return sum((sp.nsimplify(complex(c) if isinstance(c, _NpComplex) else c) ** 2 * sp.Symbol("V" + repr(t), positive=True) for t, c in op.terms.items()), sp.Integer(0))
    get_expectation_value = _get_expectation_value_from_frequencies = _get_expectation_value_from_statevector = _lin
    get_variance = _get_variance_from_frequencies = _quad


def check_complex_split(idx: Index, rep: Report, rule: str):
    """get_expectation_value / get_variance folded on operators with complex coefficients, the backend replaced by a probe: the result must be
    sum(coef * E_term) (resp. sum(|coef|^2 V_term)) and every inner evaluation must get the caller's circuit, initial statevector and requested outcome"""
    from .C14 import _QOp
    from ..rules.circuitsem import make_folder
    t1, t2, t3 = ((0, "X"),), ((0, "Z"), (1, "Z")), ((2, "Y"),)
    samples = [{t1: 1 + 2j, t2: 3.0, t3: -1j}, {t1: 2j}, {t1: 0.5, t2: -1.5}, {t1: (1 + 0j), t2: 0.25 + 0.75j},
               {t1: _NpComplex(1 + 2j, "np.complex64"), t2: _NpComplex(-0.5j, "np.complex64")}, {t1: _NpComplex128(0.5 - 1j), t2: 2.0}]
    circ = Rec("Circuit", {"width": 4, "size": 3, "is_mixed_state": False})
    for fn, sym, form in (("get_expectation_value", "E", lambda c: sp.nsimplify(complex(c) if isinstance(c, _NpComplex) else c)), ("get_variance", "V", lambda c: sp.nsimplify(abs(c) ** 2))):
        g = idx.function(f"{BACKEND}::Backend.{fn}")
        for terms in samples:
            op = _QOp()
            op.terms = dict(terms)
            probe = _BackendProbe()
            fo = make_folder(idx, BACKEND, ctors={"QubitOperator": lambda a, k: _QOp(*a, **k)})
            fo.generic_symbols = True
            try:
                got = fo.run_function(g.node, {"self": probe, "qubit_operator": op, "state_prep_circuit": circ, "initial_statevector": "SV0", "desired_meas_result": "01"})
            except (Undecidable, Raised) as e:
                raise AnalysisError(f"Backend.{fn} not foldable on {terms}: {e}")
            want = sum((form(c) * sp.Symbol(sym + repr(t), **({"real": True} if sym == "E" else {"positive": True})) for t, c in terms.items()), sp.Integer(0))
            val_ok = sp.simplify(sp.nsimplify(got) - want) == 0
            fwd_ok = bool(probe.calls) and all(c[1] is circ and c[2].get("initial_statevector") == "SV0" and c[2].get("desired_meas_result") == "01" for c in probe.calls)
            unchanged = op.terms == dict(terms)
            shown = [(f"{c._sa_type_text}({complex(c)})" if getattr(c, "_sa_type_text", None) else c) for c in terms.values()]
            rep.decide(val_ok and fwd_ok and unchanged, rule, g, g.node, text=f"{fn} with coefficients {shown}",
                       what="an operator with complex coefficients is evaluated by linearity (real part + i * imaginary part; variances add), every inner evaluation "
                            "receiving the caller's circuit, initial statevector and requested outcome, and the caller's operator is left as it was",
                       reason=(f"result {got} instead of {want}; " if not val_ok else "") + ("inner evaluation lost an argument; " if not fwd_ok else "") + ("the operator was modified" if not unchanged else ""))


# ---------------------------------------------------------------------------------------------------
class _BitArray:
    """checker-side model of bitarray('0101'): bitwise and, to01(), count()"""
    _sa_model = True

    def __init__(self, s):
        self.s = "".join(str(c) for c in s) if not isinstance(s, str) else s

    def __and__(self, other):
        return _BitArray("".join("1" if a == "1" and b == "1" else "0" for a, b in zip(self.s, other.s)))

    def __or__(self, other):
        return _BitArray("".join("1" if a == "1" or b == "1" else "0" for a, b in zip(self.s, other.s)))

    def __xor__(self, other):
        return _BitArray("".join("1" if a != b else "0" for a, b in zip(self.s, other.s)))

    def to01(self):
        return self.s

    def count(self, v=1):
        return self.s.count("1" if v in (1, "1", True) else "0")


def check_parity_skeleton(idx: Index, rep: Report):
    """the per-term estimators folded on a four-outcome histogram with symbolic frequencies: the expectation is the signed sum with
    sign = parity of the outcome bits on the term's qubits, the variance the frequency-weighted squared deviation from it"""
    rule = "K9.parity-estimator"
    from ..rules import circuitsem as cs
    f0, f1, f2, f3 = sp.symbols("f0 f1 f2 f3", positive=True)
    freqs = {"000": f0, "101": f1, "100": f2, "111": f3}
    cases = [(((0, "Z"), (2, "Z")), f0 + f1 - f2 + f3, "Z0 Z2"), (((1, "X"),), f0 + f1 + f2 - f3, "X1 (already rotated)"),
             (((0, "Z"), (1, "Y"), (2, "Z")), f0 + f1 - f2 - f3, "Z0 Y1 Z2"), ((), f0 + f1 + f2 + f3, "identity")]
    fe = idx.function(f"{BACKEND}::get_expectation_value_from_frequencies_oneterm")
    fv = idx.function(f"{BACKEND}::get_variance_from_frequencies_oneterm")

    def fold(fn, term):
        fo = cs.make_folder(idx, BACKEND)
        fo.ctors["bitarray"] = lambda a, k: _BitArray(a[0])
        try:
            return fo.run_function(fn.node, {"term": term, "frequencies": dict(freqs)})
        except (Undecidable, Raised) as e:
            raise AnalysisError(f"{fn.ref} not foldable: {e}")
    for term, want, label in cases:
        got = fold(fe, term)
        ok = sp.simplify(sp.sympify(got) - want) == 0
        rep.decide(ok, rule, fe, fe.node, text=f"<{label}> over {{000, 101, 100, 111}} = {want}",
                   what="each outcome contributes its frequency times (-1)^(number of 1s on the term's qubits)", reason=f"folded estimator gives {got}")
        gv = fold(fv, term)
        wantv = sum(fr * (want - sgn) ** 2 for fr, sgn in zip((f0, f1, f2, f3), _signs(term)))
        ok = sp.simplify(sp.expand(sp.sympify(gv) - wantv)) == 0
        rep.decide(ok, rule, fv, fv.node, text=f"Var<{label}> = sum f (mean - sample)^2", what="the variance is the frequency-weighted squared deviation of the eigenvalue from the mean",
                   reason=f"folded variance gives {gv}")


def _signs(term):
    out = []
    for key in ("000", "101", "100", "111"):
        ones = sum(1 for q, _ in term if key[q] == "1")
        out.append(-1 if ones % 2 else 1)
    return out


def check_stateless_evaluation(idx: Index, rep: Report, tier: str):
    """an evaluation entry point keeps nothing derived from the operator it was given on the backend object: a value cached across calls
    would go stale as soon as the (mutable) operator object is changed in place.  Decided with the alias analysis: no store into an
    attribute of `self` whose value may reach the operator argument."""
    rule = "K1.stateless-evaluation"
    from ..alias import Analyzer, is_P
    an = Analyzer(idx, max_depth=6)
    backend = idx.cls(f"{BACKEND}::Backend")
    subs = [c for c in idx.subclasses(backend)]
    if tier == "quick":
        subs = [c for c in subs if c.name in ("CirqSimulator", "SympySimulator")]
    n = 0
    for c in sorted(subs, key=lambda c: c.name):
        for mname in ("get_expectation_value", "get_variance", "get_standard_error", "_get_expectation_value_from_statevector",
                      "_get_expectation_value_from_frequencies", "_get_variance_from_frequencies", "expectation_value_from_prepared_state"):
            m = idx.find_method(c, mname)
            if m is None or "qubit_operator" not in m.params:
                continue
            fa = an.analyze(m, c)
            n += 1
            bad = []
            for ev in fa.events:
                if is_P(ev.obj) and ev.obj[1] == "self" and ev.kind in ("attr", "subscript", "method"):
                    reach = fa.closure(ev.value)
                    if any(is_P(o) and o[1] == "qubit_operator" for o in reach):
                        bad.append(ev)
            label = f"{c.name}.{mname}"
            if not bad:
                rep.ok(rule, (m.module.relpath, label), m.node, text=f"{label}: nothing derived from the operator is kept on the backend",
                       what="evaluating an operator leaves no operator-derived state on the backend (no cache that could go stale)")
            for ev in bad[:2]:
                from ..rules.purity import _stmt_of
                rep.violation(rule, (m.module.relpath, label), ev.node, text=f"{label}: {norm(_stmt_of(m, ev.node))}",
                              what="evaluating an operator leaves no operator-derived state on the backend (no cache that could go stale)",
                              reason=f"{ev.describe()} keeps a value derived from the operator argument on the backend object: a later call with the same "
                                     f"(in-place modified) operator object can see the stale value")
    rep.floor("stateless evaluation entry points", n, 10)


# ---------------------------------------------------------------------------------------------------
def check_sympy_expectation(idx: Index, rep: Report):
    """SympySimulator.expectation_value_from_prepared_state folded on a symbolic two-component complex state and a symbolic Hermitian matrix
    (the operator translation is replaced by that matrix): the result must be psi^dagger O psi - in particular the bra is the *conjugate*
    transpose, which only matters for states with complex amplitudes."""
    rule = "K9.sympy-expectation"
    from ..rules.circuitsem import make_folder
    TSYM = "tangelo/linq/target/target_sympy.py"
    cls = idx.cls(f"{TSYM}::SympySimulator")
    f = cls.methods["expectation_value_from_prepared_state"]
    a0, a1 = sp.Symbol("a0"), sp.Symbol("a1")                     # complex amplitudes
    h00, h11 = sp.Symbol("h00", real=True), sp.Symbol("h11", real=True)
    h01 = sp.Symbol("h01")
    psi = sp.Matrix([[a0], [a1]])
    O = sp.Matrix([[h00, h01], [sp.conjugate(h01), h11]])

    class _Self:
        _sa_model = True
        _current_state = psi
    for label, prepared in (("state passed in", psi), ("state kept by the simulator", None)):
        fo = make_folder(idx, TSYM, ctors={"translate_operator": lambda a, k: O, "Dagger": lambda a, k: a[0].H, "simplify": lambda a, k: a[0]})
        fo.env["cos"] = Opaque("cos")
        try:
            got = fo.run_function(f.node, {"self": _Self(), "qubit_operator": Opaque("qubit_operator"), "n_qubits": 1, "prepared_state": prepared})
        except (Undecidable, Raised) as e:
            raise AnalysisError(f"SympySimulator.expectation_value_from_prepared_state not foldable: {e}")
        want = (psi.H * O * psi)[0, 0]
        ok = sp.simplify(sp.expand(sp.sympify(got) - want)) == 0
        rep.decide(ok, rule, f, f.node, text=f"sympy backend, {label}: <psi|O|psi> with the conjugate transpose of psi",
                   what="the expectation value on a prepared state is psi^dagger O psi (conjugated bra), also for complex amplitudes",
                   reason=f"folds to {sp.simplify(got)}")
