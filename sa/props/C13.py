"""C13 Reduced density matrices reproduce energies and electron counts (structural part).

C13.a K1  padding active-space RDMs with the frozen orbitals does not write into the arrays passed in
          (numpy views - transpose / reshape / slicing - count as the caller's array)
C13.b K8  every fermion_to_qubit_mapping call of the variational solver that encodes excitation operators for the RDMs
          passes the same sources (mapping, n_spinorbitals, n_electrons, up_then_down, spin) as the call that built
          the Hamiltonian - the encodings must agree or the measured operators are not those of the prepared state
C13.c K8  index placement of measured terms into the tensors agrees between VQESolver.get_rdm and rdms.compute_rdms, the
          chemist/physicist transposition agrees between the two energy contractions, spin-summing divides every index by 2
C13.d K10 spin sorts in the unrestricted placement: alpha tensors are addressed with alpha-derived indices only
"""
from __future__ import annotations

import ast
from typing import Dict, List, Optional, Set, Tuple

from ..alias import Analyzer
from ..index import AnalysisError, FunctionInfo, Index, norm, own_nodes
from ..report import Report
from ..rules.purity import check_purity
from ..rules import siblings as sib

RDMS = "tangelo/toolboxes/molecular_computation/rdms.py"
VQE = "tangelo/algorithms/variational/vqe_solver.py"
MOL = "tangelo/toolboxes/molecular_computation/molecule.py"
F2Q_PARAMS = ["fermion_operator", "mapping", "n_spinorbitals", "n_electrons", "up_then_down", "spin"]


def run(idx: Index, rep: Report, tier: str):
    rep.explain("C13 structural part: may-mutate analysis (numpy views included) of the RDM padding functions; agreement of "
                "encoding arguments between the Hamiltonian build and the RDM measurement loops; agreement of tensor index "
                "placement / transposition between sibling implementations; spin sorts of the unrestricted placement.")
    rep.trust("CPython ast", "sa.alias numpy view/fresh summary table")
    rep.assume("energies, Hermiticity and traces of the matrices are numerical facts and are not decided")
    an = Analyzer(idx, max_depth=4)
    for name in ("pad_rdms_with_frozen_orbitals_restricted", "pad_rdms_with_frozen_orbitals_unrestricted"):
        f = idx.function(f"{RDMS}::{name}")
        check_purity(idx, rep, an, f, ["onerdm", "twordm"], rule="K1.rdm-inputs",
                     what="padding returns new full-space matrices without altering the arrays passed in")
    check_encoding_args(idx, rep)
    check_index_placement(idx, rep)
    check_uhf_placement(idx, rep)
    check_padding_spin_sorts(idx, rep)
    # the energy contracted from spin-resolved density matrices uses the unrestricted active-space integrals: their spin blocks have to be folded consistently
    from .C04 import check_uhf_spin_sorts
    check_uhf_spin_sorts(idx, rep)
    check_open_shell_rdm_sum(idx, rep)
    # the density matrices are those of the CI vector in the sector it was solved in: the same (n_alpha, n_beta) pair reaches kernel and make_rdm* (shared with C04)
    from .C04 import check_fci_sector
    check_fci_sector(idx, rep)
    rep.stats.update({"alias_" + k: v for k, v in an.stats.items()})


def check_encoding_args(idx: Index, rep: Report):
    rule = "K8.encoding-args"
    build = idx.function(f"{VQE}::VQESolver.build")
    ref_calls = sib.calls_to(build, "fermion_to_qubit_mapping")
    if not ref_calls:
        raise AnalysisError("VQESolver.build: no fermion_to_qubit_mapping call")
    ref = {k: sib.source_of(build, v) for k, v in sib.bound_args(ref_calls[0], F2Q_PARAMS).items()}
    n = 0
    for c in ref_calls[1:]:
        got = {k: sib.source_of(build, v) for k, v in sib.bound_args(c, F2Q_PARAMS).items()}
        for k in ("mapping", "n_spinorbitals", "n_electrons", "up_then_down", "spin"):
            n += 1
            rep.decide(got.get(k) == ref.get(k), rule, build, c, text=f"build (penalty): {k}={got.get(k)}",
                       what=f"penalty operators are encoded with the same {k} as the Hamiltonian", reason=f"{k}: {got.get(k)} vs {ref.get(k)}")
    for q in ("VQESolver.get_rdm", "VQESolver.get_rdm_uhf"):
        f = idx.function(f"{VQE}::{q}")
        calls = sib.calls_to(f, "fermion_to_qubit_mapping")
        if not calls:
            raise AnalysisError(f"{q}: no fermion_to_qubit_mapping call")
        for c in calls:
            got = {k: sib.source_of(f, v) for k, v in sib.bound_args(c, F2Q_PARAMS).items()}
            for k in ("mapping", "n_spinorbitals", "n_electrons", "up_then_down", "spin"):
                n += 1
                rep.decide(got.get(k) == ref.get(k), rule, f, c, text=f"{q}: {k}={got.get(k)}",
                           what=f"excitation operators measured for the RDMs are encoded with the same {k} as the Hamiltonian whose "
                                f"state is being measured ({ref.get(k)})",
                           reason=f"{q} passes {k}={got.get(k)} but the Hamiltonian was built with {k}={ref.get(k)}: for an unrestricted "
                                  f"reference with different numbers of frozen alpha and beta orbitals the two differ and the "
                                  f"symmetry-conserving encoding measures the wrong operators")
    # rdms.compute_rdms encodes with the data carried by the fermionic operator itself
    f = idx.function(f"{RDMS}::compute_rdms")
    for c in sib.calls_to(f, "fermion_to_qubit_mapping"):
        got = {k: sib.source_of(f, v) for k, v in sib.bound_args(c, F2Q_PARAMS).items()}
        want = {"mapping": "mapping", "up_then_down": "up_then_down", "n_spinorbitals": "ferm_ham.n_spinorbitals",
                "n_electrons": "ferm_ham.n_electrons", "spin": "ferm_ham.spin"}
        for k, w in want.items():
            n += 1
            rep.decide(got.get(k) == w, rule, f, c, text=f"compute_rdms: {k}={got.get(k)}",
                       what=f"compute_rdms encodes each excitation with the {k} of the operator / call it was given", reason=f"{k}={got.get(k)}, expected {w}")
    rep.floor("encoding argument obligations", n, 15)


def _placement(f: FunctionInfo, arr_names: Set[str]) -> Dict[str, str]:
    out = {}
    for n in own_nodes(f.node):
        if isinstance(n, ast.AugAssign) and isinstance(n.target, ast.Subscript) and isinstance(n.target.value, ast.Name) and \
                n.target.value.id in arr_names and isinstance(n.op, ast.Add):
            out.setdefault(n.target.value.id, norm(n.target.slice))
    return out


def _unpack_order(f: FunctionInfo, n_names: int) -> Optional[List[str]]:
    for n in own_nodes(f.node):
        if isinstance(n, ast.Assign) and isinstance(n.targets[0], ast.Tuple) and len(n.targets[0].elts) == n_names and \
                isinstance(n.value, ast.GeneratorExp) and "[0:%d]" % n_names in norm(n.value):
            return [norm(e) for e in n.targets[0].elts]
    return None


def check_index_placement(idx: Index, rep: Report):
    rule = "K8.index-placement"
    a = idx.function(f"{VQE}::VQESolver.get_rdm")
    b = idx.function(f"{RDMS}::compute_rdms")
    pa = _placement(a, {"rdm1_spin", "rdm2_spin"})
    pb = _placement(b, {"onerdm", "twordm"})
    ua2, ua4 = _unpack_order(a, 2), _unpack_order(a, 4)
    ub2, ub4 = _unpack_order(b, 2), _unpack_order(b, 4)
    if None in (ua2, ua4, ub2, ub4) or len(pa) != 2 or len(pb) != 2:
        raise AnalysisError("RDM index placement idiom not recognised in get_rdm / compute_rdms")
    rep.decide(pa["rdm1_spin"] == pb["onerdm"] == "(iele, jele)" and ua2 == ub2 == ["iele", "jele"], rule, a, a.node,
               text="1-RDM[p, q] += <a+_p a_q>", what="one-body expectation values land at [p, q], identically in both implementations",
               reason=f"get_rdm: {pa['rdm1_spin']} ({ua2}), compute_rdms: {pb['onerdm']} ({ub2})")
    rep.decide(pa["rdm2_spin"] == pb["twordm"] == "(iele, lele, jele, kele)" and ua4 == ub4 == ["iele", "jele", "kele", "lele"], rule, a, a.node,
               text="2-RDM[p, s, q, r] += <a+_p a+_q a_r a_s>",
               what="two-body expectation values land at [p, s, q, r] (chemist order), identically in both implementations",
               reason=f"get_rdm: {pa['rdm2_spin']} ({ua4}), compute_rdms: {pb['twordm']} ({ub4})")
    # every further store into the spin-orbital tensors must be the Hermitian-conjugate element with the conjugated value
    for f, arrs in ((a, {"rdm1_spin": "(jele, iele)", "rdm2_spin": "(lele, iele, kele, jele)"}), (b, {"onerdm": "(jele, iele)", "twordm": "(lele, iele, kele, jele)"})):
        for arr, conj_slice in arrs.items():
            stores = [n for n in ast.walk(f.node) if isinstance(n, (ast.AugAssign, ast.Assign)) and
                      isinstance((n.target if isinstance(n, ast.AugAssign) else n.targets[0]), ast.Subscript) and
                      norm((n.target if isinstance(n, ast.AugAssign) else n.targets[0]).value) == arr]
            extra = stores[1:]
            bad = []
            for st in extra:
                tgt = st.target if isinstance(st, ast.AugAssign) else st.targets[0]
                v = norm(st.value)
                conj = v.startswith(("np.conj(", "np.conjugate(", "numpy.conj(")) or v.endswith((".conjugate()", ".conj()"))
                if norm(tgt.slice) != conj_slice or not conj:
                    bad.append(f"{norm(st)}")
            rep.decide(not bad, rule, f, extra[0] if extra else f.node, text=f"{f.name}: {arr} receives each term's value once ({len(stores)} store(s))",
                       what="the value measured for a term is written to the element its own indices name; a mirrored element may only be filled with the complex conjugate "
                            "(<a+_q a_p> = <a+_p a_q>*)",
                       reason=f"additional store(s) {bad[:2]}: the element of the Hermitian-conjugate term gets the same number instead of its complex conjugate - "
                              f"the matrices are no longer Hermitian for states with complex amplitudes")
    # spin summation divides every index by two
    for f, names in ((a, {"rdm1_np", "rdm2_np"}), (b, {"onerdm_spinsum", "twordm_spinsum"})):
        pl = _placement(f, names)
        for arr, sl in sorted(pl.items()):
            parts = [p.strip() for p in sl.strip("()").split(",")]
            ok = all(p.endswith("// 2") for p in parts) and len(parts) in (2, 4) and [p.split()[0] for p in parts] == ["i", "j", "k", "l"][:len(parts)]
            rep.decide(ok, rule, f, f.node, text=f"{f.name}: {arr}[{sl}]", what="spin summation maps spin-orbital p to spatial orbital p//2 on every index, in order",
                       reason=f"spin-summed placement {sl}")
    # transposition physicist -> chemist agrees in both energy contractions
    e1 = idx.function(f"{RDMS}::energy_from_rdms")
    e2 = idx.function(f"{MOL}::SecondQuantizedMolecule.energy_from_rdms")
    t = []
    for f in (e1, e2):
        ts = [norm(n) for n in own_nodes(f.node) if isinstance(n, ast.Call) and isinstance(n.func, ast.Attribute) and n.func.attr == "transpose"]
        t.append(sorted(set(x.split(".transpose")[1] for x in ts)))
    rep.decide(t[0] == t[1] == ["(0, 3, 1, 2)"], rule, e1, e1.node, text="integrals.transpose(0, 3, 1, 2)",
               what="both energy contractions bring the two-electron integrals to the RDM index order with the same transposition",
               reason=f"rdms.energy_from_rdms uses {t[0]}, SecondQuantizedMolecule.energy_from_rdms uses {t[1]}")
    # contraction weights (normalised symbolically: e = core + S1 + S2/2 ; UHF factors [1/2, 1, 1/2])
    import sympy as sp
    from ..symx import to_sympy, Untranslatable, equal
    s1, s2 = sp.Symbol("S1"), sp.Symbol("S2")

    def unk(n):
        if isinstance(n, ast.Call) and norm(n.func) == "np.sum":
            t = norm(n.args[0])
            if t == "one_electron_integrals * one_rdm":
                return s1
            if t == "two_electron_integrals * two_rdm":
                return s2
        return None
    ok_r, ok_u, why = False, False, ""
    for n in ast.walk(e2.node):
        if isinstance(n, ast.Assign) and isinstance(n.targets[0], ast.Name) and n.targets[0].id == "e" and "one_rdm[i]" not in norm(n.value):
            try:
                ok_r = equal(to_sympy(n.value, on_unknown=unk), sp.Symbol("core_constant", real=True) + s1 + s2 / 2)
                why = norm(n.value)
            except Untranslatable as ex:
                why = f"not understood: {ex}"
        if isinstance(n, ast.Assign) and isinstance(n.targets[0], ast.Name) and n.targets[0].id == "factor" and isinstance(n.value, ast.List):
            try:
                vals = [sp.nsimplify(to_sympy(x)) for x in n.value.elts]
                ok_u = vals == [sp.Rational(1, 2), sp.Integer(1), sp.Rational(1, 2)]
            except Untranslatable:
                ok_u = False
    rep.decide(ok_r, rule, e2, e2.node, text="restricted: e = core + sum(h1*D1) + 1/2 sum(h2*D2)",
               what="the restricted two-body contraction carries the factor 1/2", reason=f"energy expression {why}")
    rep.decide(ok_u, rule, e2, e2.node, text="unrestricted factors [1/2, 1, 1/2] for (aa, ab, bb)",
               what="the unrestricted two-body contraction weights are 1/2 (aa), 1 (ab), 1/2 (bb)", reason="factor list changed")


def check_uhf_placement(idx: Index, rep: Report):
    """rdm*_np_a receives terms whose spin labels are all alpha (remainder 0), rdm*_np_b all beta (1), the mixed tensor
    the (0,1,1,0) pattern; spatial indices are spin-orbital // 2 and spin labels spin-orbital % 2."""
    rule = "K10.spin-sorts"
    f = idx.function(f"{VQE}::VQESolver.get_rdm_uhf")
    want = {"rdm1_np_a": "(0, 0)", "rdm1_np_b": "(1, 1)", "rdm2_np_a": "(0, 0, 0, 0)", "rdm2_np_b": "(1, 1, 1, 1)", "rdm2_np_ba": "(0, 1, 1, 0)"}
    n = 0
    for node in ast.walk(f.node):
        if isinstance(node, ast.If) and isinstance(node.test, ast.Compare) and isinstance(node.test.left, ast.Tuple) and \
                all(norm(e).endswith("_r") for e in node.test.left.elts):
            label = norm(node.test.comparators[0])
            order = [norm(e) for e in node.test.left.elts]
            for st in node.body:
                if isinstance(st, ast.AugAssign) and isinstance(st.target, ast.Subscript) and isinstance(st.target.value, ast.Name):
                    arr = st.target.value.id
                    n += 1
                    ok = want.get(arr) == label and order == ["iele_r", "jele_r", "kele_r", "lele_r"][:len(order)]
                    rep.decide(ok, rule, f, st, text=f"{arr} <- spin pattern {label}",
                               what="each spin block receives exactly the terms whose operators carry that block's spins",
                               reason=f"{arr} filled under spin pattern {order} == {label}")
                    sl = norm(st.target.slice)
                    rep.decide(sl in ("(iele, jele)", "(iele, lele, jele, kele)", "(lele, iele, kele, jele)"), rule, f, st, text=f"{arr}[{sl}]",
                               what="unrestricted placement uses [p,s,q,r] or its pair-exchanged image [s,p,r,q]", reason=f"placement {sl}")
    rep.floor("uhf placement sites", n, 10)
    # spatial index = p // 2, spin label = p % 2
    divs = [norm(n_) for n_ in own_nodes(f.node) if isinstance(n_, ast.Assign) and isinstance(n_.value, ast.Tuple) and
            all(isinstance(e, ast.BinOp) for e in n_.value.elts)]
    ok = any("pele // 2, qele // 2, rele // 2, sele // 2" in d for d in divs) and any("pele % 2, qele % 2, rele % 2, sele % 2" in d for d in divs)
    rep.decide(ok, rule, f, f.node, text="spatial = p // 2, spin = p % 2", what="spin-orbital p is split into spatial index p//2 and spin label p%2",
               reason=f"index split {divs}")


# ---------------------------------------------------------------------------------------------------
def check_padding_spin_sorts(idx: Index, rep: Report):
    """Unrestricted padding: the mixed-spin 2-RDM block has alpha orbitals on its first two axes and beta orbitals on the last two (it is
    allocated as (n_a, n_a, n_b, n_b)).  Every loop variable has the spin of the count it ranges over (`..._a` / `..._b`); in every store into
    an aa / bb / ab tensor each index variable must sit on an axis of its own spin."""
    rule = "K10.padding-spin-sorts"
    f = idx.function(f"{RDMS}::pad_rdms_with_frozen_orbitals_unrestricted")

    def spin_of_bound(e: ast.AST):
        t = norm(e)
        if t.endswith("_a") or "_a_" in t or t.endswith("_a)"):
            return "alpha"
        if t.endswith("_b") or "_b_" in t or t.endswith("_b)"):
            return "beta"
        return None

    def layout_of(arr: str):
        for tag, lay in (("_aa", ("alpha",) * 4), ("_bb", ("beta",) * 4), ("_ab", ("alpha", "alpha", "beta", "beta"))):
            if tag in arr:
                return lay
        return None
    n = 0
    for loop in [x for x in ast.walk(f.node) if isinstance(x, ast.For)]:
        sorts: Dict[str, Optional[str]] = {}
        it = loop.iter
        if isinstance(it, ast.Call) and norm(it.func) == "range" and isinstance(loop.target, ast.Name):
            sorts[loop.target.id] = spin_of_bound(it.args[-1])
        elif isinstance(it, ast.Call) and norm(it.func) in ("it.product", "itertools.product") and isinstance(loop.target, ast.Tuple):
            ranges = [a for a in it.args]
            rep_kw = next((ast.literal_eval(k.value) for k in it.keywords if k.arg == "repeat"), 1)
            seq = [spin_of_bound(r.args[-1]) if isinstance(r, ast.Call) and norm(r.func) == "range" else None for r in ranges] * rep_kw
            for v, sv in zip(loop.target.elts, seq):
                if isinstance(v, ast.Name):
                    sorts[v.id] = sv
        if not any(sorts.values()):
            continue
        for st in loop.body:
            if isinstance(st, (ast.AugAssign, ast.Assign)):
                tgt = st.target if isinstance(st, ast.AugAssign) else st.targets[0]
                if isinstance(tgt, ast.Subscript) and isinstance(tgt.value, ast.Name) and layout_of(tgt.value.id) and isinstance(tgt.slice, ast.Tuple) and len(tgt.slice.elts) == 4:
                    lay = layout_of(tgt.value.id)
                    bad = [(k, ix.id, sorts[ix.id], lay[k]) for k, ix in enumerate(tgt.slice.elts) if isinstance(ix, ast.Name) and sorts.get(ix.id) and sorts[ix.id] != lay[k]]
                    n += 1
                    rep.decide(not bad, rule, f, st, text=f"{norm(tgt)} inside `for {norm(loop.target)} in {norm(loop.iter)[:60]}`",
                               what="every index variable sits on a tensor axis of the spin it was counted for (the mixed block is alpha, alpha, beta, beta)",
                               reason="; ".join(f"axis {k} of {tgt.value.id} is {want} but `{v}` ranges over a {got} count" for k, v, got, want in bad))
    rep.floor("spin-sorted stores in the unrestricted padding", n, 12)



def check_open_shell_rdm_sum(idx: Index, rep: Report):
    """For a restricted-open-shell reference the pyscf engines work with spin-resolved quantities and hand back the spin blocks (alpha, beta) / (aa, ab, bb).  The
    solver then has to return what its interface documents and what energy_from_rdms contracts: the spin-summed matrices a + b and aa + 2 ab + bb.  get_rdm of the
    coupled-cluster and of the MP2 solver is folded with engine stand-ins that return distinguishable blocks; for an unrestricted reference the blocks are passed on."""
    import numpy as np
    from ..consteval import Raised, Rec, Undecidable
    from ..rules import circuitsem as cs
    rule = "K8.open-shell-rdm-sum"
    a, b, aa, ab, bb = (np.array([[float(x)]]) for x in (2, 3, 5, 7, 11))
    blocks4 = tuple(np.array([[[[float(x)]]]]) for x in (5, 7, 11))

    class _Engine:
        _sa_model = True
        t1, t2 = "t1", "t2"

        def __init__(self, open_shell):
            self.open_shell = open_shell

        def make_rdm1(self):
            return (a, b) if self.open_shell else a + b

        def make_rdm2(self):
            return blocks4 if self.open_shell else blocks4[0] + 2 * blocks4[1] + blocks4[2]

        def solve_lambda(self, t1, t2):
            return "l1", "l2"
    cases = [("tangelo/algorithms/classical/mp2_solver.py", "MP2SolverPySCF", "mp2_fragment"), ("tangelo/algorithms/classical/ccsd_solver.py", "CCSDSolverPySCF", "cc_fragment")]
    n = 0
    for rel, cname, attr in cases:
        f = idx.function(f"{rel}::{cname}.get_rdm")
        for label, spin, uhf in (("closed shell, restricted", 0, False), ("open shell, restricted (ROHF)", 1, False), ("open shell, unrestricted", 1, True)):
            open_shell = spin != 0 or uhf
            me = Rec(cname, {attr: _Engine(open_shell), "frozen": None, "spin": spin, "uhf": uhf, "rdms": None})
            unres = {"_umake_rdm1": lambda a_, k: (a, b), "_umake_rdm2": lambda a_, k: blocks4, "_make_rdm1": lambda a_, k: a + b, "_make_rdm2": lambda a_, k: blocks4[0] + 2 * blocks4[1] + blocks4[2],
                     "_gamma1_intermediates": lambda a_, k: "d1", "_gamma2_outcore": lambda a_, k: "d2", "_ugamma1_intermediates": lambda a_, k: "d1", "_ugamma2_outcore": lambda a_, k: "d2",
                     "lib.H5TmpFile": lambda a_, k: "file"}
            fo = cs.make_folder(idx, rel, ctors=unres)
            fo.real_arrays = True
            try:
                one, two = fo.run_function(f.node, {"self": me})
            except Undecidable as e:
                raise AnalysisError(f"{cname}.get_rdm not foldable ({label}): {e}")
            except Raised as e:
                rep.violation(rule, f, f.node, text=f"{cname}.get_rdm, {label}", what="density matrices are available for every reference the solver accepts", reason=f"raises {e.exc_type}")
                continue
            n += 1
            if uhf:
                ok = isinstance(one, tuple) and len(one) == 2 and isinstance(two, tuple) and len(two) == 3
                want = "the spin blocks (alpha, beta) and (aa, ab, bb)"
            else:
                ok = isinstance(one, np.ndarray) and one.shape == (1, 1) and float(one[0, 0]) == 5.0 and isinstance(two, np.ndarray) and float(np.ravel(two)[0]) == 30.0
                want = "the spin-summed matrices alpha + beta and aa + 2 ab + bb"
            rep.decide(ok, rule, f, f.node, text=f"{cname}.get_rdm, {label}: returns {want}",
                       what="for a restricted (closed- or open-shell) reference the solver returns spin-summed density matrices, the ones energy_from_rdms contracts with the "
                            "molecular integrals; for an unrestricted reference the spin blocks",
                       reason=f"returns a one-particle {'tuple of ' + str(len(one)) + ' blocks' if isinstance(one, tuple) else 'matrix ' + str(np.ravel(one)[:1])} and a two-particle "
                              f"{'tuple of ' + str(len(two)) + ' blocks' if isinstance(two, tuple) else 'array ' + str(np.ravel(two)[:1])}")
    rep.floor("get_rdm reference kinds folded", n, 6)
