"""C07 Ansatz parameter updates are equivalent to rebuilding the circuit (structural part).

Instances: every concrete subclass of Ansatz found by the index (12 today).

C07.a K6  length validation: every store into the variational gates made by update_var_params is dominated by a comparison of
          the vector's length with n_var_params that raises (directly, through set_var_params / build_circuit, or an assert)
C07.b     classification: (A1) build_circuit ends by calling update_var_params - placement of parameters is shared by
          construction; (A2) update delegates wholly to build; (A3) update regenerates the variational part with a
          statement-for-statement clone of build's tail; (B) separate build and update paths, which get C07.c-e
C07.c K8  (B) every angle written by update equals, modulo 4*pi and per branch, the angle the build path gives the same
          coefficient (2*coef through exp_pauliword_to_gates); the index table used by update is filled in the loop that emits
          the gates, with the loop's own word and counter
C07.d K12 when several blocks share one flat gate list and the index table stores i + offset[block], the offset of block b+1 is
          computed from the offset of block b (running sum), not from the block size alone
C07.e     (B) support change: update compares the set of Pauli words with the one the circuit was built for and rebuilds, or the
          build path has no coefficient-dependent gate skipping
"""
from __future__ import annotations

import ast
import math
from typing import Dict, List, Optional, Set, Tuple

import numpy as np
import sympy as sp

from ..cfg import CFG
from ..consteval import Folder, Raised, Rec, Undecidable, make_gate
from ..index import AnalysisError, ClassInfo, FunctionInfo, Index, full, norm, own_nodes
from ..report import Report
from ..rules.circuitsem import make_folder as cs_make_folder
from .. import symx

ANSATZ = "tangelo/toolboxes/ansatz_generator/ansatz.py"
TABLE_CLASSES = ("UCCSD", "UpCCGSD", "QCC", "UCCGD")       # classes that place angles through a table / list frozen at build time


def run(idx: Index, rep: Report, tier: str):
    rep.explain("C07 structural part: for every Ansatz subclass, guard dominance of the parameter-count validation over the stores into "
                "the variational gates; classification of how update and build share (or duplicate) the placement of parameters; for "
                "dual-path classes, symbolic agreement of the written angle with the build path modulo 4*pi, provenance of the index "
                "table, running offsets across blocks, and handling of a changed set of Pauli words.")
    rep.trust("CPython ast", "networkx dominators", "sympy simplify", "C06 (exp_pauliword_to_gates gives angle 2*coef mod 4*pi)")
    rep.assume("equality of unitaries and 'zero parameters = reference state' are not decided here (see C06 for the exponentials)")
    base = idx.cls(f"{ANSATZ}::Ansatz")
    classes = sorted([c for c in idx.subclasses(base) if "update_var_params" in c.methods and "build_circuit" in c.methods], key=lambda c: c.name)
    rep.floor("Ansatz subclasses", len(classes), 12)
    for c in classes:
        check_length_validation(idx, rep, c)
        kind = classify(idx, rep, c)
        if kind == "B":
            check_angles(idx, rep, c)
            check_support_change(idx, rep, c)
        check_offsets(idx, rep, c)
        if kind == "B" and c.name in TABLE_CLASSES:
            check_update_equals_rebuild(idx, rep, c)
    check_vsqs_update_equals_rebuild(idx, rep)
    check_adapt_grow_equals_restart(idx, rep)
    check_qmf_parameter_count(idx, rep)
    check_term_order_histories(idx, rep, tier)
    check_class_update_histories(idx, rep, tier)
    check_qmf_based_histories(idx, rep)


# ---------------------------------------------------------------------------------------------------
def _self_calls(f: FunctionInfo) -> List[ast.Call]:
    return [n for n in own_nodes(f.node) if isinstance(n, ast.Call) and isinstance(n.func, ast.Attribute) and isinstance(n.func.value, ast.Name)
            and n.func.value.id == "self"]


def _has_length_check(f: FunctionInfo) -> List[ast.AST]:
    """statements of f that compare a length/size with n_var_params and raise / assert"""
    out = []
    for n in own_nodes(f.node):
        if isinstance(n, ast.Assert) and "n_var_params" in norm(n.test) and ("len(" in norm(n.test) or ".size" in norm(n.test)):
            out.append(n)
        if isinstance(n, ast.If) and "n_var_params" in norm(n.test) and ("len(" in norm(n.test) or ".size" in norm(n.test)):
            body_raises = any(isinstance(x, ast.Raise) for x in n.body) or any(isinstance(x, ast.Raise) for x in n.orelse)
            if body_raises:
                out.append(n)
    return out


def _validating_methods(idx: Index, c: ClassInfo, depth=3) -> Set[str]:
    """names of methods of c (through its MRO) that validate the length, directly or through self.* calls with the vector"""
    names: Set[str] = set()
    mro_methods = {}
    for k in reversed(idx.mro(c)):
        mro_methods.update(k.methods)
    for _ in range(depth):
        for name, m in mro_methods.items():
            if name in names:
                continue
            if _has_length_check(m):
                names.add(name)
                continue
            for call in _self_calls(m):
                if call.func.attr in names and (call.args or call.keywords):
                    # the call must hand over the vector unconditionally enough: first statement level or dominating - approximated by position
                    names.add(name)
    return names


def _param_stores(f: FunctionInfo) -> List[ast.AST]:
    out = []
    for n in own_nodes(f.node):
        if isinstance(n, ast.Attribute) and isinstance(n.ctx, ast.Store) and n.attr == "parameter" and "_variational_gates" in norm(n.value):
            out.append(n)
    return out


def check_length_validation(idx: Index, rep: Report, c: ClassInfo):
    rule = "K6.length-validation"
    upd = idx.find_method(c, "update_var_params")
    vparam = upd.positional[1] if len(upd.positional) > 1 else None
    if vparam is None:
        raise AnalysisError(f"{c.name}.update_var_params takes no vector")
    validating = _validating_methods(idx, c) - {"update_var_params"}
    cfg = CFG(upd.node)
    vnodes = []
    for n in _has_length_check(upd):
        vnodes.append(n)
    for call in _self_calls(upd):
        if call.func.attr in validating:
            args = [norm(a) for a in call.args] + [norm(k.value) for k in call.keywords]
            if vparam in args:
                vnodes.append(call)
    # helper methods that perform the stores on behalf of update_var_params
    store_nodes = list(_param_stores(upd))
    for call in _self_calls(upd):
        m = idx.find_method(c, call.func.attr)
        if m is not None and m.name not in validating and _param_stores(m):
            store_nodes.append(call)
    label = f"{c.name}.update_var_params"
    if not vnodes:
        rep.violation(rule, upd, upd.node, text=f"{label}: vector length checked against n_var_params",
                      what="a vector whose length differs from the number of parameters advertised is rejected",
                      reason=f"{label} never compares the length of `{vparam}` with n_var_params (neither directly nor through "
                             f"set_var_params / build_circuit): longer vectors are silently accepted, shorter ones fail late or not at all")
        return
    vids = [cfg.node_for(v) for v in vnodes]
    if not store_nodes:
        ok = any(cfg.must_pass_through(cfg.entry.id, cfg.return_exit.id, [v]) for v in vids)
        rep.decide(ok, rule, upd, vnodes[0], text=f"{label}: validation on every path", what="every call validates the vector length",
                   reason="a path through update_var_params skips the validation")
        return
    bad = [s for s in store_nodes if not any(cfg.dominates(v, cfg.node_for(s)) for v in vids)]
    rep.decide(not bad, rule, upd, vnodes[0], text=f"{label}: validation dominates the {len(store_nodes)} store site(s)",
               what="the length check precedes every write into the variational gates",
               reason=f"store at line {bad[0].lineno if bad else 0} can be reached without validating the vector length")


# ---------------------------------------------------------------------------------------------------
def _effective_body(f: FunctionInfo) -> List[ast.stmt]:
    return [s for s in f.node.body if not (isinstance(s, ast.Expr) and isinstance(s.value, ast.Constant))]


def classify(idx: Index, rep: Report, c: ClassInfo) -> str:
    rule = "K8.update-build"
    upd = idx.find_method(c, "update_var_params")
    bld = idx.find_method(c, "build_circuit")
    bb = _effective_body(bld)
    ub = _effective_body(upd)
    tail = [s for s in bb if not isinstance(s, ast.Return)]
    # A1: build ends with self.update_var_params(self.var_params)
    if tail and isinstance(tail[-1], ast.Expr) and norm(tail[-1].value) in ("self.update_var_params(self.var_params)",):
        rep.ok(rule, bld, tail[-1], text=f"{c.name}: build_circuit ends with update_var_params(self.var_params)",
               what="building writes the parameters through the update routine itself: update and rebuild place parameters identically")
        # the var_params handed over are the validated ones
        sets = [s for s in bb if "set_var_params" in full(s)]
        rep.decide(bool(sets), rule, bld, bld.node, text=f"{c.name}: build_circuit sets var_params first", what="the circuit is built for the vector given to build_circuit",
                   reason="build_circuit does not set var_params before writing them")
        return "A1"
    # A2: update delegates wholly to build
    if len(ub) == 1 and isinstance(ub[0], ast.Expr) and norm(ub[0].value) == f"self.build_circuit({upd.positional[1]})":
        rep.ok(rule, upd, ub[0], text=f"{c.name}: update_var_params = build_circuit(var_params)", what="updating is rebuilding")
        return "A2"
    # A3: statement-for-statement clone of build's tail
    ut = [full(s) for s in ub[1:]] if ub and "set_var_params" in norm(ub[0]) else [full(s) for s in ub]
    bt = [full(s) for s in bb]
    if ut and len(ut) >= 3 and bt[-len(ut):] == ut:
        rep.ok(rule, upd, upd.node, text=f"{c.name}: update regenerates the variational part with build's own statements ({len(ut)} statements)",
               what="update re-emits the variational sub-circuit exactly as build does")
        return "A3"
    if ut and len(ut) >= 3 and any(x in bt for x in ut) and "exp_pauliword_to_gates" in " ".join(ut) and "_variational_gates" not in " ".join(ut):
        diff = [x for x in ut if x not in bt]
        rep.violation(rule, upd, upd.node, text=f"{c.name}: update regenerates the variational part like build",
                      what="the regeneration in update is a statement-for-statement clone of the tail of build",
                      reason=f"statements of update not found in build: {diff[:2]}")
        return "A3"
    rep.ok(rule, upd, upd.node, text=f"{c.name}: separate build and update paths (dual path)", what="dual-path class: angle, index-table and support obligations apply",
           nontrivial=False)
    return "B"


# ---------------------------------------------------------------------------------------------------
def _inline(f: FunctionInfo, e: ast.AST, depth=0) -> ast.AST:
    if depth > 3 or not isinstance(e, ast.Name) or e.id in f.params:
        return e
    defs = [n.value for n in own_nodes(f.node) if isinstance(n, ast.Assign) and len(n.targets) == 1 and isinstance(n.targets[0], ast.Name) and n.targets[0].id == e.id]
    if len(defs) == 1:
        return _inline(f, defs[0], depth + 1)
    return e


def check_angles(idx: Index, rep: Report, c: ClassInfo):
    rule = "K8.angle-clone"
    stores: List[Tuple[FunctionInfo, ast.Assign]] = []
    for m in [x for k in idx.mro(c) for x in k.methods.values()]:
        if m.name in ("update_var_params",) or m.name.startswith("_update"):
            for n in own_nodes(m.node):
                if isinstance(n, ast.Assign) and isinstance(n.targets[0], ast.Attribute) and n.targets[0].attr == "parameter" and "_variational_gates" in norm(n.targets[0].value):
                    stores.append((m, n))
    if not stores:
        rep.violation(rule, idx.find_method(c, "update_var_params"), None, text=f"{c.name}: parameter stores", what="a dual-path update writes angles into the variational gates",
                      reason="no store into _variational_gates[...].parameter found although the class does not rebuild")
        return
    coef = sp.Symbol("coef", real=True)
    for m, st in stores:
        e = _inline(m, st.value)
        txt = norm(e)
        label = f"{c.name}.{m.name}: parameter = {txt[:70]}"
        try:
            if "prefac" in norm(st.value) or "prefac" in txt or c.name == "VSQS":
                # VSQS: prefac * coeff with prefac = 2 / order * dt * time parameter  ==  2 * (coeff * time * dt / order)
                pre = _inline(m, ast.Name(id="prefac", ctx=ast.Load()))
                order, dt, v, cf = sp.symbols("order dt v coeff", positive=True)
                env = {"self.trotter_order": order, "self.dt": dt, "var_param": v, "coeff": cf}
                full_e = symx.to_sympy(st.value, dict(env, prefac=symx.to_sympy(pre, env)))
                ok = symx.equal(full_e, 2 * cf * v * dt / order)
                rep.decide(ok, rule, m, st, text=label, what="the angle written equals 2 * (coefficient * step time / Trotter order), the angle the build path emits",
                           reason=f"angle {full_e} differs from 2*coeff*v*dt/order")
                continue
            # generic: expression in one coefficient variable
            names = {n_.id for n_ in ast.walk(e) if isinstance(n_, ast.Name)} | {norm(n_) for n_ in ast.walk(e) if isinstance(n_, ast.Subscript)}
            cands = [x for x in names if x in ("coef", "coeff") or x.startswith("qu_op_dict[")]
            if len(cands) != 1:
                raise symx.Untranslatable(f"coefficient variable not identified in {txt}")
            ex = symx.to_sympy(e, {cands[0]: coef})
        except symx.Untranslatable as u:
            if c.name in CLASS_FOLDS:
                # the class is folded as a whole (check_class_update_histories): its angles are decided there, gate by gate
                rep.info(rule, m, st, text=label, what="angle written by update vs angle emitted by build", reason=f"not an expression in one coefficient ({u}); decided by the class fold")
                continue
            raise AnalysisError(f"{c.name}.{m.name}: angle expression not understood: {u}")
        pieces = [(ex, True)] if not isinstance(ex, sp.Piecewise) else list(ex.args)
        ok = all((sp.simplify((val - 2 * coef) / (4 * sp.pi))).is_integer is True for val, _ in pieces)
        rep.decide(ok, rule, m, st, text=label, what="the angle written by update equals the build path's angle 2*coef modulo 4*pi on every branch",
                   reason=f"written angle {ex} is not 2*coef (mod 4*pi): after an update the circuit differs from a freshly built one")
    # index table provenance: filled inside the loop that emits the gates
    bld = idx.find_method(c, "build_circuit")
    fills = [n for n in ast.walk(bld.node) if isinstance(n, ast.Assign) and isinstance(n.targets[0], ast.Subscript) and "pauli_to_angles_mapping" in norm(n.targets[0].value)
             and not isinstance(n.value, ast.Call)]
    for fl in fills:
        loop = None
        for n in ast.walk(bld.node):
            if isinstance(n, ast.For) and any(x is fl for x in n.body):
                loop = n
        if loop is None:
            rep.violation(rule, bld, fl, text=f"{c.name}: index table filled in the emitting loop", what="the word -> gate index table is filled where the gates are emitted",
                          reason="index table filled outside the emitting loop")
            continue
        tgt = norm(loop.target)
        it = norm(loop.iter)
        emits = [s for s in loop.body if isinstance(s, ast.AugAssign) and "exp_pauliword_to_gates" in norm(s.value)]
        ok = bool(emits) and it.startswith("enumerate(") and tgt.startswith("(i,") and norm(fl.targets[0].slice) == "pauli_word" and \
            norm(emits[0].value).startswith("exp_pauliword_to_gates(pauli_word, coef")
        val = norm(fl.value)
        ok = ok and (val == "i" or val.startswith("i + "))
        rep.decide(ok, rule, bld, fl, text=f"{c.name}: mapping[pauli_word] = {val} in the loop emitting exp(pauli_word)",
                   what="each word is mapped to the position of its own (single) variational gate", reason=f"table filled with {val} under loop {tgt} in {it}")


def check_support_change(idx: Index, rep: Report, c: ClassInfo):
    rule = "K8.support-change"
    upd = idx.find_method(c, "update_var_params")
    rebuild = [n for n in ast.walk(upd.node) if isinstance(n, ast.If) and any("self.build_circuit(" in norm(s) for s in n.body)]
    if rebuild:
        # whether the rebuild condition is strong enough (words appearing, disappearing, coming back) is decided by folding build / update on
        # vectors with zeros (K8.update-equals-rebuild), not from the spelling of the condition
        if c.name not in TABLE_CLASSES:
            raise AnalysisError(f"{c.name}.update_var_params rebuilds on a changed operator but the class is not folded by the update-vs-rebuild check")
        rep.ok(rule, upd, rebuild[0], text=f"{c.name}: rebuild condition `{norm(rebuild[0].test)[:70]}` (decided by the folded update sequences)",
               what="the circuit is rebuilt whenever a fresh build would differ in layout", nontrivial=False)
        return
    bld = idx.find_method(c, "build_circuit")
    skipping = "get_exponentiated_qubit_operator_circuit" in full(bld.node)
    if skipping:
        # the exponentiation helper drops tiny coefficients - unless the term is variational
        g = idx.function("tangelo/toolboxes/ansatz_generator/ansatz_utils.py::get_exponentiated_qubit_operator_circuit")
        guards = [n for n in ast.walk(g.node) if isinstance(n, ast.If) and any("exp_pauliword_to_gates" in norm(x) for x in n.body) and "coef" in norm(n.test)]
        always_emitted = bool(guards) and all(isinstance(n.test, ast.BoolOp) and isinstance(n.test.op, ast.Or) and "variational" in [norm(v) for v in n.test.values] for n in guards)
        if not guards:
            always_emitted = True
        var_calls = [x for x in ast.walk(bld.node) if isinstance(x, ast.Call) and norm(x.func) == "get_exponentiated_qubit_operator_circuit"
                     and any(k.arg == "time" and "var_params" in norm(k.value) for k in x.keywords)]
        flagged = all(any(k.arg == "variational" and norm(k.value) == "True" for k in x.keywords) for x in var_calls)
        skipping = not (always_emitted and flagged and var_calls)
    rep.decide(not skipping, rule, upd, upd.node, text=f"{c.name}: fixed gate layout or rebuild on support change",
               what="update either rebuilds when the set of emitted words changes or the build path never skips gates depending on coefficients",
               reason=f"{c.name}.build_circuit emits gates through get_exponentiated_qubit_operator_circuit, which drops terms with |coef| <= 1e-10, and "
                      f"update_var_params has no rebuild: a parameter that is exactly zero at build time shifts every later gate index")


# ---------------------------------------------------------------------------------------------------
def check_offsets(idx: Index, rep: Report, c: ClassInfo):
    rule = "K12.running-offset"
    bld = idx.find_method(c, "build_circuit")
    for loop in [n for n in ast.walk(bld.node) if isinstance(n, ast.For) and isinstance(n.target, ast.Name)]:
        lv = loop.target.id
        for st in loop.body:
            if isinstance(st, ast.Assign) and isinstance(st.targets[0], ast.Subscript) and isinstance(st.targets[0].value, ast.Name) and \
                    norm(st.targets[0].slice) in (f"{lv} + 1", f"1 + {lv}"):
                arr = st.targets[0].value.id
                used_as_offset = any(isinstance(n, ast.Subscript) and isinstance(n.value, ast.Name) and n.value.id == arr and norm(n.slice) == lv and isinstance(n.ctx, ast.Load)
                                     for n in ast.walk(loop))
                if not used_as_offset:
                    continue
                refs = {norm(n) for n in ast.walk(st.value) if isinstance(n, ast.Subscript)}
                cumulative = any(r.startswith(f"{arr}[") for r in refs)
                rep.decide(cumulative, rule, bld, st, text=f"{c.name}: {arr}[{lv} + 1] = {norm(st.value)}",
                           what="the start offset of block b+1 is the offset of block b plus the size of block b",
                           reason=f"{arr}[{lv}+1] is set from the block size alone, but {arr}[{lv}] is added to gate indices of a single flat gate list: from the "
                                  f"third block on, updates address the wrong gates")


# ---------------------------------------------------------------------------------------------------
# update == rebuild, folded on stand-in operators
class _CircModel:
    """stand-in for a linq Circuit as far as the ansatz classes use one: a gate list whose gates are copied on the way in (as
    Circuit.add_gate does), the variational gates as a view on that list, `size`, and `+` that builds a new circuit"""
    _sa_model = True

    def __init__(self, gates=None, n_qubits=None, **_kw):
        import copy
        self._gates = [copy.deepcopy(g) for g in (gates or [])]
        self._variational_gates = [g for g in self._gates if g.fields.get("is_variational")]
        self.size = len(self._gates)

    def __add__(self, o):
        return _CircModel(self._gates + o._gates)

    def add_gate(self, g):
        import copy
        g = copy.deepcopy(g)
        self._gates.append(g)
        if g.fields.get("is_variational"):
            self._variational_gates.append(g)
        self.size = len(self._gates)

    @property
    def width(self):
        used = [q for g in self._gates for q in (list(g.fields["target"]) if isinstance(g.fields["target"], list) else [g.fields["target"]]) +
                (list(g.fields["control"]) if isinstance(g.fields["control"], list) else ([] if g.fields["control"] is None else [g.fields["control"]]))]
        return max(used) + 1 if used else 0

    def signature(self):
        return [(g.fields["name"], tuple(g.fields["target"]) if isinstance(g.fields["target"], list) else g.fields["target"],
                 tuple(g.fields["control"]) if isinstance(g.fields["control"], list) else g.fields["control"],
                 g.fields["parameter"], bool(g.fields.get("is_variational"))) for g in self._gates]


class _OpModel:
    _sa_model = True

    def __init__(self, terms):
        self.terms = dict(terms)


WORDS = [((0, "X"), (1, "Y")), ((0, "Y"), (1, "X"), (2, "Z")), ((2, "X"),), ((1, "Z"), (2, "Y"), (3, "X"), (0, "Z")), ((3, "Y"), (0, "X")), ((1, "X"),),
         ((0, "Z"), (3, "Z"), (2, "X")), ((2, "Y"), (3, "Y"))]


def _stand_in_operator(params, block: int):
    """a qubit operator in the style the ansatz generators deliver: two words per parameter, coefficients proportional to the parameter (one of
    them negative), zero coefficients compressed away; `block` rotates the word set so that different blocks do not share their first words"""
    terms = {}
    for j, th in enumerate(params):
        if th == 0:
            continue
        wa = WORDS[(2 * j + block) % len(WORDS)]
        wb = WORDS[(2 * j + 1 + block) % len(WORDS)]
        terms[wa + ((4 + j, "Z"),)] = terms.get(wa + ((4 + j, "Z"),), 0) + th
        terms[wb + ((4 + j, "X"),)] = terms.get(wb + ((4 + j, "X"),), 0) - th / 2
    return _OpModel(terms)


class _AnsatzModel:
    """stand-in for `self` inside build_circuit / update_var_params of the classes that keep an index table"""
    _sa_model = True

    def __init__(self, kind: str, n_blocks: int, per_block: int, with_reference: bool):
        self.kind, self.k, self.per_block = kind, n_blocks, per_block
        self.n_var_params = n_blocks * per_block
        self.var_params = None
        self.spin = 0
        self.molecule = Rec("Molecule", {"uhf": False})
        self.n_qubits = 0                     # QCC slices the vector at 2 * n_qubits: no mean-field block in the stand-in
        self.n_qmf_params = 0
        self.n_qcc_params = self.n_var_params
        self.dis = "DIS"
        self.qmf_circuit = None
        self.qcc_circuit = None
        self.circuit = None
        self.pauli_to_angles_mapping = {}
        self.with_reference = with_reference

    def set_var_params(self, var_params=None):
        if var_params is None:
            var_params = [0.] * self.n_var_params
        if len(var_params) != self.n_var_params:
            raise Raised("ValueError", None)
        self.var_params = [float(x) for x in var_params]
        return self.var_params

    def prepare_reference_state(self):
        return _CircModel([make_gate(["X", [0]], {}), make_gate(["X", [1]], {})] if self.with_reference else [])

    def _get_qcc_generators(self):
        return None

    def _block(self, b):
        return self.var_params[b * self.per_block:(b + 1) * self.per_block]

    def _get_qubit_operator(self, current_k=None):
        if current_k is None:
            return _stand_in_operator(self.var_params, 0)
        return _stand_in_operator(self._block(current_k), current_k)

    def _get_singlet_qubit_operator(self):
        return _stand_in_operator(self.var_params, 0)
    _get_openshell_qubit_operator = _get_singlet_qubit_operator


def check_update_equals_rebuild(idx: Index, rep: Report, c: ClassInfo):
    """build_circuit and update_var_params of `c` folded on a stand-in `self` whose qubit operator is a checker-chosen function of the parameter
    vector (two words per parameter, zero parameters drop their words).  After build(v0), update(v1), ... the circuit must equal, gate by
    gate, the one a fresh object builds from the last vector - for dense vectors, vectors with zeros (words disappear / re-appear), several
    blocks of different sizes, with and without a reference circuit."""
    rule = "K8.update-equals-rebuild"
    from ..consteval import make_gate as _mg
    from ..rules.circuitsem import make_folder
    bld, upd = idx.find_method(c, "build_circuit"), idx.find_method(c, "update_var_params")
    multi = c.name == "UpCCGSD"
    n_blocks, per_block = (3, 2) if multi else (1, 4)
    seqs = [
        [[.3, -.7, .2, .5, -.1, .9], [.1, .2, -.3, .4, .5, -.6]],                                # dense -> dense
        [[.3, -.7, .2, .5, -.1, .9], [.1, 0., -.3, .4, .5, -.6]],                                # a word set shrinks
        [[.3, 0., .2, .5, -.1, .9], [.1, 0., -.3, .4, .5, -.6], [.2, 0., .3, -.4, .6, .7]],        # zero confined to the first block, kept
        [[.3, -.7, 0., .5, -.1, .9], [.1, .2, 0., .4, .5, -.6]],                                 # zero confined to the middle block, kept
        [[.3, 0., .2, .5, -.1, .9], [.1, .25, -.3, .4, .5, -.6]],                                # a word set grows
        [[0., 0., 0., 0., 0., 0.], [.1, .2, -.3, .4, .5, -.6]],                                  # from the reference state
        [[.3, -.7, .2, .5, -.1, .9], [0., 0., 0., 0., 0., 0.]],                                  # back to the reference state
        [[.3, -.7, .2, .5, -.1, .9], [.1, 0., -.3, .4, .5, -.6], [.2, .35, .3, -.4, .6, .7]],      # a word set shrinks, then grows back
        [[.3, -.7, .2, .5, -.1, .9], [.1, .2, -.3, 0., .5, 0.], [.2, .35, .3, -.4, .6, .7], [.5, .1, 0., .3, .2, .1]],
    ]
    from ..rules import circuitsem as _cs
    ctors = {"Circuit": lambda a, k: _CircModel(*a, **k), "build_qcc_qubit_op": lambda a, k: _stand_in_operator(a[1], 0),
             ("Gate", "inverse"): _cs.gate_inverse_ctor(idx)}
    n = 0
    for with_ref in (False, True):
        for seq in seqs:
            seq = [v[:n_blocks * per_block] for v in seq]
            try:
                a = _AnsatzModel(c.name, n_blocks, per_block, with_ref)
                fo = make_folder(idx, bld.module.relpath, ctors=ctors)
                fo.env["np.pi"] = math.pi
                fo.run_function(bld.node, {"self": a, "var_params": list(seq[0])})
                for v in seq[1:]:
                    fo = make_folder(idx, upd.module.relpath, ctors=ctors)
                    fo.env["np.pi"] = math.pi
                    # the update may call self.build_circuit: bind it to the folded method
                    a.build_circuit = lambda vp=None, a=a: _fold_build(idx, bld, a, vp, ctors)
                    fo.run_function(upd.node, {"self": a, "var_params": list(v)})
                b = _AnsatzModel(c.name, n_blocks, per_block, with_ref)
                fo = make_folder(idx, bld.module.relpath, ctors=ctors)
                fo.env["np.pi"] = math.pi
                fo.run_function(bld.node, {"self": b, "var_params": list(seq[-1])})
            except Undecidable as e:
                raise AnalysisError(f"{c.name}: build/update not foldable on the stand-in: {e}")
            except Raised as e:
                n += 1
                rep.violation(rule, upd, upd.node, text=f"{c.name}: build{seq[0]} then update{seq[1:]}, reference={'yes' if with_ref else 'no'}",
                              what="updating the parameters gives the circuit a fresh build gives", reason=f"raises {e.exc_type} (e.g. an index beyond the variational gates)")
                continue
            sa_, sb_ = a.circuit.signature(), b.circuit.signature()
            same = len(sa_) == len(sb_) and all(x[:3] == y[:3] and x[4] == y[4] and _same_angle(x[3], y[3]) for x, y in zip(sa_, sb_))
            n += 1
            diff = next((f"gate {i}: {x} vs {y}" for i, (x, y) in enumerate(zip(sa_, sb_)) if not (x[:3] == y[:3] and _same_angle(x[3], y[3]))), f"{len(sa_)} vs {len(sb_)} gates")
            rep.decide(same, rule, upd, upd.node, text=f"{c.name}: build{seq[0]} then update{seq[1:]}, reference={'yes' if with_ref else 'no'}",
                       what="after any sequence of updates the circuit equals, gate by gate, the circuit a fresh object builds from the last vector",
                       reason=f"updated circuit differs from a rebuilt one at {diff}")
    rep.floor(f"{c.name}: update-vs-rebuild sequences", n, 10)


def _fold_build(idx, bld, a, vp, ctors):
    from ..rules.circuitsem import make_folder
    fo = make_folder(idx, bld.module.relpath, ctors=ctors)
    fo.env["np.pi"] = math.pi
    return fo.run_function(bld.node, {"self": a, "var_params": vp})


def _same_angle(x, y) -> bool:
    def num(v):
        if isinstance(v, bool) or isinstance(v, str) or v is None:
            return None
        if isinstance(v, (int, float)):
            return float(v)
        if isinstance(v, sp.Basic) and not v.free_symbols:
            return float(sp.N(v, 30))
        return None
    a, b = num(x), num(y)
    if a is None or b is None:
        return x == y
    # angles of rotation gates are compared modulo 4*pi, a period of every (controlled) rotation and phase gate
    d = math.remainder(a - b, 4 * math.pi)
    return abs(d) < 1e-9


# ---------------------------------------------------------------------------------------------------
# the same obligation for classes whose index arithmetic lives in the constructor: the repository class itself is folded
class _QOpM:
    """stand-in for a QubitOperator inside the ansatz classes: terms, constant, `- scalar`, compress(), get_operators()"""
    _sa_model = True

    def __init__(self, terms=None):
        self.terms = dict(terms or {})

    @property
    def constant(self):
        return self.terms.get((), 0.)

    def __sub__(self, c):
        if isinstance(c, _QOpM):
            raise Undecidable("operator - operator")
        t = dict(self.terms)
        t[()] = t.get((), 0.) - c
        return _QOpM(t)

    def compress(self, abs_tol=1e-8):
        self.terms = {k: v for k, v in self.terms.items() if abs(v) > abs_tol}

    def get_operators(self):
        return [_QOpM({k: v}) for k, v in self.terms.items()]


class _SizedArr:
    """stand-in for a one-dimensional numpy array of parameters: size, length, iteration, indexing by position or slice"""
    _sa_model = True

    def __init__(self, data):
        self.data = list(data.data) if isinstance(data, _SizedArr) else list(data)
        self.size = len(self.data)

    def __iter__(self):
        return iter(self.data)

    def __len__(self):
        return len(self.data)

    def __getitem__(self, k):
        return _SizedArr(self.data[k]) if isinstance(k, slice) else self.data[k]

    def tolist(self):
        return list(self.data)


def _class_folder(idx: Index, rel: str):
    from ..rules import circuitsem as _cs
    from ..rules.circuitsem import make_folder

    def hook(val, types_text):
        if "QubitOperator" in types_text:
            return isinstance(val, _QOpM)
        if types_text.strip() == "Circuit":
            return isinstance(val, _CircModel)
        return None
    fo = make_folder(idx, rel, ctors={"Circuit": lambda a, k: _CircModel(*a, **k), ("Gate", "inverse"): _cs.gate_inverse_ctor(idx),
                                      "np.array": lambda a, k: _SizedArr(a[0])}, isinstance_hook=hook)
    fo.env["np.pi"] = math.pi
    return fo


def _method(idx, obj, name, rel):
    cv = obj.cls_val
    from ..consteval import FuncVal
    return FuncVal(cv.methods[name], bound_self=obj, home=(cv.method_home or {}).get(name, cv.home))


def check_qmf_parameter_count(idx: Index, rep: Report):
    """QMF advertises n_var_params and rejects every vector of another length; its circuit has one RX and one RZ per QUBIT of the chosen encoding.  The statement
    that sets the advertised number is folded for every encoding (the register size through the library's own get_qubit_number - two fewer for the
    symmetry-conserving encoding), and the circuit generator is folded on a vector of the advertised length: advertised = variational gates = 2 x qubits."""
    rule = "K6.length-validation"
    QMFF = "tangelo/toolboxes/ansatz_generator/qmf.py"
    QMH = "tangelo/toolboxes/ansatz_generator/_qubit_mf.py"
    MT = "tangelo/toolboxes/qubit_mappings/mapping_transform.py"
    init = idx.function(f"{QMFF}::QMF.__init__")
    sets = [st for st in own_nodes(init.node) if isinstance(st, ast.Assign) and norm(st.targets[0]) == "self.n_var_params"]
    if len(sets) != 1:
        raise AnalysisError("QMF.__init__: the assignment of self.n_var_params was not found")
    gq = idx.function(f"{MT}::get_qubit_number")
    gen = idx.function(f"{QMH}::get_qmf_circuit")
    n = 0
    for mapping in ("JW", "BK", "JKMN", "scBK"):
        for n_so in (4, 6):
            try:
                nq = cs_make_folder(idx, MT).run_function(gq.node, {"mapping": mapping, "n_spinorbitals": n_so})
                me = Rec("QMF", {"n_qubits": nq, "n_spinorbitals": n_so, "n_orbitals": n_so // 2, "mapping": mapping})
                fo = cs_make_folder(idx, QMFF)
                fo.env["self"] = me
                fo.stmt(sets[0])
                adv = me.fields["n_var_params"]
                circ = _class_folder(idx, QMH).run_function(gen.node, {"qmf_var_params": _SizedArr([0.1 * (i + 1) for i in range(int(adv))]), "variational": True})
            except (Undecidable, Raised) as e:
                raise AnalysisError(f"QMF parameter count not foldable ({mapping}, {n_so} spin-orbitals): {type(e).__name__} {e}")
            sig = circ.signature()
            nvar = sum(1 for x in sig if x[4])
            width = max([q for x in sig for q in (x[1] if isinstance(x[1], tuple) else (x[1],))] + [-1]) + 1
            n += 1
            rep.decide(adv == 2 * nq and nvar == adv and width == nq, rule, init, sets[0], text=f"QMF under {mapping}, {n_so} spin-orbitals: advertises {adv} parameters on {nq} qubits",
                       what="the number of parameters advertised (and enforced on every vector) equals the number of variational gates of the circuit - two per qubit of the "
                            "encoded register",
                       reason=f"{adv} advertised, the circuit built from a vector of that length has {nvar} variational gates on {width} qubits; the encoding uses {nq} qubits: a "
                              f"vector of the true length 2 x {nq} is rejected and one of the advertised length builds a circuit on the wrong register")
    rep.floor("QMF encodings folded", n, 8)


def check_vsqs_update_equals_rebuild(idx: Index, rep: Report):
    """VSQS folded as a class (constructor included, operators and circuits replaced by stand-ins): for every combination of Trotter order,
    navigator Hamiltonian and number of intervals, build(v0) followed by updates equals a fresh object built from the last vector."""
    rule = "K8.update-equals-rebuild"
    from ..rules.circuitsem import module_resolver
    VS = "tangelo/toolboxes/ansatz_generator/vsqs.py"
    cls = module_resolver(idx, VS)("VSQS")
    upd = idx.function(f"{VS}::VSQS.update_var_params")
    if cls is None:
        raise AnalysisError("VSQS class not resolvable")
    h_init = {((0, "Z"),): 0.5, ((1, "Z"),): -0.25, (): 1.5}
    h_final = {((0, "X"), (1, "X")): 0.3, ((0, "Z"), (1, "Z")): -0.6, ((1, "Y"),): 0.2, (): -2.0}
    h_nav = {((0, "Y"), (1, "Y")): 0.7, ((0, "X"),): 0.1}
    n = 0
    for order in (1, 2):
        for nav in (None, h_nav):
            for intervals in (2, 3, 4):
                stride = 3 if nav else 2
                npar = (intervals - 1) * stride
                seq = [[0.1 * (k + 1) * (-1) ** k for k in range(npar)], [0.0] * npar, [7.0 + 0.3 * k for k in range(npar)], [0.25] * npar]

                def make():
                    fo = _class_folder(idx, VS)
                    return fo.instantiate(cls, [], {"molecule": None, "mapping": "jw", "up_then_down": False, "intervals": intervals, "time": 1.0,
                                                    "qubit_hamiltonian": _QOpM(h_final), "h_init": _QOpM(h_init), "h_nav": _QOpM(nav) if nav else None,
                                                    "reference_state": _CircModel([make_gate(["X", [0]], {})]), "trotter_order": order})
                label = f"VSQS: Trotter order {order}, {'with' if nav else 'without'} navigator, {intervals} intervals"
                try:
                    a = make()
                    _class_folder(idx, VS).call_funcval(_method(idx, a, "build_circuit", VS), [list(seq[0])], {})
                    for v in seq[1:]:
                        _class_folder(idx, VS).call_funcval(_method(idx, a, "update_var_params", VS), [list(v)], {})
                    b = make()
                    _class_folder(idx, VS).call_funcval(_method(idx, b, "build_circuit", VS), [list(seq[-1])], {})
                except Undecidable as e:
                    raise AnalysisError(f"{label}: not foldable: {e}")
                except Raised as e:
                    n += 1
                    rep.violation(rule, upd, upd.node, text=label, what="updating the parameters gives the circuit a fresh build gives", reason=f"raises {e.exc_type}")
                    continue
                sa_, sb_ = a.fields["circuit"].signature(), b.fields["circuit"].signature()
                same = len(sa_) == len(sb_) and all(x[:3] == y[:3] and x[4] == y[4] and _same_angle(x[3], y[3]) for x, y in zip(sa_, sb_))
                diff = next((f"gate {i}: {x} vs {y}" for i, (x, y) in enumerate(zip(sa_, sb_)) if not (x[:3] == y[:3] and _same_angle(x[3], y[3]))), f"{len(sa_)} vs {len(sb_)} gates")
                n += 1
                rep.decide(same, rule, upd, upd.node, text=label,
                           what="after any sequence of updates the circuit equals, gate by gate, the circuit a fresh object builds from the last vector",
                           reason=f"updated circuit differs from a rebuilt one at {diff}")
    rep.floor("VSQS update-vs-rebuild configurations", n, 12)


# ---------------------------------------------------------------------------------------------------
CLASS_FOLDS = ("pUCCD", "HEA", "RUCC", "VariationalCircuitAnsatz")


def check_class_update_histories(idx: Index, rep: Report, tier: str = "quick"):
    """The ansaetze whose circuit is a fixed template (pUCCD, HEA, RUCC, a user circuit) are folded as classes - constructor, set_var_params,
    build_circuit, update_var_params, with Circuit replaced by a gate-list stand-in -: after build(v0), update(v1), update(v2) the circuit must
    equal, gate by gate, the one a fresh object builds from v2; a fresh build must equal build-then-update with the same vector; vectors one
    too short or too long must be refused by both entry points and leave the circuit as it was."""
    rule = "K8.update-equals-rebuild"
    from ..rules.circuitsem import module_resolver
    AG = "tangelo/toolboxes/ansatz_generator/"

    def user_circuit():
        return _CircModel([make_gate(["H", [0]], {}), make_gate(["RY", [1]], {"parameter": .5, "is_variational": True}), make_gate(["CNOT", [1]], {"control": [0]}),
                           make_gate(["RZ", [0]], {"parameter": -.3, "is_variational": True}), make_gate(["CRX", [2]], {"control": [1], "parameter": 2., "is_variational": True})])
    table = [
        (AG + "puccd.py", "pUCCD", lambda: {"molecule": Rec("Mol", {"spin": 0, "n_active_mos": 4, "n_active_electrons": 4}), "reference_state": "HF"}),
        (AG + "puccd.py", "pUCCD", lambda: {"molecule": Rec("Mol", {"spin": 0, "n_active_mos": 5, "n_active_electrons": 4}), "reference_state": "zero"}),
        (AG + "hea.py", "HEA", lambda: {"molecule": None, "mapping": "jw", "up_then_down": False, "n_layers": 2, "rot_type": "euler", "n_qubits": 3, "n_electrons": 2, "reference_state": "HF"}),
        (AG + "hea.py", "HEA", lambda: {"molecule": None, "mapping": "jw", "up_then_down": False, "n_layers": 1, "rot_type": "real", "n_qubits": 2, "n_electrons": 2, "reference_state": "zero"}),
        (AG + "rucc.py", "RUCC", lambda: {"n_var_params": 1}),
        (AG + "rucc.py", "RUCC", lambda: {"n_var_params": 3}),
        (AG + "variational_circuit.py", "VariationalCircuitAnsatz", lambda: {"abstract_circuit": user_circuit()}),
    ]
    n = 0
    for rel, cname, kw in table:
        cls = module_resolver(idx, rel)(cname)
        if cls is None:
            raise AnalysisError(f"{cname} not resolvable")
        upd = idx.function(f"{rel}::{cname}.update_var_params")
        conf = ", ".join(f"{k}={v!r}" for k, v in kw().items() if isinstance(v, (int, str)))

        def make():
            return _class_folder(idx, rel).instantiate(cls, [], kw())

        def call(obj, meth, *args):
            return _class_folder(idx, rel).call_funcval(_method(idx, obj, meth, rel), list(args), {})

        def sig(obj):
            return obj.fields["circuit"].signature()

        def same(x_, y_):
            return len(x_) == len(y_) and all(x[:3] == y[:3] and x[4] == y[4] and _same_angle(x[3], y[3]) for x, y in zip(x_, y_))
        try:
            npar = make().fields["n_var_params"]
            v0 = [0.1 * (k + 1) * (-1) ** k for k in range(npar)]
            v1 = [0.] * npar
            v2 = [7.0 - 0.45 * k for k in range(npar)]
            v3 = [0.25 if k % 2 else -0.25 for k in range(npar)]
            for seq in ([v0, v2], [v0, v1, v3], [v1, v2, v0], [v3]):
                label = f"{cname}({conf}): build then {len(seq) - 1} update(s)" if len(seq) > 1 else f"{cname}({conf}): fresh build vs build followed by an update with the same vector"
                try:
                    a = make()
                    call(a, "build_circuit", list(seq[0]))
                    for v in (seq[1:] if len(seq) > 1 else seq):
                        call(a, "update_var_params", list(v))
                    b = make()
                    call(b, "build_circuit", list(seq[-1]))
                except Raised as e:
                    n += 1
                    rep.violation(rule, upd, upd.node, text=label, what="updating the parameters gives the circuit a fresh build gives", reason=f"raises {e.exc_type}")
                    continue
                n += 1
                diff = next((f"gate {g}: {x} vs {y}" for g, (x, y) in enumerate(zip(sig(a), sig(b))) if not (x[:3] == y[:3] and _same_angle(x[3], y[3]))), f"{len(sig(a))} vs {len(sig(b))} gates")
                rep.decide(same(sig(a), sig(b)), rule, upd, upd.node, text=label,
                           what="after any sequence of updates the circuit equals, gate by gate, the circuit a fresh object builds from the last vector",
                           reason=f"updated circuit differs from a rebuilt one at {diff}")
            # every advertised parameter is live: changing one entry of the vector changes the circuit (through build and through update)
            ks = sorted({0, npar // 2, npar - 1}) if tier == "quick" else list(range(npar))
            dead = []
            for k in ks:
                vk = list(v0)
                vk[k] += 0.37
                a, b, c2 = make(), make(), make()
                call(a, "build_circuit", list(v0))
                call(b, "build_circuit", list(vk))
                call(c2, "build_circuit", list(v0))
                call(c2, "update_var_params", list(vk))
                if same(sig(a), sig(b)) or same(sig(a), sig(c2)):
                    dead.append(k)
            n += 1
            rep.decide(not dead, "K8.live-parameters", upd, upd.node, text=f"{cname}({conf}): each of the {npar} advertised parameters changes the circuit (positions {ks})",
                       what="the number of parameters accepted is the number the circuit depends on: changing any one entry changes some gate, through build and through update",
                       reason=f"parameter(s) {dead} have no effect on the circuit")
            # wrong lengths
            for meth in ("update_var_params", "build_circuit"):
                for bad in (v0[:-1], v0 + [0.3]) if npar > 0 else ():
                    a = make()
                    call(a, "build_circuit", list(v0))
                    before = sig(a)
                    try:
                        call(a, meth, list(bad))
                        refused = False
                    except Raised:
                        refused = True
                    n += 1
                    rep.decide(refused and same(sig(a), before), "K6.length-validation", idx.function(f"{rel}::{cname}.{meth}") if meth in idx.cls(f"{rel}::{cname}").methods else upd, None,
                               text=f"{cname}({conf}).{meth} with {len(bad)} values where {npar} are expected",
                               what="a vector of any other length than the advertised number of parameters is refused and the circuit is left as it was",
                               reason="accepted" if not refused else "refused, but the circuit was changed before the refusal")
        except Undecidable as e:
            raise AnalysisError(f"{cname}({conf}): class not foldable: {e}")
    rep.floor("template ansatz histories folded", n, 40)


# ---------------------------------------------------------------------------------------------------
def _order_folder(idx: Index, rel: str):
    """class folder whose fermionic / qubit operators are the order-aware stand-ins (sa/rules/ofmodel.py): Jordan-Wigner, interleaved spin-orbitals"""
    from ..rules import ofmodel as om
    fo = _class_folder(idx, rel)
    fo.ctors = dict(fo.ctors)
    fo.ctors.pop("np.array", None)          # parameter vectors are concrete numpy arrays here, so that comparisons between vectors are decided by their values
    fo.real_arrays = True
    fo.ctors.update({"FermionOperator": lambda a, k: om.OrdFermionOp(*a, **k), "hermitian_conjugated": lambda a, k: om.hermitian_conjugated(a[0]),
                     "fermion_to_qubit_mapping": lambda a, k: om.jordan_wigner(k["fermion_operator"] if "fermion_operator" in k else a[0]),
                     "get_reference_circuit": lambda a, k: _CircModel([make_gate(["X", [0]], {}), make_gate(["X", [1]], {})]), "print": lambda a, k: None})
    return fo


def check_term_order_histories(idx: Index, rep: Report, tier: str):
    """The circuit of an operator-based ansatz lists one exponential per Pauli word *in the order the qubit operator lists its terms*, and the
    exponentials do not commute.  For the classes whose generator is repository code, that order is computed here by folding the class's own
    generator with order-aware operator stand-ins, for a generic vector and for every vector that repeats one value (with either sign) in a second
    position.  Where a repeated value changes the order but not the set of words, the class is folded through build(generic), update(special)
    and compared with a fresh build(special): the update path has to notice."""
    rule = "K8.term-order"
    from ..rules import ofmodel as om
    from ..rules.circuitsem import module_resolver
    why = om.source_facts_hold()
    if why:
        raise AnalysisError(f"order-aware operator stand-ins do not mirror the installed openfermion: {why}")
    table = [
        ("tangelo/toolboxes/ansatz_generator/uccgd.py", "UCCGD", lambda: {"molecule": Rec("Mol", {"n_active_sos": 6, "n_active_electrons": 2, "active_spin": 0}), "mapping": "JW",
                                                                        "up_then_down": False, "reference_state": "HF"}, lambda a: []),
        ("tangelo/toolboxes/ansatz_generator/upccgsd.py", "UpCCGSD", lambda: {"molecule": Rec("Mol", {"n_active_sos": 6, "n_active_electrons": 2, "active_spin": 0, "spin": 0}), "mapping": "JW",
                                                                            "up_then_down": False, "k": 1, "reference_state": "HF"}, lambda a: [0]),
    ]
    for rel, cname, kw, gen_args in table:
        cls = module_resolver(idx, rel)(cname)
        if cls is None:
            raise AnalysisError(f"{cname} not resolvable")
        upd = idx.function(f"{rel}::{cname}.update_var_params")

        def make():
            return _order_folder(idx, rel).instantiate(cls, [], kw())

        def order(a, vec):
            a.fields["var_params"] = np.array(vec, dtype=float)
            q = _order_folder(idx, rel).call_funcval(_method(idx, a, "_get_qubit_operator", rel), gen_args(a), {})
            return [w for w, _ in q.terms.items()]
        try:
            a0 = make()
            n = a0.fields["n_var_params"]
            base = [0.1 + 0.037 * k * (-1) ** k + 0.011 * k * k for k in range(n)]
            o0 = order(a0, base)
            pairs = [(i, j, sg) for i in range(n) for j in range(n) if i != j for sg in (-1, 1)]
            if tier == "quick":
                pairs = [(i, j, sg) for (i, j, sg) in pairs if i < j]
            witnesses = []
            for i, j, sg in pairs:
                v = list(base)
                v[j] = sg * v[i]
                o1 = order(a0, v)
                if o1 != o0 and set(o1) == set(o0):
                    witnesses.append((i, j, sg, v))
        except Undecidable as e:
            raise AnalysisError(f"{cname}: generator not foldable with the order-aware stand-ins: {e}")
        except Raised as e:
            raise AnalysisError(f"{cname}: generator raises {e.exc_type} on the stand-ins")
        rep.ok(rule, upd, upd.node, text=f"{cname}: term order of the generator for {len(pairs)} vectors with a repeated value ({n} parameters, {len(o0)} words): "
                                          f"{len(witnesses)} change the order without changing the set",
               what="where the order of the operator's terms depends on the parameter values is found by folding the generator", nontrivial=False)
        # a vector stored through set_var_params and then handed to update_var_params: the circuit must hold it afterwards
        try:
            v2 = [0.05 * (k + 1) * (-1) ** (k // 2) for k in range(n)]
            a = make()
            _order_folder(idx, rel).call_funcval(_method(idx, a, "build_circuit", rel), [list(base)], {})
            _order_folder(idx, rel).call_funcval(_method(idx, a, "set_var_params", rel), [list(v2)], {})
            _order_folder(idx, rel).call_funcval(_method(idx, a, "update_var_params", rel), [list(v2)], {})
            b = make()
            _order_folder(idx, rel).call_funcval(_method(idx, b, "build_circuit", rel), [list(v2)], {})
            sa_, sb_ = a.fields["circuit"].signature(), b.fields["circuit"].signature()
            same = len(sa_) == len(sb_) and all(x[:3] == y[:3] and x[4] == y[4] and _same_angle(x[3], y[3]) for x, y in zip(sa_, sb_))
            rep.decide(same, "K8.update-equals-rebuild", upd, upd.node, text=f"{cname}: build(v0), set_var_params(v1), update_var_params(v1) vs a fresh build(v1)",
                       what="an update writes the given vector into the circuit also when the same vector was stored through set_var_params just before",
                       reason="the circuit still holds the angles of the earlier vector (the update trusted the stored parameters to describe the circuit)")
        except Undecidable as e:
            raise AnalysisError(f"{cname}: set / update history not foldable: {e}")
        except Raised as e:
            rep.violation("K8.update-equals-rebuild", upd, upd.node, text=f"{cname}: build, set_var_params, update_var_params", what="a stored vector can be handed to update", reason=f"raises {e.exc_type}")
        for i, j, sg, v in witnesses[:2]:
            label = f"{cname}: build(generic) then update(theta[{j}] = {'-' if sg < 0 else ''}theta[{i}]) vs a fresh build"
            try:
                a = make()
                _order_folder(idx, rel).call_funcval(_method(idx, a, "build_circuit", rel), [list(base)], {})
                _order_folder(idx, rel).call_funcval(_method(idx, a, "update_var_params", rel), [list(v)], {})
                b = make()
                _order_folder(idx, rel).call_funcval(_method(idx, b, "build_circuit", rel), [list(v)], {})
            except Undecidable as e:
                raise AnalysisError(f"{label}: not foldable: {e}")
            except Raised as e:
                rep.violation(rule, upd, upd.node, text=label, what="updating the parameters gives the circuit a fresh build gives", reason=f"raises {e.exc_type}")
                continue
            sa_, sb_ = a.fields["circuit"].signature(), b.fields["circuit"].signature()
            same = len(sa_) == len(sb_) and all(x[:3] == y[:3] and x[4] == y[4] and _same_angle(x[3], y[3]) for x, y in zip(sa_, sb_))
            diff = next((f"gate {g}: {x} vs {y}" for g, (x, y) in enumerate(zip(sa_, sb_)) if not (x[:3] == y[:3] and _same_angle(x[3], y[3]))), f"{len(sa_)} vs {len(sb_)} gates")
            rep.decide(same, rule, upd, upd.node, text=label,
                       what="when a repeated parameter value changes the order in which the operator lists its Pauli words (same set), the updated circuit still equals, "
                            "gate by gate, the circuit a fresh object builds (the exponentials do not commute)",
                       reason=f"updated circuit keeps the old word order; differs from a rebuilt one at {diff}")


def check_adapt_grow_equals_restart(idx: Index, rep: Report):
    """ADAPTAnsatz folded as a class: an ansatz grown operator by operator (add_operator) and then updated equals one restarted from the recorded
    operators and built with the same vector - the two places that derive the per-word prefactor from an operator must agree."""
    rule = "K8.update-equals-rebuild"
    from ..rules.circuitsem import module_resolver
    AD = "tangelo/toolboxes/ansatz_generator/adapt_ansatz.py"
    cls = module_resolver(idx, AD)("ADAPTAnsatz")
    addf = idx.function(f"{AD}::ADAPTAnsatz.add_operator")
    if cls is None:
        raise AnalysisError("ADAPTAnsatz class not resolvable")
    op1 = {((0, "X"), (1, "Y")): 0.5, ((0, "Y"), (1, "X")): -0.5}
    op2 = {((2, "Y"), (0, "X"), (1, "X"), (3, "X")): -0.125, ((2, "X"), (0, "X"), (1, "X"), (3, "Y")): 0.125, ((1, "Z"),): 2.0}
    n = 0
    for vec in ([0.3, -0.4], [0.0, 0.0], [7.5, 0.2]):
        def inst(ops):
            fo = _class_folder(idx, AD)
            return fo.instantiate(cls, [4, 2, 0], {"ansatz_options": {"operators": ops, "reference_state": "zero"}})
        try:
            a = inst([])
            _class_folder(idx, AD).call_funcval(_method(idx, a, "build_circuit", AD), [], {})
            for o in (op1, op2):
                _class_folder(idx, AD).call_funcval(_method(idx, a, "add_operator", AD), [_QOpM(o)], {})
            _class_folder(idx, AD).call_funcval(_method(idx, a, "update_var_params", AD), [list(vec)], {})
            b = inst([_QOpM(op1), _QOpM(op2)])
            _class_folder(idx, AD).call_funcval(_method(idx, b, "build_circuit", AD), [list(vec)], {})
        except Undecidable as e:
            raise AnalysisError(f"ADAPTAnsatz grow/restart not foldable: {e}")
        except Raised as e:
            n += 1
            rep.violation(rule, addf, addf.node, text=f"ADAPT: grown with two operators, updated to {vec}", what="a grown ansatz equals a restarted one", reason=f"raises {e.exc_type}")
            continue
        sa_, sb_ = a.fields["circuit"].signature(), b.fields["circuit"].signature()
        same = len(sa_) == len(sb_) and all(x[:3] == y[:3] and x[4] == y[4] and _same_angle(x[3], y[3]) for x, y in zip(sa_, sb_))
        diff = next((f"gate {i}: {x} vs {y}" for i, (x, y) in enumerate(zip(sa_, sb_)) if not (x[:3] == y[:3] and _same_angle(x[3], y[3]))), f"{len(sa_)} vs {len(sb_)} gates")
        n += 1
        rep.decide(same, rule, addf, addf.node, text=f"ADAPT: grown with two operators then updated to {vec} = restarted from the recorded operators and built with {vec}",
                   what="growing the ansatz operator by operator and restarting it from the recorded operators give the same circuit for the same parameters",
                   reason=f"circuits differ at {diff}")
    rep.floor("ADAPT grow-vs-restart vectors", n, 3)


# ---------------------------------------------------------------------------------------------------
def check_qmf_based_histories(idx: Index, rep: Report):
    """QCC and ILC carry a mean-field block in front of their own amplitudes.  Their set_var_params / build_circuit / update_var_params / prepare_reference_state
    are folded as the classes' own methods on an instance put together by the checker (the constructor, which screens generators from a Hamiltonian, is bypassed;
    the generator list is two fixed Pauli words; the mean-field circuit and the ansatz operator are stand-ins that depend on the parameters they are given):
    update == rebuild when the mean-field block of the vector changes too; a vector of the wrong length is refused and *not kept*."""
    import math
    from ..rules.circuitsem import module_resolver
    rule = "K8.update-equals-rebuild"
    AG = "tangelo/toolboxes/ansatz_generator/"

    def qmf_circuit(a, k):
        params = list(a[0])
        return _CircModel([make_gate(["RX" if i % 2 == 0 else "RZ", [i // 2]], {"parameter": float(params[i])}) for i in range(len(params))])

    def op_list(a, k):
        gens, taus = a
        return [_OpModel({WORDS[j % len(WORDS)]: float(t)}) for j, t in enumerate(taus)]
    for rel, cname, own, gens_field in ((AG + "qcc.py", "QCC", "n_qcc_params", "dis"), (AG + "ilc.py", "ILC", "n_ilc_params", "acs")):
        cls = module_resolver(idx, rel)(cname)
        if cls is None:
            raise AnalysisError(f"{cname} not resolvable")
        upd = idx.function(f"{rel}::{cname}.update_var_params")
        svp = idx.function(f"{rel}::{cname}.set_var_params")

        def folder():
            fo = _class_folder(idx, rel)
            fo.ctors = dict(fo.ctors)
            fo.ctors.pop("np.array", None)
            fo.real_arrays = True
            fo.ctors.update({"get_qmf_circuit": qmf_circuit, "build_qcc_qubit_op": lambda a, k: _stand_in_operator([float(x) for x in a[1]], 0), "build_ilc_qubit_op_list": op_list})
            fo.env["np.pi"] = math.pi
            return fo

        def make():
            me = Rec(cname, {"n_qubits": 2, "n_qmf_params": 4, own: 2, "n_var_params": 6, "qmf_var_params": np.array([math.pi, 0., 0., 0.]), gens_field: ["G0", "G1"],
                             "dis": ["G0", "G1"], "qmf_circuit": None, "qcc_circuit": None, "ilc_circuit": None, "circuit": None, "var_params": None, "pauli_to_angles_mapping": {},
                             "reference_state": "HF", "supported_reference_state": {"HF"}, "supported_initial_var_params": set(), "var_params_default": "diag",
                             "max_qcc_gens": None, "max_ilc_gens": None, "rebuild_dis": False})
            me.cls_val = cls
            return me

        def call(obj, meth, *args):
            return folder().call_funcval(_method(idx, obj, meth, rel), list(args), {})

        def sig(obj):
            return obj.fields["circuit"].signature()

        def same(x_, y_):
            return len(x_) == len(y_) and all(x[:3] == y[:3] and x[4] == y[4] and _same_angle(x[3], y[3]) for x, y in zip(x_, y_))
        v0 = [math.pi, 0., 0., 0., 0.3, -0.2]
        seqs = [[v0, [math.pi, 0., 0., 0., -0.5, 0.7]], [v0, [2.1, 0.4, 0.9, -0.3, 0.25, 0.6]], [v0, [1.0, 0.2, 0.3, 0.4, 0.3, -0.2], [0.5, 0.1, 2.0, 0.0, 0.1, 0.1]]]
        try:
            for seq in seqs:
                a = make()
                call(a, "build_circuit", list(seq[0]))
                for v in seq[1:]:
                    call(a, "update_var_params", list(v))
                b = make()
                call(b, "build_circuit", list(seq[-1]))
                diff = next((f"gate {g}: {x} vs {y}" for g, (x, y) in enumerate(zip(sig(a), sig(b))) if not (x[:3] == y[:3] and _same_angle(x[3], y[3]))), f"{len(sig(a))} vs {len(sig(b))} gates")
                rep.decide(same(sig(a), sig(b)), rule, upd, upd.node, text=f"{cname}: build{seq[0]} then update{seq[1:]} (mean-field block {'changed' if seq[-1][:4] != seq[0][:4] else 'unchanged'})",
                           what="after any sequence of updates the circuit equals, gate by gate, the circuit a fresh object builds from the last vector - also when the leading "
                                "mean-field entries of the vector change", reason=f"updated circuit differs from a rebuilt one at {diff}")
            for bad in (v0[:-1], v0 + [0.1]):
                a = make()
                call(a, "build_circuit", list(v0))
                kept = np.array(a.fields["var_params"], dtype=float).tolist()
                try:
                    call(a, "set_var_params", list(bad))
                    refused = False
                except Raised:
                    refused = True
                now = np.array(a.fields["var_params"], dtype=float).tolist()
                rep.decide(refused and now == kept, "K6.length-validation", svp, svp.node, text=f"{cname}.set_var_params with {len(bad)} values where 6 are expected",
                           what="a vector of any other length than the advertised number of parameters is refused and not kept",
                           reason="accepted" if not refused else f"refused, but stored: var_params now has {len(now)} entries - a later build_circuit() without argument builds from it")
        except Undecidable as e:
            raise AnalysisError(f"{cname}: methods not foldable on the checker-built instance: {e}")
        except Raised as e:
            rep.violation(rule, upd, upd.node, text=f"{cname}: build / update history", what="updating the parameters gives the circuit a fresh build gives", reason=f"raises {e.exc_type}")
