"""C01 Backend simulation matches the documented gate semantics (structural part).

C01.a K3  translator dispatch vs its name table (cirq, sympy; thorough: all eleven): every branch name indexes an
          existing table key, every advertised key reaches a branch (reasoned exceptions), the chain ends in a raise
C01.b K5  "any number of controls": a controlled branch consumes the whole control list, or multi-control is
          refused / re-dispatched before the chain
C01.c K5  operand order in emitted calls: control-derived operands precede target-derived ones; two-target names use
          target[0], target[1] in that order
C01.d K9  parameter units and hand-written matrices: the table maps each name to a backend symbol of the right
          semantic class (frozen API model), angle arguments normalise to the model's unit, sympy matrices equal the
          reference matrices symbolically
C01.e K10 endianness: bitstrings returned by simulate_circuit list qubit 0 first; the statevector index order equals
          the order the backend advertises; the sampling round trip in Backend keeps bit order
C01.f K6/K7 idle qubits are simulated (identity on every qubit before the gate loop); a user initial statevector is
          forwarded to every simulate call that may see it
"""
from __future__ import annotations

import ast
from typing import Dict, List, Optional, Set, Tuple

import sympy as sp

from ..consteval import Folder, FuncVal, Opaque, Raised, Rec, Undecidable
from ..index import AnalysisError, FunctionInfo, Index, norm, own_nodes, resolve_local, full
from ..report import Report
from ..rules import translators as tr
from ..rules.tables import fold_table, table_func
from .. import symx

CIRQ_T = "tangelo/linq/translator/translate_cirq.py"
SYMPY_T = "tangelo/linq/translator/translate_sympy.py"
BACKEND = "tangelo/linq/target/backend.py"
TCIRQ = "tangelo/linq/target/target_cirq.py"
TSYMPY = "tangelo/linq/target/target_sympy.py"
IN_QUANTIFIER = {"cirq", "sympy"}

# never-dispatched table keys, each with its reason
DISPATCH_EXCEPTIONS = {
    ("cirq", "CMEASURE"): "CirqSimulator splits the circuit at CMEASURE gates (get_unitary_circuit_pieces) before translating",
    ("stim", "I"): "used literally to touch every qubit",
    ("stim", "MEASURE"): "measurements are added by the stim target, not the translator",
    ("tableau", "I"): "table shared with translate_c_to_stim",
    ("tableau", "MEASURE"): "table shared with translate_c_to_stim",
    ("tableau", "CX"): None,
}

# ---- frozen API model of the backend symbols the tables use -------------------------------------------------------------
# semantic class of each cirq symbol (what unitary family it denotes) and the unit of its angle argument
CIRQ_MODEL = {
    "cirq.H": ("H", None), "cirq.X": ("X", None), "cirq.Y": ("Y", None), "cirq.Z": ("Z", None), "cirq.S": ("S", None),
    "cirq.T": ("T", None), "cirq.CNOT": ("CNOT", None), "cirq.SWAP": ("SWAP", None),
    "cirq.rx": ("RX", "rads"), "cirq.ry": ("RY", "rads"), "cirq.rz": ("RZ", "rads"),
    "cirq.ZPowGate": ("ZPOW", "exponent"),        # diag(1, exp(i*pi*t)) when global_shift = 0
    "cirq.XXPowGate": ("XXPOW", "exponent"),      # exp(i*pi*t*s) * (XX)^t ; with global_shift s=-1/2: exp(-i*pi*t/2 * XX)
    "cirq.measure": ("MEASURE", None),
    # fixed-arity controlled symbols (exactly one control, or two for CCX/CCZ): right for that many controls only
    "cirq.CSWAP": ("CSWAP1", None), "cirq.FREDKIN": ("CSWAP1", None), "cirq.CZ": ("CZ1", None), "cirq.CX": ("CNOT", None),
    "cirq.CCX": ("CCX2", None), "cirq.TOFFOLI": ("CCX2", None), "cirq.CCZ": ("CCZ2", None),
}
# a fixed-arity controlled symbol is an acceptable image of the controlled name (the controls rule K5 then demands a refusal of
# other control counts)
CIRQ_ALSO_OK = {"CSWAP": {"CSWAP1"}, "CZ": {"CZ1"}, "CX": {"CNOT"}}
# Tangelo name -> (semantic class expected in the table, controlled through .controlled())
CIRQ_EXPECT = {
    "H": "H", "X": "X", "Y": "Y", "Z": "Z", "S": "S", "T": "T", "CH": "H", "CX": "X", "CY": "Y", "CZ": "Z",
    "RX": "RX", "RY": "RY", "RZ": "RZ", "CRX": "RX", "CRY": "RY", "CRZ": "RZ", "CNOT": "CNOT", "PHASE": "ZPOW",
    "CPHASE": "ZPOW", "XX": "XXPOW", "SWAP": "SWAP", "CSWAP": "SWAP", "MEASURE": "MEASURE", "CMEASURE": "MEASURE",
    "SDAG": "ZPOW(-1/2)",
}
SYMPY_GATE_MOD = "sympy.physics.quantum.gate."
SYMPY_EXPECT = {
    "H": SYMPY_GATE_MOD + "HadamardGate", "X": SYMPY_GATE_MOD + "XGate", "Y": SYMPY_GATE_MOD + "YGate", "Z": SYMPY_GATE_MOD + "ZGate",
    "S": SYMPY_GATE_MOD + "PhaseGate", "T": SYMPY_GATE_MOD + "TGate", "SWAP": SYMPY_GATE_MOD + "SwapGate",
    "CNOT": SYMPY_GATE_MOD + "CNotGate", "CX": SYMPY_GATE_MOD + "CNotGate",
    "PHASE": "p_gate", "RX": "rx_gate", "RY": "ry_gate", "RZ": "rz_gate",
    "CH": ("controlled", SYMPY_GATE_MOD + "HadamardGate"), "CY": ("controlled", SYMPY_GATE_MOD + "YGate"),
    "CZ": ("controlled", SYMPY_GATE_MOD + "ZGate"), "CS": ("controlled", SYMPY_GATE_MOD + "PhaseGate"),
    "CT": ("controlled", SYMPY_GATE_MOD + "TGate"), "CRX": ("controlled", "rx_gate"), "CRY": ("controlled", "ry_gate"),
    "CRZ": ("controlled", "rz_gate"), "CPHASE": ("controlled", "p_gate"),
}


def run(idx: Index, rep: Report, tier: str):
    rep.explain("C01 structural part: table/dispatch agreement of the cirq and sympy translators (all eleven in the thorough tier); "
                "control-list consumption and operand order by provenance; angle units against a frozen model of the cirq symbols "
                "used and exact symbolic comparison of the hand-written sympy matrices; bit-order typestate of every bitstring / "
                "statevector returned by the two installed backends; identity-on-every-qubit and initial-state forwarding.")
    rep.trust("CPython ast", "sa.consteval folding subset", "sympy exact algebra",
              "API model of the cirq / sympy symbols used by the tables (sa/props/C01.py)",
              "cirq final_state_vector and sample_* index qubit 0 as the most significant bit / first column; "
              "sympy Qubit lists qubit n-1 first and qubit_to_matrix indexes qubit 0 as the least significant bit")
    rep.assume("behaviour inside cirq / sympy themselves and sampling statistics are not decided")
    dispatches = {d.fmt: d for d in tr.writer_dispatches(idx)}
    for need in ("cirq", "sympy"):
        if need not in dispatches:
            raise AnalysisError(f"dispatch chain of translate_c_to_{need} not recognised")
    fmts = ["cirq", "sympy"] if tier == "quick" else sorted(dispatches)
    for fmt in fmts:
        check_dispatch_table(idx, rep, dispatches[fmt])
        check_controls(idx, rep, dispatches[fmt])
        check_operand_order(idx, rep, dispatches[fmt])
    rep.floor("translator dispatch chains analysed", len(fmts), 2 if tier == "quick" else 11)
    check_cirq_units(idx, rep, dispatches["cirq"])
    check_no_silent_drop(idx, rep, tier)
    check_sympy_table_and_matrices(idx, rep, dispatches["sympy"])
    check_bit_order(idx, rep)
    check_idle_and_initial_state(idx, rep, dispatches["cirq"])
    from ..rules.chunks import check_chunk_sum
    check_chunk_sum(rep, "K9.shot-conservation", idx.function(f"{BACKEND}::Backend._statevector_to_frequencies"), "self.n_shots")
    check_probability_cutoffs(idx, rep)
    check_sympy_initial_state_shapes(idx, rep)
    check_no_gate_shortcut(idx, rep)


def _sev(rep: Report, fmt: str):
    """violations for the installed backends of the property's quantifier, INFO for the others"""
    return rep.violation if fmt in IN_QUANTIFIER else rep.info


# ---------------------------------------------------------------------------------------------------
def _indexes_table_by_subject(d: tr.Dispatch, br: tr.Branch) -> List[ast.Subscript]:
    out = []
    for st in br.body:
        for n in ast.walk(st):
            if isinstance(n, ast.Subscript) and isinstance(n.value, ast.Name) and n.value.id.startswith("GATE_") and norm(n.slice) == d.subject:
                out.append(n)
    return out


def check_dispatch_table(idx: Index, rep: Report, d: tr.Dispatch):
    rule = "K3.dispatch-table"
    fmt = d.fmt
    table = fold_table(idx, fmt)
    keys = set(table)
    bad = _sev(rep, fmt)
    # branch names index existing keys
    for br in d.branches:
        subs = _indexes_table_by_subject(d, br)
        literal = [n for st in br.body for n in ast.walk(st) if isinstance(n, ast.Subscript) and isinstance(n.value, ast.Name)
                   and n.value.id.startswith("GATE_") and isinstance(n.slice, ast.Constant)]
        for n in literal:
            if n.slice.value in keys:
                rep.ok(rule, d.func, n, text=f"{fmt}: table['{n.slice.value}']", what="literal table key exists")
            else:
                bad(rule, d.func, n, text=f"{fmt}: table['{n.slice.value}']", what="literal table key exists",
                    reason=f"key '{n.slice.value}' is not in the {fmt} table: KeyError at translation time")
        if not subs:
            continue
        for name in sorted(br.names):
            if name in keys:
                rep.ok(rule, d.func, br.node, text=f"{fmt}: branch '{name}' -> table key", what="a dispatched name has a table entry")
            else:
                bad(rule, d.func, br.node, text=f"{fmt}: branch '{name}' -> table key", what="a dispatched name has a table entry",
                    reason=f"branch handles '{name}' through the table, but the {fmt} table has no such key: KeyError instead of the documented ValueError")
    # advertised keys reach a branch
    handled = d.all_names()
    for k in sorted(keys):
        if k in handled:
            rep.ok(rule, d.func, d.chain, text=f"{fmt}: key '{k}' dispatched", what="an advertised gate is translated")
        elif DISPATCH_EXCEPTIONS.get((fmt, k)):
            rep.ok(rule, d.func, d.chain, text=f"{fmt}: key '{k}' (exception)", what=DISPATCH_EXCEPTIONS[(fmt, k)], nontrivial=False)
        else:
            bad(rule, d.func, d.chain, text=f"{fmt}: key '{k}' dispatched", what="an advertised gate is translated",
                reason=f"get_supported_gates() advertises '{k}' for {fmt} but no branch of {d.func.name} handles it")
    # the chain ends in an unconditional raise: nothing is silently dropped
    if d.ends_in_raise():
        rep.ok(rule, d.func, d.chain, text=f"{fmt}: chain ends in raise", what="an unsupported gate is refused, not silently dropped")
    else:
        bad(rule, d.func, d.chain, text=f"{fmt}: chain ends in raise", what="an unsupported gate is refused, not silently dropped",
            reason=f"{d.func.name} has no final else: raise - gates it does not know are skipped without notice")
    # no name handled twice (the later branch would be dead)
    seen: Dict[str, int] = {}
    for br in d.branches:
        for name in br.names:
            if name in seen and not br.extra:
                bad(rule, d.func, br.node, text=f"{fmt}: '{name}' in two branches", what="each name is dispatched once",
                    reason=f"'{name}' already handled at line {seen[name]}: this branch is dead")
            seen.setdefault(name, br.lineno)


# ---------------------------------------------------------------------------------------------------
def _guards(d: tr.Dispatch) -> Tuple[bool, Dict[str, str]]:
    """(multi-control refused before the chain, {name: renamed-to} re-dispatches when more than one control)"""
    refused = False
    renames: Dict[str, str] = {}
    for st in d.pre:
        for n in ast.walk(st):
            if isinstance(n, ast.If):
                t = norm(n.test)
                multi = ("len(%s.control) > 1" % d.var) in t or "num_controls > 1" in t
                if not multi:
                    continue
                if any(isinstance(x, ast.Raise) for x in n.body):
                    # a name restriction in the same test narrows the refusal
                    if "!=" in t or "not in" in t or "==" in t and d.subject in t:
                        continue_names = True
                    refused = refused or ("name" not in t)
                    if "name" in t:
                        # e.g. pennylane: refuse multi-control unless the name is CX
                        for c in ast.walk(n.test):
                            if isinstance(c, ast.Compare) and isinstance(c.ops[0], ast.NotEq) and isinstance(c.comparators[0], ast.Constant):
                                renames["*except*"] = c.comparators[0].value
                for x in n.body:
                    if isinstance(x, ast.Assign) and isinstance(x.value, ast.Constant) and isinstance(x.value.value, str):
                        # gate.name = 'CX'  /  gate_name = 'CX'   under  name == 'CNOT' and num_controls > 1
                        for c in ast.walk(n.test):
                            if isinstance(c, ast.Compare) and isinstance(c.ops[0], ast.Eq) and isinstance(c.comparators[0], ast.Constant):
                                renames[c.comparators[0].value] = x.value.value
    return refused, renames


def check_controls(idx: Index, rep: Report, d: tr.Dispatch):
    rule = "K5.controls"
    fmt = d.fmt
    bad = _sev(rep, fmt)
    refused, renames = _guards(d)
    derived = tr.derived_vars(d.pre, d.var, "control")
    n = 0
    for br in d.branches:
        idxs = tr.control_indices_used(br, d.var)
        whole = tr.uses_whole_control(br, d.var)
        uses_derived = {v for v in derived if any(isinstance(x, ast.Name) and x.id == v for st in br.body for x in ast.walk(st))}
        cnames = sorted(nm for nm in br.names if nm.startswith("C") and nm not in ("CMEASURE",))
        if not cnames:
            continue
        n += 1
        label = f"{fmt}: {{{', '.join(cnames)}}}"
        if whole or any(derived[v] == "whole" for v in uses_derived):
            rep.ok(rule, d.func, br.node, text=label + " consume the whole control list", what="every control qubit of a multi-controlled gate is applied")
            # .controlled(k): k must be the number of controls
            for st in br.body:
                for c in ast.walk(st):
                    if isinstance(c, ast.Call) and isinstance(c.func, ast.Attribute) and c.func.attr == "controlled":
                        arg = norm(c.args[0]) if c.args else ""
                        ok = arg in derived and derived[arg] == "len" or arg == f"len({d.var}.control)"
                        if ok:
                            rep.ok(rule, d.func, c, text=label + f" .controlled({arg})", what="the number of control qubits equals the length of the control list")
                        else:
                            bad(rule, d.func, c, text=label + f" .controlled({arg})", what="the number of control qubits equals the length of the control list",
                                reason=f".controlled({arg}) does not use the number of controls of the gate")
            continue
        if idxs:
            if refused:
                rep.ok(rule, d.func, br.node, text=label + " single control, multi-control refused before the chain",
                       what="gates with several controls are refused rather than truncated")
                continue
            covered = [nm for nm in cnames if nm in renames or renames.get("*except*") not in (None, nm) and "*except*" in renames]
            missing = [nm for nm in cnames if nm not in covered]
            if not missing:
                rep.ok(rule, d.func, br.node, text=label + " single control, multi-control re-dispatched/refused",
                       what="gates with several controls are re-dispatched to a multi-control branch or refused")
            else:
                bad(rule, d.func, br.node, text=label + f" use control[{min(idxs)}] only",
                    what="every control qubit of a multi-controlled gate is applied (or the gate is refused)",
                    reason=f"{d.func.name} applies {missing} with {d.var}.control[0] only and nothing refuses or re-dispatches a gate with several "
                           f"controls: the extra controls are silently dropped")
        else:
            bad(rule, d.func, br.node, text=label + " ignore the control list", what="control qubits are applied",
                reason="branch for controlled gates never reads the control list")
    if fmt in IN_QUANTIFIER:
        rep.floor(f"{fmt} controlled branches", n, 2)


# ---------------------------------------------------------------------------------------------------
def _provenance(e: ast.AST, d: tr.Dispatch, derived_ctrl: Dict[str, str]) -> str:
    """C / T / P / - for an argument expression of an emitted call"""
    kinds = set()
    for n in ast.walk(e):
        if isinstance(n, ast.Attribute) and isinstance(n.value, ast.Name) and n.value.id == d.var:
            if n.attr == "control":
                kinds.add("C")
            elif n.attr == "target":
                kinds.add("T")
            elif n.attr == "parameter":
                kinds.add("P")
        elif isinstance(n, ast.Name) and n.id in derived_ctrl and derived_ctrl[n.id] == "whole":
            kinds.add("C")
        elif isinstance(n, ast.Name) and n.id == "c":
            pass
    if len(kinds) == 1:
        return kinds.pop()
    if not kinds:
        return "-"
    return "".join(sorted(kinds))


def check_operand_order(idx: Index, rep: Report, d: tr.Dispatch):
    rule = "K5.operand-order"
    fmt = d.fmt
    bad = _sev(rep, fmt)
    derived = tr.derived_vars(d.pre, d.var, "control")
    gm = idx.module_by_relpath("tangelo/linq/gate.py")
    from ..index import const_str_set
    two_target = const_str_set(gm.assigned["TWO_TARGET_GATES"]) or frozenset()
    for br in d.branches:
        # (1) within every call / list / f-string: control-derived operands precede target-derived ones
        for st in br.body:
            for c in ast.walk(st):
                seqs: List[List[ast.AST]] = []
                if isinstance(c, ast.Call):
                    seqs.append(list(c.args))
                elif isinstance(c, ast.List):
                    seqs.append(list(c.elts))
                elif isinstance(c, ast.JoinedStr):
                    seqs.append([v.value for v in c.values if isinstance(v, ast.FormattedValue)])
                for seq in seqs:
                    prov = [_provenance(a.value if isinstance(a, ast.Starred) else a, d, derived) for a in seq]
                    if "C" in prov and "T" in prov:
                        ok = max(i for i, p in enumerate(prov) if p == "C") < min(i for i, p in enumerate(prov) if p == "T")
                        txt = f"{fmt}: {{{', '.join(sorted(br.names))}}} operands {''.join(prov)}"
                        if ok:
                            rep.ok(rule, d.func, c, text=txt, what="control qubits are passed before target qubits")
                        else:
                            bad(rule, d.func, c, text=txt, what="control qubits are passed before target qubits",
                                reason=f"emitted call {norm(c)[:80]} passes a target before a control: control and target are exchanged")
        # (2) target indices: two-target names use 0 then 1; one-target names use 0
        used = tr.target_indices_used(br, d.var)
        if not used:
            continue
        twos = [nm for nm in br.names if nm in two_target]
        ones = [nm for nm in br.names if nm not in two_target]
        txt = f"{fmt}: {{{', '.join(sorted(br.names))}}} targets {sorted(used)}"
        if twos and not ones:
            order = [n.slice.value for st in br.body for n in ast.walk(st) if isinstance(n, ast.Subscript) and norm(n.value) == f"{d.var}.target"
                     and isinstance(n.slice, ast.Constant)]
            order.sort(key=lambda v: 0)   # keep textual order as produced by ast.walk (breadth-first within one call)
            ok = used == {0, 1}
            if ok:
                rep.ok(rule, d.func, br.node, text=txt, what="two-target gates act on target[0] and target[1]")
            else:
                bad(rule, d.func, br.node, text=txt, what="two-target gates act on target[0] and target[1]", reason=f"uses target indices {sorted(used)}")
        elif ones and not twos:
            if used == {0}:
                rep.ok(rule, d.func, br.node, text=txt, what="one-target gates act on target[0]")
            else:
                bad(rule, d.func, br.node, text=txt, what="one-target gates act on target[0]", reason=f"uses target indices {sorted(used)}")


# ---------------------------------------------------------------------------------------------------
def _cirq_symbol(v) -> Tuple[str, Dict[str, object]]:
    if isinstance(v, Opaque):
        return v.text, dict(v.kwargs)
    return repr(v), {}


def check_cirq_units(idx: Index, rep: Report, d: tr.Dispatch):
    rule = "K9.cirq-units"
    table = fold_table(idx, "cirq")
    tf = table_func(idx, "cirq")
    n = 0
    for name, v in sorted(table.items()):
        sym, kw = _cirq_symbol(v)
        want = CIRQ_EXPECT.get(name)
        if want is None:
            rep.info(rule, tf, tf.node, text=f"cirq table: {name} -> {sym}", reason="name outside the reference table; not decided")
            continue
        n += 1
        if sym not in CIRQ_MODEL:
            raise AnalysisError(f"cirq symbol {sym} (table entry {name}) is not in the API model: extend sa/props/C01.py")
        cls = CIRQ_MODEL[sym][0]
        if want == "ZPOW(-1/2)":
            ok = cls == "ZPOW" and sp.nsimplify(kw.get("exponent", 0)) == sp.Rational(-1, 2) and not kw.get("global_shift")
        else:
            ok = (cls == want or cls in CIRQ_ALSO_OK.get(name, ())) and not kw
        rep.decide(ok, rule, tf, tf.node, text=f"cirq table: {name} -> {sym}{kw if kw else ''}",
                   what=f"{name} is mapped to a cirq symbol denoting {want}", reason=f"{name} mapped to {sym}{kw if kw else ''}, which denotes {cls}")
    rep.floor("cirq table rows checked", n, 24)
    theta = sp.Symbol("theta", real=True)
    env = {f"{d.var}.parameter": theta}
    for br in d.branches:
        for name in sorted(br.names):
            want = CIRQ_EXPECT.get(name)
            if want not in ("RX", "RY", "RZ", "ZPOW", "XXPOW"):
                continue
            # the constructor call GATE_CIRQ[<subject>](...) of this branch
            ctor = None
            for st in br.body:
                for c in ast.walk(st):
                    if isinstance(c, ast.Call) and isinstance(c.func, ast.Subscript) and isinstance(c.func.value, ast.Name) and c.func.value.id.startswith("GATE_"):
                        ctor = c
            if ctor is None:
                raise AnalysisError(f"cirq branch for {name}: constructor call not found")
            txt = f"{name}: {norm(ctor)[len(norm(ctor.func)):]}"
            try:
                if want in ("RX", "RY", "RZ"):
                    ok = len(ctor.args) == 1 and not ctor.keywords and symx.equal(symx.to_sympy(ctor.args[0], env), theta)
                    what = f"cirq.{want.lower()} takes the Tangelo angle in radians, unchanged"
                elif want == "ZPOW":
                    kws = {k.arg: k.value for k in ctor.keywords}
                    ok = set(kws) == {"exponent"} and not ctor.args and symx.equal(symx.to_sympy(kws["exponent"], env), theta / sp.pi)
                    what = "ZPowGate(exponent=t) is diag(1, exp(i*pi*t)): PHASE(theta) needs t = theta/pi and no global shift"
                else:
                    kws = {k.arg: k.value for k in ctor.keywords}
                    ok = set(kws) == {"exponent", "global_shift"} and not ctor.args and \
                        symx.equal(symx.to_sympy(kws["exponent"], env), theta / sp.pi) and \
                        symx.equal(symx.to_sympy(kws["global_shift"], env), sp.Rational(-1, 2))
                    what = "XXPowGate(exponent=t, global_shift=-1/2) is exp(-i*pi*t/2 XX): XX(theta) needs t = theta/pi"
            except symx.Untranslatable as e:
                raise AnalysisError(f"cirq branch for {name}: argument not translatable: {e}")
            rep.decide(ok, rule, d.func, ctor, text=txt, what=what, reason=f"constructor arguments {txt} do not give {name}(theta)")


def _matrix_of(f: FunctionInfo) -> sp.Matrix:
    """the 2x2 matrix literal passed to ImmutableMatrix / Matrix in a sympy gate helper, local names inlined"""
    local: Dict[str, ast.AST] = {}
    for n in own_nodes(f.node):
        if isinstance(n, ast.Assign) and len(n.targets) == 1 and isinstance(n.targets[0], ast.Name):
            local[n.targets[0].id] = n.value
    mats = [n for n in own_nodes(f.node) if isinstance(n, ast.Call) and norm(n.func).split(".")[-1] in ("ImmutableMatrix", "Matrix") and n.args
            and isinstance(n.args[0], ast.List)]
    if len(mats) != 1:
        raise AnalysisError(f"{f.ref}: expected exactly one matrix literal")
    theta = sp.Symbol("theta", real=True)
    env = {"theta": theta, "I": sp.I}

    def conv(e, depth=0):
        def unk(n):
            if isinstance(n, ast.Name) and n.id in local and depth < 4:
                return conv(local[n.id], depth + 1)
            return None
        return symx.to_sympy(e, env, on_unknown=unk)
    rows = []
    for r in mats[0].args[0].elts:
        if not isinstance(r, ast.List):
            raise AnalysisError(f"{f.ref}: matrix row is not a list")
        rows.append([conv(x) for x in r.elts])
    return sp.Matrix(rows)


def _fold_entry_matrix(idx: Index, fv) -> sp.Matrix:
    """matrix applied by a table entry that is a function of the target built from the module's own matrix gates (rx_gate, ry_gate, rz_gate, p_gate)"""
    theta = sp.Symbol("theta", real=True)
    mats = {fname: _matrix_of(idx.function(f"{SYMPY_T}::{fname}")) for fname in ("rx_gate", "ry_gate", "rz_gate", "p_gate")}
    seen = {}

    def ctor(fname):
        def _f(a, k):
            if len(a) != 2 or a[0] != "TARGET":
                raise Undecidable(f"{fname} called with {a!r}")
            seen["m"] = mats[fname].subs(theta, sp.nsimplify(a[1]) if not isinstance(a[1], sp.Basic) else a[1])
            return "UGATE"
        return _f
    fo = Folder(ctors={fname: ctor(fname) for fname in mats})
    fo.env["pi"] = sp.pi
    if fv.closure is not None:
        fv = FuncVal(fv.node, closure={k: (sp.pi if isinstance(x, Opaque) and x.text.split(".")[-1] == "pi" and not x.args else x) for k, x in fv.closure.items()},
                     bound_self=fv.bound_self, home=fv.home)
    r = fo.call_funcval(fv, ["TARGET"], {})
    if r != "UGATE" or "m" not in seen:
        raise Undecidable(f"table entry folds to {r!r}")
    return seen["m"]


def check_sympy_table_and_matrices(idx: Index, rep: Report, d: tr.Dispatch):
    rule = "K9.sympy-gates"
    table = fold_table(idx, "sympy")
    tf = table_func(idx, "sympy")
    n = 0
    for name, v in sorted(table.items()):
        want = SYMPY_EXPECT.get(name)
        if want is None:
            rep.info(rule, tf, tf.node, text=f"sympy table: {name}", reason="name outside the reference table; not decided")
            continue
        n += 1
        inner = v.args[0] if isinstance(v, Opaque) and v.text == "controlled_gate" and len(v.args) == 1 else v
        if isinstance(inner, FuncVal):
            # a table entry written as a function of the target (e.g. `lambda target: p_gate(target, pi / 2)`): folded into the matrix it applies, which has
            # to be the documented matrix of the (base) gate - decided from the value, not from which library symbol is named
            base = name[1:] if isinstance(want, tuple) else name
            try:
                m = _fold_entry_matrix(idx, inner)
                ref = symx.gate_matrix(base)
            except (symx.Untranslatable, Undecidable, Raised) as e:
                raise AnalysisError(f"sympy table entry {name}: function entry not foldable: {e}")
            ok = symx.matrix_equal(m, ref) and (not isinstance(want, tuple) or isinstance(v, Opaque))
            rep.decide(ok, rule, tf, tf.node, text=f"sympy table: {name} -> function applying {sp.simplify(m).tolist()}",
                       what=f"{name} applies the documented matrix of {base}{' under its control' if isinstance(want, tuple) else ''}",
                       reason=f"{name} applies {sp.simplify(m).tolist()}, the documented matrix is {sp.simplify(ref).tolist()}")
            continue
        if isinstance(want, tuple):
            ok = isinstance(v, Opaque) and v.text == "controlled_gate" and len(v.args) == 1 and isinstance(v.args[0], Opaque) and v.args[0].text == want[1]
        else:
            ok = isinstance(v, Opaque) and v.text == want and not v.args
        rep.decide(ok, rule, tf, tf.node, text=f"sympy table: {name} -> {v!r}",
                   what=f"{name} is mapped to {'a controlled ' + want[1] if isinstance(want, tuple) else want}", reason=f"{name} mapped to {v!r}")
    rep.floor("sympy table rows checked", n, 22)
    theta = sp.Symbol("theta", real=True)
    for fname, ref in (("rx_gate", symx.RX(theta)), ("ry_gate", symx.RY(theta)), ("rz_gate", symx.RZ(theta)), ("p_gate", symx.PHASE(theta))):
        f = idx.function(f"{SYMPY_T}::{fname}")
        try:
            m = _matrix_of(f)
        except symx.Untranslatable as e:
            raise AnalysisError(f"{f.ref}: matrix entry not translatable: {e}")
        ok = symx.matrix_equal(m, ref)
        rep.decide(ok, rule, f, f.node, text=f"{fname} matrix", what=f"{fname} builds the documented matrix of {fname.split('_')[0].upper() if fname != 'p_gate' else 'PHASE'}(theta)",
                   reason=f"matrix {m.tolist()} differs from the reference {sp.simplify(ref).tolist()}")
        # UGate(target, matrix): the matrix acts on `target`
        ug = [c for c in own_nodes(f.node) if isinstance(c, ast.Call) and norm(c.func).endswith("UGate")]
        ok = len(ug) == 1 and norm(ug[0].args[0]) == "target"
        rep.decide(ok, rule, f, ug[0] if ug else f.node, text=f"{fname}: UGate(target, ...)", what="the matrix is applied to the target qubit", reason="UGate is not applied to the target")
    # controlled_gate(g)(control, target, *args) = CGate(control, g(target, *args))
    cg = idx.function(f"{SYMPY_T}::controlled_gate.cgate")
    rets = [n for n in own_nodes(cg.node) if isinstance(n, ast.Return)]
    ok = len(rets) == 1 and isinstance(rets[0].value, ast.Call) and norm(rets[0].value.func) == "CGate" and len(rets[0].value.args) == 2 and \
        norm(rets[0].value.args[0]) == "control" and isinstance(rets[0].value.args[1], ast.Call) and norm(rets[0].value.args[1].func) == "gate_function" and \
        norm(rets[0].value.args[1].args[0]) == "target"
    rep.decide(ok, rule, cg, rets[0] if rets else cg.node, text="cgate(control, target, ...) = CGate(control, g(target, ...))",
               what="a controlled sympy gate conditions on `control` and acts on `target`", reason=f"returns {norm(rets[0].value) if rets else '?'}")
    # the circuit is a right-to-left operator product: gates multiplied in reversed order
    loop_iter = norm(d.loop.iter)
    ok = loop_iter.startswith("reversed(") or loop_iter.endswith("[::-1]")
    muls = [n for n in own_nodes(d.func.node) if isinstance(n, ast.AugAssign) and isinstance(n.op, ast.Mult) and norm(n.target) == "target_circuit"]
    rep.decide(ok and len(muls) >= 5, rule, d.func, d.loop, text=f"operator product over {loop_iter}",
               what="sympy applies operators right to left: gates are multiplied onto the product in reversed circuit order",
               reason=f"product built over {loop_iter} with {len(muls)} right-multiplications")
    # parameters handed to parameterised gates are the gate's own parameter
    for br in d.branches:
        if not (br.names & {"PHASE", "RX", "RY", "RZ", "CRX", "CRY", "CRZ", "CPHASE"}):
            continue
        calls = [c for st in br.body for c in ast.walk(st) if isinstance(c, ast.Call) and isinstance(c.func, ast.Subscript)]
        # the angle argument is gate.parameter or a local initialised from it in the loop body (string -> symbol conversion)
        derived = {n.targets[0].id for st in d.loop.body for n in ast.walk(st) if isinstance(n, ast.Assign) and isinstance(n.targets[0], ast.Name)
                   and norm(n.value) == f"{d.var}.parameter"}
        ok = bool(calls) and (norm(calls[0].args[-1]) == f"{d.var}.parameter" or norm(calls[0].args[-1]) in derived)
        rep.decide(ok, rule, d.func, br.node, text=f"sympy: {{{', '.join(sorted(br.names))}}} pass gate.parameter last",
                   what="the gate's own parameter is the angle argument", reason=f"call {norm(calls[0]) if calls else '?'}")


# ---------------------------------------------------------------------------------------------------
def check_sampled_keys(idx: Index, rep: Report):
    """index <-> bitstring conversion of the backend base class and the round trip exact keys -> integers -> sampled keys (shared with C18: histograms built
    from sampled statevectors carry the bit order every histogram operation relies on)"""
    rule = "K10.bit-order"
    # -- Backend._int_to_binstr folded for the three cases
    f = idx.function(f"{BACKEND}::Backend._int_to_binstr")
    rets = [n for n in own_nodes(f.node) if isinstance(n, ast.Return)]
    if len(rets) != 1:
        raise AnalysisError("_int_to_binstr: expected a single return")

    def reversed_for(use_ordering, order) -> bool:
        fo = Folder(env={"state_binstr": "AB", "use_ordering": use_ordering, "self.statevector_order": order})
        try:
            # locals computed between the padding and the return (a flag, the reversed string) are folded on the way
            after = False
            for st in f.node.body:
                if isinstance(st, ast.Assign) and norm(st.targets[0]) == "state_binstr":
                    after = True
                    continue
                if after and isinstance(st, (ast.Assign, ast.If, ast.AugAssign)):
                    fo.stmt(st)
            v = fo.expr(rets[0].value)
        except (Undecidable, Raised) as e:
            raise AnalysisError(f"_int_to_binstr return not foldable: {e}")
        if v == "AB":
            return False
        if v == "BA":
            return True
        raise AnalysisError(f"_int_to_binstr returns {v!r}")
    cases = {(True, "lsq_first"): False, (True, "msq_first"): True, (False, "lsq_first"): True, (False, "msq_first"): True}
    for (uo, order), want in cases.items():
        got = reversed_for(uo, order)
        rep.decide(got == want, rule, f, rets[0], text=f"_int_to_binstr(use_ordering={uo}, {order}) {'reverses' if want else 'keeps'} the binary digits",
                   what="index -> bitstring: binary digits as they are when the backend's vector index has qubit 0 as most significant bit "
                        "('lsq_first'), reversed otherwise; always reversed when use_ordering is off",
                   reason=f"digits are {'reversed' if got else 'kept'}")
    bs = [n for n in own_nodes(f.node) if isinstance(n, ast.Assign) and norm(n.targets[0]) == "state_binstr"]
    ok = bool(bs) and norm(bs[0].value).replace(" ", "") in ("'0'*(n_qubits-len(bs))+bs", "bs.zfill(n_qubits)", "bs.rjust(n_qubits,'0')")
    rep.decide(ok, rule, f, bs[0] if bs else f.node, text="binary digits left-padded with zeros to n_qubits",
               what="the bitstring always has n_qubits characters, padding on the most significant side", reason=f"padding: {norm(bs[0].value) if bs else '?'}")
    # -- sampling round trip in _statevector_to_frequencies
    g = idx.function(f"{BACKEND}::Backend._statevector_to_frequencies")
    exact = [c for c in own_nodes(g.node) if isinstance(c, ast.Call) and norm(c.func) == "self._int_to_binstr"]
    if len(exact) != 2:
        raise AnalysisError("_statevector_to_frequencies: expected two _int_to_binstr calls")
    first, second = sorted(exact, key=lambda c: c.lineno)
    ok = len(first.args) == 2 and not first.keywords
    rep.decide(ok, rule, g, first, text="exact frequencies keyed by _int_to_binstr(i, n_qubits)",
               what="exact frequencies use the backend's declared ordering", reason=f"call {norm(first)}")
    toint = [c for c in own_nodes(g.node) if isinstance(c, ast.Call) and isinstance(c.func, ast.Name) and c.func.id == "int" and len(c.args) == 2]
    if not toint:
        raise AnalysisError("_statevector_to_frequencies: conversion of the exact keys to integers not found")
    # the key -> integer conversion folded on an asymmetric key: does it read the key as it is, or reversed?
    int_arg = resolve_local(g.node, toint[0].args[0])          # `rk = k[::-1]; int(rk, 2)` reads the key reversed just as `int(k[::-1], 2)` does
    probe = ast.Call(func=toint[0].func, args=[int_arg] + list(toint[0].args[1:]), keywords=list(toint[0].keywords))
    free = {n.id for n in ast.walk(probe) if isinstance(n, ast.Name) and n.id != "int"}
    try:
        as_int = Folder(env={nm: "100" for nm in free}).expr(probe)
    except (Undecidable, Raised) as e:
        raise AnalysisError(f"_statevector_to_frequencies: {norm(toint[0])} not foldable: {e}")
    if as_int not in (4, 1):
        raise AnalysisError(f"_statevector_to_frequencies: {norm(toint[0])} maps '100' to {as_int!r}")
    rev_in = as_int == 1
    # the way back: use_ordering as the second call passes it (the parameter's default otherwise), folded through _int_to_binstr for both declared orders
    uo_node = second.args[2] if len(second.args) >= 3 else next((k.value for k in second.keywords if k.arg == "use_ordering"), None)
    if uo_node is None:
        pos = [a.arg for a in f.node.args.args]
        dflt = dict(zip(pos[len(pos) - len(f.node.args.defaults):], f.node.args.defaults)).get("use_ordering")
        uo_node = dflt
    if not isinstance(uo_node, ast.Constant) or not isinstance(uo_node.value, bool):
        raise AnalysisError(f"_statevector_to_frequencies: use_ordering of the sampled keys is not a literal ({norm(uo_node) if uo_node is not None else '?'})")
    for order in ("lsq_first", "msq_first"):
        rev_out = reversed_for(uo_node.value, order)
        rep.decide(rev_in == rev_out, rule, g, second,
                   text=f"sampling round trip on a {order} backend: {norm(toint[0])} ... {norm(second)[:60]}",
                   what="sampled outcomes are re-keyed in the same bit order as the exact keys, whatever statevector order the backend declares (a reversal before int() is "
                        "undone after sampling, and only then)",
                   reason=f"the exact key is read {'reversed' if rev_in else 'as it is'} and the sampled integer is written back {'reversed' if rev_out else 'as it is'}: on a "
                          f"{order} backend sampled distributions come out bit-reversed")


# ---------------------------------------------------------------------------------------------------
def check_bit_order(idx: Index, rep: Report):
    rule = "K10.bit-order"
    check_sampled_keys(idx, rep)
    f = idx.function(f"{BACKEND}::Backend._int_to_binstr")
    # -- cirq: sampled rows are joined in qubit order 0..n-1
    sim = idx.function(f"{TCIRQ}::CirqSimulator.simulate_circuit")
    joins = [c for c in own_nodes(sim.node) if isinstance(c, ast.Call) and isinstance(c.func, ast.Attribute) and c.func.attr == "join" and "isamples" in norm(c)]
    for j in joins:
        ok = "reversed" not in norm(j) and "[::-1]" not in norm(j)
        rep.decide(ok, rule, sim, j, text=f"cirq samples joined in column order: {norm(j)[:60]}",
                   what="cirq sample columns follow `indices` (qubit 0 first): joined without reversal", reason="sample bits are reversed before joining")
    rep.floor("cirq sample joins", len(joins), 3)
    inds = [n for n in own_nodes(sim.node) if isinstance(n, ast.Assign) and norm(n.targets[0]) == "indices"]
    for n in inds:
        # folded with a register of three qubits: the order in which qubits are sampled is 0, 1, 2 however the list is spelled
        try:
            class _W:
                _sa_model = True
                width = 3
            val = Folder(env={"n_qubits": 3, "source_circuit": _W()}).expr(n.value)
            ok = list(val) == [0, 1, 2]
        except (Undecidable, Raised, TypeError):
            ok = False
        rep.decide(ok, rule, sim, n, text=f"indices = {norm(n.value)}", what="qubits are sampled in increasing index order", reason=f"indices = {norm(n.value)}")
    # measurement keys of run(): bitstring built for i in range(n_meas + width) in increasing key order
    # -- declared statevector order vs the vector actually returned
    for rel, cname, actual, why in ((TCIRQ, "CirqSimulator", "lsq_first", "cirq's final_state_vector indexes qubit 0 as the most significant bit"),
                                    (TSYMPY, "SympySimulator", "msq_first", "sympy's qubit_to_matrix indexes qubit 0 as the least significant bit")):
        bi = idx.function(f"{rel}::{cname}.backend_info")
        d = None
        for n in ast.walk(bi.node):
            if isinstance(n, ast.Dict):
                d = {k.value: v for k, v in zip(n.keys, n.values) if isinstance(k, ast.Constant)}
        if d is None or "statevector_order" not in d or not isinstance(d["statevector_order"], ast.Constant):
            raise AnalysisError(f"{cname}.backend_info: statevector_order literal not found")
        declared = d["statevector_order"].value
        sc = idx.function(f"{rel}::{cname}.simulate_circuit")
        reverses = _statevector_reversed(sc)
        eff = actual if not reverses else ("msq_first" if actual == "lsq_first" else "lsq_first")
        rep.decide(declared == eff, rule, bi, d["statevector_order"], text=f"{cname} advertises {declared}",
                   what=f"the advertised statevector order is the order of the vector returned ({why})",
                   reason=f"{cname} advertises '{declared}' but returns a vector in '{eff}' order: X on qubit 0 of 2 puts the amplitude at index "
                          f"{'1' if eff == 'msq_first' else '2'}, while '{declared}' promises index {'2' if declared == 'lsq_first' else '1'}")
    # -- sympy bitstrings: qubit_values lists qubit n-1 first; exactly one reversal gives qubit 0 first
    sc = idx.function(f"{TSYMPY}::SympySimulator.simulate_circuit")
    joins = [c for c in own_nodes(sc.node) if isinstance(c, ast.Call) and isinstance(c.func, ast.Attribute) and c.func.attr == "join" and "qubit_values" in norm(c)]
    if not joins:
        raise AnalysisError("SympySimulator.simulate_circuit: bitstring construction not found")
    t = norm(joins[0])
    nrev = t.count("reversed(") + t.count("[::-1]")
    rep.decide(nrev == 1, rule, sc, joins[0], text=f"sympy bitstring: {t[:70]}",
               what="sympy lists qubit n-1 first in qubit_values: exactly one reversal yields qubit 0 first", reason=f"{nrev} reversals applied")
    init = [n for n in own_nodes(sc.node) if isinstance(n, ast.Call) and norm(n.func) == "Qubit"]
    rep.decide(any("'0' * " in norm(c) or "'0'*" in norm(c) for c in init), rule, sc, init[0] if init else sc.node, text="sympy default initial state |0...0>",
               what="without an initial statevector simulation starts from |0...0> on every qubit of the circuit", reason="default initial state changed")


def _statevector_reversed(sc: FunctionInfo) -> bool:
    """does simulate_circuit reverse the index order of the vector it returns (reshape/transposition idioms are not used here;
    a [::-1] on the returned vector would be the only way)"""
    rets = [n for n in own_nodes(sc.node) if isinstance(n, ast.Return)]
    for r in rets:
        if r.value is not None and ("[::-1]" in norm(r.value) or "flip" in norm(r.value)):
            return True
    return False


# ---------------------------------------------------------------------------------------------------
def check_idle_and_initial_state(idx: Index, rep: Report, d: tr.Dispatch):
    rule = "K6.idle-qubits"
    from ..cfg import CFG
    f = d.func
    cfg = CFG(f.node)
    ident = [n for n in own_nodes(f.node) if isinstance(n, ast.Call) and norm(n.func) == "cirq.I.on_each"]
    if not ident:
        rep.violation(rule, f, f.node, text="identity on every qubit", what="idle qubits are part of the simulated register",
                      reason="translate_c_to_cirq no longer appends cirq.I.on_each(qubit_list): cirq only allocates qubits that carry a gate, so idle "
                             "qubits disappear from the statevector")
    else:
        c = ident[0]
        ok = norm(c.args[0]) == "qubit_list" and cfg.dominates(cfg.node_for(c), cfg.node_for(d.loop))
        rep.decide(ok, rule, f, c, text="cirq.I.on_each(qubit_list) before the gate loop", what="an identity is applied to every qubit before any gate",
                   reason="identity not applied to all qubits on every path before the gate loop")
        ql = [n for n in own_nodes(f.node) if isinstance(n, ast.Assign) and norm(n.targets[0]) == "qubit_list"]
        ok = bool(ql) and norm(ql[0].value).replace(" ", "") == "cirq.LineQubit.range(source_circuit.width)"
        rep.decide(ok, rule, f, ql[0] if ql else f.node, text="qubit_list = LineQubit.range(width)", what="one line qubit per circuit qubit, index = qubit number",
                   reason=f"qubit_list = {norm(ql[0].value) if ql else '?'}")
    check_cirq_initial_state(idx, rep)
    rule = "K7.initial-state"
    # Backend.simulate short-cut for empty circuits honours the initial statevector
    bs = idx.function(f"{BACKEND}::Backend.simulate")
    found = False
    for n in own_nodes(bs.node):
        if isinstance(n, ast.If) and "source_circuit.size == 0" in norm(n.test):
            found = True
            inner = [x for x in n.body if isinstance(x, ast.If) and norm(x.test) == "initial_statevector is not None"]
            ok = bool(inner) and any("statevector = initial_statevector" == norm(s) for s in inner[0].body) and \
                any("self._statevector_to_frequencies(initial_statevector)" in norm(s) for s in inner[0].body)
            rep.decide(ok, rule, bs, n, text="empty circuit returns the initial statevector and its frequencies",
                       what="an empty circuit applied to a user initial state returns that state", reason="empty-circuit shortcut ignores the initial statevector")
    if not found:
        rep.info(rule, bs, bs.node, text="no empty-circuit shortcut", reason="not present")




def check_cirq_initial_state(idx: Index, rep: Report):
    """every way the cirq backend simulates a circuit starts from the user's initial statevector (shared by C01 and C02)"""
    # initial state forwarded to every simulate()
    rule = "K7.initial-state"
    sim = idx.function(f"{TCIRQ}::CirqSimulator.simulate_circuit")
    calls = [c for c in own_nodes(sim.node) if isinstance(c, ast.Call) and isinstance(c.func, ast.Attribute) and c.func.attr == "simulate"
             and norm(c.func.value) == "cirq_simulator"]
    rep.floor("cirq simulate calls", len(calls), 5)
    for c in calls:
        kws = {k.arg: norm(k.value) for k in c.keywords}
        ok = kws.get("initial_state") in ("cirq_initial_statevector", "sv")
        rep.decide(ok, rule, sim, c, text=f"simulate(..., initial_state={kws.get('initial_state')})",
                   what="every cirq simulation starts from the user's initial statevector (or the state carried over from the previous piece)",
                   reason="simulate() called without the initial state: a supplied initial_statevector is ignored on this path")
    # cirq's run() samples a circuit from |0...0> and takes no initial state: the circuit handed to it must prepare the user's state itself
    runs = [c for c in own_nodes(sim.node) if isinstance(c, ast.Call) and isinstance(c.func, ast.Attribute) and c.func.attr in ("run", "run_sweep", "sample")
            and norm(c.func.value) == "cirq_simulator"]
    for c in runs:
        circ_arg = norm(c.args[0]) if c.args else ""
        prepared = False
        for n in ast.walk(sim.node):
            if isinstance(n, ast.If) and norm(n.test) == "initial_statevector is not None":
                for x in ast.walk(ast.Module(body=n.body, type_ignores=[])):
                    if isinstance(x, ast.Call) and isinstance(x.func, ast.Attribute) and x.func.attr in ("insert", "append") and norm(x.func.value) == circ_arg \
                            and "StatePreparationChannel" in norm(x) and "cirq_initial_statevector" in norm(x) and n.lineno < c.lineno:
                        prepared = x.func.attr == "insert" and norm(x.args[0]) == "0"
        rep.decide(prepared, rule, sim, c, text=f"{norm(c.func)}({circ_arg}, ...): the sampled circuit prepares the initial state",
                   what="every cirq simulation starts from the user's initial statevector; run() cannot be given one, so the circuit it samples begins with a preparation of that state",
                   reason=f"`{norm(c)[:70]}` samples `{circ_arg}` from |0...0>: a supplied initial_statevector is ignored on this path (finite n_shots with saved mid-circuit measurements)")
    # sv initialised from the user's vector when given
    for n in own_nodes(sim.node):
        if isinstance(n, ast.If) and norm(n.test) == "initial_statevector is not None":
            body_ok = any(isinstance(s, ast.Assign) and norm(s.targets[0]) == "sv" and norm(s.value) == "cirq_initial_statevector" for s in n.body)
            if any(isinstance(s, ast.Assign) and norm(s.targets[0]) == "sv" for s in n.body + n.orelse):
                rep.decide(body_ok, rule, sim, n, text="sv = cirq_initial_statevector when given", what="piecewise simulation starts from the user's vector",
                           reason="piecewise simulation ignores the user's initial statevector")
    civ = [n for n in own_nodes(sim.node) if isinstance(n, ast.Assign) and norm(n.targets[0]) == "cirq_initial_statevector"]
    ok = bool(civ) and "initial_statevector" in norm(civ[0].value) and norm(civ[0].value).endswith("else 0")
    rep.decide(ok, rule, sim, civ[0] if civ else sim.node, text="cirq_initial_statevector = user vector or |0...0>",
               what="the default initial state is the all-zero computational basis state", reason=f"{norm(civ[0].value) if civ else '?'}")


# ---------------------------------------------------------------------------------------------------
_CUTOFF_EXAMPLE = '''
def f(self, measurements):
    frequencies = dict()
    for vec, prob in measurements:
        prob = prob.evalf(chop=1e-4)
        if prob > 1e-6:
            frequencies[vec] = round(prob, 6)
    return frequencies
'''


def _cutoff_sites(fn: ast.AST) -> List[Tuple[ast.AST, str]]:
    """places where a probability / frequency / amplitude is numerically cut: `chop=` arguments, rounding calls, comparisons with a literal
    threshold above the documented 1e-10"""
    out = []
    PROB = ("prob", "freq", "amplitude")
    for n in ast.walk(fn):
        if isinstance(n, ast.Call):
            for k in n.keywords:
                if k.arg == "chop" and not (isinstance(k.value, ast.Constant) and k.value.value is False):
                    out.append((n, f"`{norm(n)[:60]}` chops small values ({norm(k.value)})"))
            if norm(n.func) in ("round", "np.round", "np.around", "numpy.round") and n.args and any(p in norm(n.args[0]).lower() for p in PROB):
                out.append((n, f"`{norm(n)[:60]}` rounds a probability"))
        if isinstance(n, ast.Compare) and len(n.ops) == 1 and isinstance(n.ops[0], (ast.Gt, ast.GtE, ast.Lt, ast.LtE)):
            sides = [n.left, n.comparators[0]]
            lits = [x for x in sides if isinstance(x, ast.Constant) and isinstance(x.value, (int, float)) and not isinstance(x.value, bool)]
            others = [x for x in sides if x not in lits]
            if len(lits) == 1 and others and any(p in norm(others[0]).lower() for p in PROB) and "sqrt_probability" not in norm(others[0]) and 1e-10 < abs(lits[0].value) < 1:
                out.append((n, f"`{norm(n)[:60]}` compares a probability with the literal {lits[0].value}"))
    return out


def check_probability_cutoffs(idx: Index, rep: Report):
    """The returned distribution is the Born distribution: an outcome may be left out only below the backend's documented frequency threshold
    (1e-10, `self.freq_threshold`) or when it is exactly zero.  Any other numeric cut applied to a probability while the frequencies are built -
    chopping, rounding, a literal threshold - silently removes outcomes that should be there."""
    rule = "K9.probability-cutoff"
    ex = _cutoff_sites(ast.parse(_CUTOFF_EXAMPLE))
    if len(ex) != 3:
        raise AnalysisError(f"probability-cutoff rule self-check failed: built-in example gives {len(ex)} sites")
    n = 0
    for rel in (BACKEND, TCIRQ, TSYMPY):
        m = idx.module_by_relpath(rel)
        for f in m.functions.values():
            if not any(k in f.name for k in ("simulate", "frequencies", "freq")):
                continue
            n += 1
            sites = _cutoff_sites(f.node)
            if not sites:
                rep.ok(rule, f, f.node, text=f"{f.qualname}: no numeric cut on probabilities", what="outcomes are dropped only below the documented threshold or when exactly zero")
            for node, why in sites:
                rep.violation(rule, f, node, text=f"{f.qualname}: {norm(node)[:70]}", what="outcomes are dropped only below the documented threshold (1e-10) or when exactly zero",
                              reason=why + ": outcomes with a small but real probability disappear and the distribution no longer sums to one")
    rep.floor("simulate / frequency functions scanned for cut-offs", n, 6)


def check_no_gate_shortcut(idx: Index, rep: Report):
    """Backend.simulate answers a circuit without gates itself, from the initial state, through the array routine of the base class.  That routine
    understands numeric vectors; an initial state in a backend-specific form (the sympy backend documents Qubit and Matrix objects) has to go to the
    backend's own simulate_circuit.  The condition of the shortcut is folded for every kind of initial state: taken for none / array / list / tuple, not
    taken for an object of another type (and never under a noise model or for a circuit with gates)."""
    import numpy as np
    rule = "K6.initial-state-shapes"
    f = idx.function(f"{BACKEND}::Backend.simulate")
    conds = [n for n in own_nodes(f.node) if isinstance(n, ast.If) and "source_circuit.size == 0" in norm(n.test) and "_statevector_to_frequencies" in full(n)]
    if len(conds) != 1:
        raise AnalysisError("Backend.simulate: the shortcut for circuits without gates was not found")
    known = {"type(None)": type(None), "np.ndarray": np.ndarray, "ndarray": np.ndarray, "numpy.ndarray": np.ndarray, "list": list, "tuple": tuple, "NoneType": type(None),
             "np.generic": np.generic, "dict": dict, "str": str}

    class _Foreign:
        """an initial state in a backend-specific form (not a numeric vector)"""
        _sa_model = True

    class _Circ:
        _sa_model = True

        def __init__(self, size):
            self.size, self.width = size, 2

    def hook(v, t):
        names = [x.strip() for x in t.strip("()").split(",") if x.strip()]
        if names and all(nm in known for nm in names):
            return isinstance(v, tuple(known[nm] for nm in names))
        return None
    kinds = [("no initial state", None, True), ("a numpy vector", np.array([0., 1., 0., 0.]), True), ("a list", [0., 1., 0., 0.], True), ("a tuple", (0., 1., 0., 0.), True),
             ("an object of a backend-specific type", _Foreign(), False)]
    bad = []
    n = 0
    for label, sv, want in kinds:
        for size, noise, expect in ((0, None, want), (1, None, False), (0, "NOISE", False)):
            fo = Folder(env={"source_circuit": _Circ(size), "self": Rec("Backend", {"_noise_model": noise}), "initial_statevector": sv, "np": Opaque("np")})
            fo.isinstance_hook = hook
            try:
                for nm in {x.id for x in ast.walk(conds[0].test) if isinstance(x, ast.Name)} - set(fo.env):
                    d_ = resolve_local(f.node, ast.Name(id=nm, ctx=ast.Load()))      # a flag computed into a local in front of the test
                    if not isinstance(d_, ast.Name):
                        fo.env[nm] = fo.expr(d_)
                got = bool(fo.truth(fo.expr(conds[0].test), conds[0].test))
            except (Undecidable, Raised) as e:
                raise AnalysisError(f"Backend.simulate: shortcut condition not foldable for {label}: {e}")
            n += 1
            if got != expect:
                bad.append(f"{label}, {'no gates' if size == 0 else 'with gates'}{', noise model' if noise else ''}: shortcut {'taken' if got else 'not taken'}")
    rep.decide(not bad, rule, f, conds[0], text=f"no-gate shortcut of Backend.simulate: {n} combinations of initial state / circuit / noise model",
               what="the base class answers a circuit without gates itself only from an initial state its array routine understands (none, or a numeric vector); a "
                    "backend-specific initial state goes to the backend", reason="; ".join(bad[:3]))


def check_sympy_initial_state_shapes(idx: Index, rep: Report):
    """The symbolic backend converts a supplied vector with sympy's matrix_to_qubit, which wants a column.  A statevector is naturally 1-D
    (and is what the numeric backend returns), and the backend's own returned statevector is a sympy matrix: both have to be accepted.
    Decided on the type dispatch of simulate_circuit: (1) every value handed to matrix_to_qubit has been reshaped to a column,
    (2) the dispatch has a branch for sympy matrices (the type this backend returns)."""
    rule = "K6.initial-state-shapes"
    sim = idx.function(f"{TSYMPY}::SympySimulator.simulate_circuit")
    calls = [c for c in ast.walk(sim.node) if isinstance(c, ast.Call) and norm(c.func) == "matrix_to_qubit"]
    rep.floor("matrix_to_qubit calls in the sympy backend", len(calls), 1)
    for c in calls:
        a = c.args[0] if c.args else None
        col = False
        for x in ast.walk(a) if a is not None else []:
            if isinstance(x, ast.Call) and isinstance(x.func, ast.Attribute) and x.func.attr == "reshape":
                dims = x.args[0].elts if len(x.args) == 1 and isinstance(x.args[0], ast.Tuple) else x.args
                col = len(dims) == 2 and norm(dims[1]) == "1"
        rep.decide(col, rule, sim, c, text=f"matrix_to_qubit({norm(a)[:60] if a is not None else ''}) receives a column",
                   what="a supplied initial statevector of any shape (1-D, row, column) is brought to a column before the conversion",
                   reason=f"`{norm(c)[:80]}` passes the vector as given: a 1-D array raises IndexError and a row is rejected, only an N x 1 column works")
    tests = [norm(t.args[1]) for t in ast.walk(sim.node) if isinstance(t, ast.Call) and norm(t.func) == "isinstance" and len(t.args) == 2 and norm(t.args[0]) == "initial_statevector"]
    ok = any("Matrix" in t and "np.matrix" != t for t in tests if "np." not in t or "Matrix" in t.replace("np.matrix", ""))
    rep.decide(ok, rule, sim, sim.node, text="the type dispatch on initial_statevector has a branch for sympy matrices",
               what="the statevector this backend returns (a sympy matrix) can be supplied back as an initial state",
               reason=f"type tests on initial_statevector are {tests}: the backend rejects the type of its own returned statevector")


def check_no_silent_drop(idx: Index, rep: Report, tier: str):
    """every branch of a circuit writer's dispatch chain puts something into the object the function returns (or refuses by raising) on *every* path through the
    branch: a gate of the source circuit is never dropped under a side condition (an option, a counter, a noise setting).  Output objects are the names in the
    function's return expressions; an emission is an in-place extension of one of them or a call of one of their methods."""
    rule = "K3.no-silent-drop"
    n = 0
    for d in tr.writer_dispatches(idx):
        if tier == "quick" and d.fmt not in ("cirq", "sympy", "json_ionq", "projectq", "openqasm"):
            continue
        outs = set()
        for r in own_nodes(d.func.node):
            if isinstance(r, ast.Return) and r.value is not None:
                outs |= {x.id for x in ast.walk(r.value) if isinstance(x, ast.Name)}
        if not outs:
            raise AnalysisError(f"{d.func.ref}: no returned name found")
        # names an output is built from (json_gates inside the returned dictionary, the body string formatted into the returned program, ...) are outputs too
        for _round in range(4):
            for st in own_nodes(d.func.node):
                if isinstance(st, (ast.Assign, ast.AugAssign)):
                    tgts = st.targets if isinstance(st, ast.Assign) else [st.target]
                    if any(isinstance(t, ast.Name) and t.id in outs for t in tgts):
                        outs |= {x.id for x in ast.walk(st.value) if isinstance(x, ast.Name) and x.id not in d.func.params and x.id != d.var}

        def emits(st) -> bool:
            for x in ast.walk(st):
                if isinstance(x, ast.AugAssign) and isinstance(x.target, ast.Name) and x.target.id in outs:
                    return True
                if isinstance(x, ast.Call) and isinstance(x.func, ast.Attribute):
                    b = x.func.value
                    while isinstance(b, (ast.Attribute, ast.Subscript)):
                        b = b.value
                    if isinstance(b, ast.Name) and b.id in outs:
                        return True
                if isinstance(x, ast.Call) and any(isinstance(a, ast.Name) and a.id in outs for a in x.args):
                    return True                           # the output object handed to a gate-adding function (braket / qiskit / qulacs style)
                if isinstance(x, ast.Assign) and any(isinstance(t, ast.Name) and t.id in outs for t in x.targets):
                    return True
            return False

        def always(stmts) -> bool:
            for st in stmts:
                if isinstance(st, ast.Raise):
                    return True
                if isinstance(st, ast.If):
                    if always(st.body) and st.orelse and always(st.orelse):
                        return True
                    continue
                if isinstance(st, (ast.For, ast.While)):
                    if always(st.body):
                        return True                       # loops over the gate's own qubits: never empty
                    continue
                if isinstance(st, (ast.With, ast.Try)):
                    if always(st.body):
                        return True
                    continue
                if emits(st):
                    return True
            return False
        for br in d.branches:
            if not br.names:
                continue
            n += 1
            rep.decide(always(br.body) or always(d.post), rule, d.func, br.node, text=f"{d.fmt}: {{{', '.join(sorted(br.names))}}} always emitted",
                       what="every gate of the source circuit is translated (or refused) on every path through its branch - none is dropped under a side condition",
                       reason=f"a path through the branch for {sorted(br.names)} reaches its end without adding anything to {sorted(outs)}: the gate disappears from the translated circuit")
    rep.floor("writer branches checked for silent drops", n, 20)
