"""C12 Symmetry operators and penalties are exact (structural part).

C12.a K9  the term lists of N, S_z and S^2 are folded from the source (both spin-orbital orderings, 1 to 3 spatial orbitals - this
          covers both index-coincidence patterns i = j and i != j of the templates) and their exact integer Fock-space matrices
          (checker-side ladder-operator algebra) are compared with N = sum n_p, S_z = (N_up - N_down)/2 and
          S^2 = S_z^2 + (S_+ S_- + S_- S_+)/2 built directly for the same ordering
C12.b K9  penalties: (operator - target)^2 assembled as [[(), -target]] + list, squared and normal ordered, times mu; the combined
          penalty adds a term only for a positive prefactor, with its own target and the ordering flag passed through
C12.c K8  the three implementations of the up-then-down re-ordering agree (operator re-indexing, vector re-ordering,
          spin-orbital index selection)
"""
from __future__ import annotations

import ast
from typing import Dict, List

import numpy as np
import sympy as sp

from ..consteval import Folder, FuncVal, Opaque, Raised, Undecidable
from ..index import AnalysisError, FunctionInfo, Index, full, norm, own_nodes
from ..report import Report
from ..rules import circuitsem as cs
from ..rules import fock
from .. import symx

FO = "tangelo/toolboxes/ansatz_generator/fermionic_operators.py"
PEN = "tangelo/toolboxes/ansatz_generator/penalty_terms.py"
OPS = "tangelo/toolboxes/operators/operators.py"
GUCC = "tangelo/toolboxes/ansatz_generator/_general_unitary_cc.py"
MT = "tangelo/toolboxes/qubit_mappings/mapping_transform.py"
SV = "tangelo/toolboxes/qubit_mappings/statevector_mapping.py"


def fold_list(idx: Index, fname: str, n_orbs: int, utd: bool):
    f = idx.function(f"{FO}::{fname}")
    fo = Folder(resolver=cs.module_resolver(idx, FO))
    for t in ("int", "float", "bool", "str"):
        fo.env[t] = Opaque("type:" + t)
    try:
        return fo.run_function(f.node, {"n_orbs": n_orbs, "up_then_down": utd})
    except (Undecidable, Raised) as e:
        raise AnalysisError(f"{fname} not foldable: {e}")


def reference_ops(n_orbs: int, utd: bool):
    n = 2 * n_orbs
    up = [(p if utd else 2 * p) for p in range(n_orbs)]
    dn = [(n_orbs + p if utd else 2 * p + 1) for p in range(n_orbs)]
    num = fock.number_ops(n)
    N = sum(num[j] for j in range(n))
    Sz2 = sum(num[j] for j in up) - sum(num[j] for j in dn)          # 2 * S_z
    Sp = sum(fock.term_matrix(((up[p], 1), (dn[p], 0)), n) for p in range(n_orbs))
    Sm = sum(fock.term_matrix(((dn[p], 1), (up[p], 0)), n) for p in range(n_orbs))
    S2_4 = Sz2.dot(Sz2) + 2 * (Sp.dot(Sm) + Sm.dot(Sp))             # 4 * S^2
    return N, Sz2, S2_4


def run(idx: Index, rep: Report, tier: str):
    rep.explain("C12 structural part: symmetry-operator term lists folded from the source and compared, as exact integer matrices on "
                "Fock spaces of 1-3 spatial orbitals and both orderings, with directly constructed N, S_z, S^2; structure of the penalty "
                "constructors; agreement of the three implementations of the spin re-ordering.")
    rep.trust("CPython ast", "sa.consteval folding subset", "checker-side ladder-operator matrices (sa/rules/fock.py)", "numpy exact integer arithmetic (object dtype)")
    rep.assume("commutation with molecular Hamiltonians and conservation along the ansatz parameter space are runtime facts and are not decided",
               "uniformity of the templates in (i, j) makes 1-3 orbitals exhaustive for the index patterns i = j, i != j")
    check_symmetry_operators(idx, rep, tier)
    check_penalties(idx, rep)
    check_reordering(idx, rep)


def check_symmetry_operators(idx: Index, rep: Report, tier: str):
    rule = "K9.symmetry-operators"
    sizes = [1, 2] if tier == "quick" else [1, 2, 3]
    n = 0
    for n_orbs in sizes:
        for utd in (False, True):
            N, Sz2, S2_4 = reference_ops(n_orbs, utd)
            for fname, ref, scale, label in (("number_operator_list", 4 * N, 4, "N"), ("spinz_operator_list", 2 * Sz2, 4, "S_z"), ("spin2_operator_list", S2_4, 4, "S^2")):
                terms = fold_list(idx, fname, n_orbs, utd)
                f = idx.function(f"{FO}::{fname}")
                try:
                    m = fock.operator_matrix([(tuple(t[0]), t[1]) for t in terms], 2 * n_orbs, scale=scale)
                except ValueError as e:
                    rep.violation(rule, f, f.node, text=f"{label}, {n_orbs} orbital(s), up_then_down={utd}", what=f"{label} term list is well formed", reason=str(e))
                    continue
                ok = bool((m == ref).all())
                n += 1
                rep.decide(ok, rule, f, f.node, text=f"{label}: {n_orbs} orbital(s), up_then_down={utd}, {len(terms)} terms",
                           what=f"the term list of {label} equals the physical operator on every occupation-number state (exact matrix comparison)",
                           reason=f"matrix of the folded term list differs from {label} on {int((m != ref).sum())} entries")
    rep.floor("symmetry operator matrices compared", n, 12)
    # the FermionOperator versions are the same lists, merged and normal ordered
    for name, lst in (("number_operator", "number_operator_list"), ("spinz_operator", "spinz_operator_list"), ("spin2_operator", "spin2_operator_list")):
        f = idx.function(f"{FO}::{name}")
        t = full(f.node)
        ok = f"all_terms = {lst}(n_orbs, up_then_down)" in t and "list_to_fermionoperator(all_terms)" in t and "return normal_ordered(" in t
        rep.decide(ok, rule, f, f.node, text=f"{name} = normal_ordered(sum of {lst})", what="the operator object is the merged, normal-ordered term list",
                   reason="operator construction changed")


def check_penalties(idx: Index, rep: Report):
    rule = "K9.penalty"
    for fn, lst, tgt in (("number_operator_penalty", "number_operator_list", "n_electrons"), ("spin_operator_penalty", "spinz_operator_list", "sz"),
                         ("spin2_operator_penalty", "spin2_operator_list", "s2")):
        f = idx.function(f"{PEN}::{fn}")
        asg = [n for n in own_nodes(f.node) if isinstance(n, ast.Assign) and norm(n.targets[0]) == "all_terms"]
        ok = bool(asg) and norm(asg[0].value) == f"[[(), -{tgt}]] + {lst}(n_orbs, up_then_down)"
        rep.decide(ok, rule, f, asg[0] if asg else f.node, text=f"{fn}: terms = (-{tgt}) * identity + operator", what="the penalised quantity is (operator - target)",
                   reason=f"terms assembled as {norm(asg[0].value) if asg else '?'}")
        rets = [n for n in own_nodes(f.node) if isinstance(n, ast.Return)]
        ok = bool(rets) and norm(rets[0].value) in ("mu * squared_normal_ordered(all_terms)", "squared_normal_ordered(all_terms) * mu")
        rep.decide(ok, rule, f, rets[0] if rets else f.node, text=f"{fn}: mu * (operator - target)^2", what="the penalty is the weight times the square, hence non-negative and zero exactly on the target sector",
                   reason=f"returns {norm(rets[0].value) if rets else '?'}")
    sq = idx.function(f"{OPS}::squared_normal_ordered")
    t = full(sq.node)
    ok = "fe_op = list_to_fermionoperator(all_terms)" in t and "fe_op *= fe_op" in t and "return normal_ordered(fe_op)" in t
    rep.decide(ok, rule, sq, sq.node, text="squared_normal_ordered = normal_ordered(op * op)", what="the square is the operator times itself", reason="squaring changed")
    lf = idx.function(f"{OPS}::list_to_fermionoperator")
    ok = "fe_op += FermionOperator(item[0], item[1])" in full(lf.node)
    rep.decide(ok, rule, lf, lf.node, text="list -> operator: sum of FermionOperator(term, coefficient)", what="each list entry contributes its term with its coefficient",
               reason="list conversion changed")
    cp = idx.function(f"{PEN}::combined_penalty")
    want = {"N": "number_operator_penalty", "Sz": "spin_operator_penalty", "S^2": "spin2_operator_penalty"}
    got = {}
    for n in own_nodes(cp.node):
        if isinstance(n, ast.If) and isinstance(n.test, ast.Compare) and isinstance(n.test.ops[0], ast.Gt) and norm(n.test.comparators[0]) == "0":
            key = None
            for x in ast.walk(n.test.left):
                if isinstance(x, ast.Constant) and isinstance(x.value, str):
                    key = x.value
            idx0 = norm(n.test.left).endswith("[0]")
            calls = [c for s in n.body for c in ast.walk(s) if isinstance(c, ast.Call) and norm(c.func).endswith("_penalty")]
            unp = [s for s in n.body if isinstance(s, ast.Assign) and isinstance(s.targets[0], ast.Tuple)]
            if key and calls and unp and idx0:
                pre, val = [norm(e) for e in unp[0].targets[0].elts]
                src_ok = norm(unp[0].value) == f"penalty_terms['{key}'][:]"
                c = calls[0]
                kws = {k.arg: norm(k.value) for k in c.keywords}
                args = [norm(a) for a in c.args]
                ok = src_ok and args == ["n_orbs", val] and kws == {"mu": pre, "up_then_down": "up_then_down"} and \
                    any(isinstance(s, ast.AugAssign) and isinstance(s.op, ast.Add) and norm(s.target) == "pen_ferm" for s in n.body)
                got[key] = norm(c.func) if ok else None
    rep.decide(got == want, rule, cp, cp.node, text="combined penalty: N, Sz, S^2 each added iff its prefactor is positive, with its own target",
               what="each requested penalty is added with its own weight and target, and the ordering flag is passed through", reason=f"recognised {got}")
    ok = any(isinstance(n, ast.Raise) for n in ast.walk(cp.node)) and "penalty_terms = {'N': [0, 0], 'Sz': [0, 0], 'S^2': [0, 0]}" in full(cp.node)
    rep.decide(ok, rule, cp, cp.node, text="unknown penalty keys are refused; defaults are zero weight", what="an unknown penalty name is an error, absent ones contribute nothing",
               reason="defaults or key validation changed")


def check_reordering(idx: Index, rep: Report):
    rule = "K8.spin-ordering"
    # (1) operator re-indexing: remapped[i] = i//2 (+ ceil(n/2) for odd i)
    f = idx.function(f"{MT}::make_up_then_down")
    from ..rules.circuitsem import make_folder
    from ..rules.guards import decide_refusals
    from .C14 import _QOp

    def hook(val, cls):
        return isinstance(val, _QOp) if "FermionOperator" in str(cls) else None
    for n in (2, 4, 6):
        op = _QOp()
        want = {}
        new_index = {i: i // 2 + (n // 2 if i % 2 else 0) for i in range(n)}
        for i in range(n):
            for j in range(n):
                c = sp.Symbol(f"c_{i}_{j}")
                op.terms[((i, 1), (j, 0))] = c
                want[((new_index[i], 1), (new_index[j], 0))] = c
        op.terms[((n - 1, 1), (0, 1), (n - 1, 0), (0, 0))] = sp.Symbol("d")
        want[((new_index[n - 1], 1), (0, 1), (new_index[n - 1], 0), (0, 0))] = sp.Symbol("d")
        fo = make_folder(idx, MT, ctors={"FermionOperator": lambda args, kwargs: _QOp(*args, **kwargs)}, isinstance_hook=hook)
        try:
            got = fo.run_function(f.node, {"fermion_operator": op, "n_spinorbitals": n})
        except (Undecidable, Raised) as e:
            raise AnalysisError(f"make_up_then_down not foldable for {n} spin-orbitals: {e}")
        gt = got.terms if isinstance(got, _QOp) else None
        rep.decide(gt == want, rule, f, f.node, text=f"operator on {n} spin-orbitals: index i -> i//2 (+ n/2 when i is odd), ladder types and coefficients kept",
                   what="alpha orbitals keep their spatial order in the first half, beta in the second; nothing else about a term changes",
                   reason=f"folded result differs: e.g. {sorted(set((gt or {}).items()) ^ set(want.items()), key=repr)[:2]}")
    small = _QOp(((0, 1), (1, 0)), sp.Symbol("c"))
    cases = [("3 spin-orbitals (odd)", {"fermion_operator": small, "n_spinorbitals": 3}, True), ("operator reaching beyond the register", {"fermion_operator": _QOp(((5, 1), (0, 0)), 1), "n_spinorbitals": 4}, True),
             ("4 spin-orbitals", {"fermion_operator": small, "n_spinorbitals": 4}, False)]
    decide_refusals(idx, rep, rule, f, cases, what="an odd register size, or an operator that does not fit the register, is refused", may_skip=("isinstance",))
    # (2) vector re-ordering: even positions then odd positions, applied exactly once whatever the mapping
    g = idx.function(f"{SV}::get_mapped_vector")
    vec = [sp.Symbol(f"v{i}") for i in range(6)]
    wantv = vec[::2] + vec[1::2]
    for mp in ("JW", "jw"):
        for utd in (True, False):
            fo = make_folder(idx, SV)
            try:
                got = fo.run_function(g.node, {"vector": list(vec), "mapping": mp, "up_then_down": utd})
            except (Undecidable, Raised) as e:
                raise AnalysisError(f"get_mapped_vector not foldable: {e}")
            rep.decide(list(got) == (wantv if utd else vec), rule, g, g.node, text=f"vector, mapping {mp}, up_then_down={utd}",
                       what="occupations of alpha spin-orbitals first, then beta: position i goes to i//2 (+ n/2 when odd); untouched otherwise",
                       reason=f"folds to {got}")
    # for the other encodings the vector reaching the transform is the re-ordered one exactly when asked (always for scBK)
    seen = {}
    for mp, fname in (("BK", "do_bk_transform"), ("SCBK", "do_scbk_transform"), ("JKMN", "do_jkmn_transform")):
        for utd in (True, False):
            fo = make_folder(idx, SV)
            fo.env[fname] = FuncVal(ast.parse("def _probe(vector, *a):\n    return ('probe', list(vector))").body[0])
            fo.env["warnings"] = Opaque("warnings")
            try:
                got = fo.run_function(g.node, {"vector": list(vec), "mapping": mp, "up_then_down": utd})
            except (Undecidable, Raised) as e:
                raise AnalysisError(f"get_mapped_vector not foldable for {mp}: {e}")
            expect = wantv if (utd or mp == "SCBK") else vec
            ok = isinstance(got, tuple) and got[0] == "probe" and got[1] == expect
            rep.decide(ok, rule, g, g.node, text=f"vector handed to {fname}, up_then_down={utd}",
                       what="the transform receives the re-ordered vector exactly when re-ordering is requested (the symmetry-conserving encoding always re-orders), once",
                       reason=f"{fname} receives {got[1] if isinstance(got, tuple) else got}")
    # (3) spin-orbital index selection, folded
    h = idx.function(f"{GUCC}::get_spin_ordered")
    for utd, want in ((True, ((1, 2), (4, 5))), (False, ((2, 4), (3, 5)))):
        fo = Folder()
        for ty in ("int", "float", "bool", "str"):
            fo.env[ty] = Opaque("type:" + ty)
        try:
            res = fo.run_function(h.node, {"n_orbs": 3, "pp": 1, "qq": 2, "rr": -1, "ss": -1, "up_down": utd})
        except (Undecidable, Raised) as e:
            raise AnalysisError(f"get_spin_ordered not foldable: {e}")
        ok = tuple(tuple(x) for x in res) == want
        rep.decide(ok, rule, h, h.node, text=f"get_spin_ordered(3, 1, 2, up_down={utd}) = {want}",
                   what="spatial orbital p is spin-orbitals (p, p + n) when all-up-then-all-down and (2p, 2p + 1) when interleaved - the same layout as (1) and (2)",
                   reason=f"returns {res}")
    # consistency (1) vs (3): interleaved index 2p -> p, 2p+1 -> p + n
    n_ = sp.Symbol("n", integer=True, positive=True)
    p = sp.Symbol("p", integer=True, nonnegative=True)
    ok = sp.simplify(sp.floor((2 * p) / 2) - p) == 0 and sp.simplify(sp.floor((2 * p + 1) / 2) + sp.ceiling(2 * n_ / 2) - (p + n_)) == 0
    rep.decide(ok, rule, f, f.node, text="(2p -> p, 2p+1 -> p + n) under i//2 + [i odd] * ceil(2n/2)", what="operator re-indexing and index selection describe the same permutation",
               reason="permutations disagree")
