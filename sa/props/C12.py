"""C12 Symmetry operators and penalties are exact (structural part).

C12.a K9  the term lists of N, S_z and S^2 are folded from the source (both spin-orbital orderings, 1 to 3 spatial orbitals - this
          covers both index-coincidence patterns i = j and i != j of the templates) and their exact integer Fock-space matrices
          (checker-side ladder-operator algebra) are compared with N = sum n_p, S_z = (N_up - N_down)/2 and
          S^2 = S_z^2 + (S_+ S_- + S_- S_+)/2 built directly for the same ordering
C12.b K9  penalties: (operator - target)^2 assembled as [[(), -target]] + list, squared and normal ordered, times mu; the combined
          penalty adds a term only for a positive prefactor, with its own target and the ordering flag passed through
C12.c K8  the three implementations of the up-then-down re-ordering agree (operator re-indexing, vector re-ordering,
          spin-orbital index selection)
"""
from __future__ import annotations

import ast
from typing import Dict, List

import numpy as np
import sympy as sp

from ..consteval import Folder, FuncVal, Opaque, Raised, Undecidable
from ..index import AnalysisError, FunctionInfo, Index, full, norm, own_nodes
from ..report import Report
from ..rules import circuitsem as cs
from ..rules import fock
from .. import symx

FO = "tangelo/toolboxes/ansatz_generator/fermionic_operators.py"
PEN = "tangelo/toolboxes/ansatz_generator/penalty_terms.py"
OPS = "tangelo/toolboxes/operators/operators.py"
GUCC = "tangelo/toolboxes/ansatz_generator/_general_unitary_cc.py"


def check_hcb_penalties(idx: Index, rep: Report):
    """Penalty terms under the hard-core-boson encoding ("under every encoding"): the library's penalty builders are folded into term dictionaries (order-aware
    operator stand-ins, the checker's normal ordering), sent through the folded hard-core-boson chain and compared with the exact restriction of the same
    operator to the paired determinants - where the particle-number penalty is mu (2 * pairs - n)^2 and the spin penalties vanish."""
    import numpy as np
    from ..consteval import Raised, Undecidable
    from ..rules import ofmodel as om
    from .C03 import boson_matrix, hcb_encode, paired_block
    rule = "K9.hcb-penalties"
    for fname, args in (("number_operator_penalty", {"n_electrons": 2}), ("spin_operator_penalty", {"sz": 0}), ("spin2_operator_penalty", {"s2": 0})):
        g = idx.function(f"{PEN}::{fname}")
        bad = []
        for n_mos in (2, 3):
            fo = cs.make_folder(idx, PEN, ctors={"FermionOperator": lambda a, k: om.OrdFermionOp(*a, **k), "normal_ordered": lambda a, k: om.normal_ordered(a[0])})
            try:
                op = fo.run_function(g.node, dict(args, n_orbs=n_mos, mu=1.5, up_then_down=False))
                bos = hcb_encode(idx, dict(op.terms))
            except Undecidable as e:
                raise AnalysisError(f"{fname} / hard-core-boson chain not foldable: {e}")
            except Raised as e:
                bad.append(f"{n_mos} orbitals: raises {e.exc_type}")
                continue
            got, want = boson_matrix(bos, n_mos), paired_block(dict(op.terms), n_mos)
            if float(np.max(np.abs(got - want))) >= 1e-9:
                bad.append(f"{n_mos} orbitals: encoded diagonal {np.round(np.real(np.diag(got)), 6).tolist()}, exact values on the paired determinants "
                           f"{np.round(np.real(np.diag(want)), 6).tolist()} (terms with up to {max(len(t) for t in op.terms)} ladder operators)")
        rep.decide(not bad, rule, g, g.node, text=f"{fname} under the hard-core-boson encoding",
                   what="the encoded penalty is the restriction of the penalty operator to the paired determinants the encoding represents (zero on the targeted sector)",
                   reason="; ".join(bad) + " - the coefficient extraction of the encoder reads one- and two-body terms only; the products of three and four pairs of ladder "
                          "operators in (S^2 - s)^2 are dropped without notice")


def check_adapt_word_angles(idx: Index, rep: Report):
    """ADAPT writes every Pauli word of a pool operator as its own rotation; the state stays in the particle-number and spin sector only if the words of one
    operator rotate by +theta or -theta according to the sign the operator gives them (pairs such as XY - YX conserve the number of particles, XY + YX or
    unequal angles do not).  ADAPTAnsatz is folded as a class, restarted from two signed operators and built with several parameter vectors - the all-zero
    vector included -: the angle of the k-th variational gate is sign(coefficient of the k-th word) * theta of its operator."""
    from ..consteval import Raised, Undecidable
    from ..rules.circuitsem import module_resolver
    from .C07 import _QOpM, _class_folder, _method, _same_angle
    rule = "K9.adapt-word-signs"
    AD = "tangelo/toolboxes/ansatz_generator/adapt_ansatz.py"
    cls = module_resolver(idx, AD)("ADAPTAnsatz")
    if cls is None:
        raise AnalysisError("ADAPTAnsatz class not resolvable")
    bf = idx.function(f"{AD}::ADAPTAnsatz.build_circuit")
    op1 = {((0, "X"), (1, "Y")): 1.0, ((0, "Y"), (1, "X")): -1.0}
    op2 = {((2, "Y"), (0, "X"), (1, "X"), (3, "X")): -1.0, ((2, "X"), (0, "X"), (1, "X"), (3, "Y")): 1.0, ((2, "X"), (0, "Y"), (1, "Y"), (3, "Y")): -1.0}
    want_sign = [1.0, -1.0, -1.0, 1.0, -1.0]
    owner = [0, 0, 1, 1, 1]
    n = 0
    for vec in ([0.3, -0.4], [0.0, 0.0], None, [0.0, 0.25]):
        label = f"restarted from two operators, build_circuit({vec})"
        try:
            a = _class_folder(idx, AD).instantiate(cls, [4, 2, 0], {"ansatz_options": {"operators": [_QOpM(op1), _QOpM(op2)], "reference_state": "zero"}})
            _class_folder(idx, AD).call_funcval(_method(idx, a, "build_circuit", AD), [] if vec is None else [list(vec)], {})
        except Undecidable as e:
            raise AnalysisError(f"ADAPTAnsatz.build_circuit not foldable: {e}")
        except Raised as e:
            n += 1
            rep.violation(rule, bf, bf.node, text=label, what="a restarted ADAPT ansatz builds for every parameter vector", reason=f"raises {e.exc_type}")
            continue
        theta = [0.0, 0.0] if vec is None else vec
        angles = [x[3] for x in a.fields["circuit"].signature() if x[4]]
        ok = len(angles) == len(want_sign) and all(_same_angle(g, sg * theta[o]) for g, sg, o in zip(angles, want_sign, owner))
        n += 1
        rep.decide(ok, rule, bf, bf.node, text=f"ADAPT {label}: {len(angles)} variational rotations",
                   what="each Pauli word of an ADAPT operator rotates by sign(coefficient) * theta of its operator - zero when theta is zero -, which keeps the prepared "
                        "state in the reference particle-number and spin sector",
                   reason=f"angles {[float(x) if not hasattr(x, 'free_symbols') else x for x in angles]}, expected {[sg * theta[o] for sg, o in zip(want_sign, owner)]}")
    rep.floor("ADAPT parameter vectors folded", n, 4)
MT = "tangelo/toolboxes/qubit_mappings/mapping_transform.py"
SV = "tangelo/toolboxes/qubit_mappings/statevector_mapping.py"


def fold_list(idx: Index, fname: str, n_orbs: int, utd: bool):
    f = idx.function(f"{FO}::{fname}")
    fo = Folder(resolver=cs.module_resolver(idx, FO))
    for t in ("int", "float", "bool", "str"):
        fo.env[t] = Opaque("type:" + t)
    try:
        return fo.run_function(f.node, {"n_orbs": n_orbs, "up_then_down": utd})
    except (Undecidable, Raised) as e:
        raise AnalysisError(f"{fname} not foldable: {e}")


def reference_ops(n_orbs: int, utd: bool):
    n = 2 * n_orbs
    up = [(p if utd else 2 * p) for p in range(n_orbs)]
    dn = [(n_orbs + p if utd else 2 * p + 1) for p in range(n_orbs)]
    num = fock.number_ops(n)
    N = sum(num[j] for j in range(n))
    Sz2 = sum(num[j] for j in up) - sum(num[j] for j in dn)          # 2 * S_z
    Sp = sum(fock.term_matrix(((up[p], 1), (dn[p], 0)), n) for p in range(n_orbs))
    Sm = sum(fock.term_matrix(((dn[p], 1), (up[p], 0)), n) for p in range(n_orbs))
    S2_4 = Sz2.dot(Sz2) + 2 * (Sp.dot(Sm) + Sm.dot(Sp))             # 4 * S^2
    return N, Sz2, S2_4


def run(idx: Index, rep: Report, tier: str):
    rep.explain("C12 structural part: symmetry-operator term lists folded from the source and compared, as exact integer matrices on "
                "Fock spaces of 1-3 spatial orbitals and both orderings, with directly constructed N, S_z, S^2; structure of the penalty "
                "constructors; agreement of the three implementations of the spin re-ordering.")
    rep.trust("CPython ast", "sa.consteval folding subset", "checker-side ladder-operator matrices (sa/rules/fock.py)", "numpy exact integer arithmetic (object dtype)")
    rep.assume("commutation with molecular Hamiltonians and conservation along the ansatz parameter space are runtime facts and are not decided",
               "uniformity of the templates in (i, j) makes 1-3 orbitals exhaustive for the index patterns i = j, i != j")
    check_symmetry_operators(idx, rep, tier)
    check_penalties(idx, rep)
    check_reordering(idx, rep)
    check_spin_source(idx, rep)
    check_pool_conservation(idx, rep, tier)
    check_adapt_word_angles(idx, rep)
    check_hcb_penalties(idx, rep)
    # "for all parameter values": a parameter vector also reaches the circuit through update_var_params; the particle-conserving structure is that
    # of the *built* circuit, so the updated circuit has to be the built one (necessary condition, decided as in C07)
    from . import C07
    for cname in ("UCCSD", "UpCCGSD"):
        c = next(k for k in idx.subclasses(idx.cls(f"{C07.ANSATZ}::Ansatz")) if k.name == cname)
        C07.check_update_equals_rebuild(idx, rep, c)


def check_symmetry_operators(idx: Index, rep: Report, tier: str):
    rule = "K9.symmetry-operators"
    sizes = [1, 2] if tier == "quick" else [1, 2, 3]
    n = 0
    for n_orbs in sizes:
        for utd in (False, True):
            N, Sz2, S2_4 = reference_ops(n_orbs, utd)
            for fname, ref, scale, label in (("number_operator_list", 4 * N, 4, "N"), ("spinz_operator_list", 2 * Sz2, 4, "S_z"), ("spin2_operator_list", S2_4, 4, "S^2")):
                terms = fold_list(idx, fname, n_orbs, utd)
                f = idx.function(f"{FO}::{fname}")
                try:
                    m = fock.operator_matrix([(tuple(t[0]), t[1]) for t in terms], 2 * n_orbs, scale=scale)
                except ValueError as e:
                    rep.violation(rule, f, f.node, text=f"{label}, {n_orbs} orbital(s), up_then_down={utd}", what=f"{label} term list is well formed", reason=str(e))
                    continue
                ok = bool((m == ref).all())
                n += 1
                rep.decide(ok, rule, f, f.node, text=f"{label}: {n_orbs} orbital(s), up_then_down={utd}, {len(terms)} terms",
                           what=f"the term list of {label} equals the physical operator on every occupation-number state (exact matrix comparison)",
                           reason=f"matrix of the folded term list differs from {label} on {int((m != ref).sum())} entries")
    rep.floor("symmetry operator matrices compared", n, 12)
    # the FermionOperator versions, folded with the operator class replaced by exact matrices
    for n_orbs in sizes:
        for utd in (False, True):
            N, Sz2, S2_4 = reference_ops(n_orbs, utd)
            for name, ref, label in (("number_operator", 4 * N, "N"), ("spinz_operator", 2 * Sz2, "S_z"), ("spin2_operator", S2_4, "S^2")):
                f = idx.function(f"{FO}::{name}")
                got = fold_operator(idx, FO, name, 2 * n_orbs, {"n_orbs": n_orbs, "up_then_down": utd})
                rep.decide(_mat_eq(got.m * 4, ref), rule, f, f.node, text=f"{name}({n_orbs}, up_then_down={utd}) as an operator object",
                           what=f"the operator object equals {label} on every occupation-number state (term list merged; normal ordering does not change the operator)",
                           reason="matrix of the folded operator differs from the physical one")


class _FockOp:
    """checker-side stand-in for a FermionOperator: its exact matrix on the Fock space of a fixed register"""
    _sa_model = True
    n = 0

    def __init__(self, term=None, coefficient=1, m=None):
        dim = 2 ** _FockOp.n
        if m is not None:
            self.m = m
        elif term is None:
            self.m = np.zeros((dim, dim), dtype=object)
        else:
            self.m = _frac(coefficient) * fock.term_matrix(tuple((int(j), int(d)) for j, d in term), _FockOp.n)

    def __add__(self, o):
        if not isinstance(o, _FockOp):
            raise Undecidable(f"operator + {o!r}")
        return _FockOp(m=self.m + o.m)
    __iadd__ = __add__

    def __sub__(self, o):
        return _FockOp(m=self.m - o.m)

    def __mul__(self, o):
        if isinstance(o, _FockOp):
            return _FockOp(m=self.m.dot(o.m))
        return _FockOp(m=_frac(o) * self.m)
    __imul__ = __mul__

    def __rmul__(self, o):
        return _FockOp(m=_frac(o) * self.m)

    def __neg__(self):
        return _FockOp(m=-self.m)


def _frac(x):
    from fractions import Fraction
    if isinstance(x, bool):
        raise Undecidable("boolean coefficient")
    if isinstance(x, (int, Fraction)):
        return Fraction(x)
    if isinstance(x, float):
        return Fraction(x).limit_denominator(10 ** 9)
    if isinstance(x, sp.Basic) and x.is_Rational:
        return Fraction(int(x.p), int(x.q))
    raise Undecidable(f"coefficient {x!r} is not rational")


def _mat_eq(a, b) -> bool:
    return a.shape == b.shape and bool((a == b).all())


def fold_operator(idx: Index, rel: str, fname: str, n_modes: int, args: dict):
    """fold a repository function that builds a FermionOperator, with the class replaced by exact matrices on n_modes modes"""
    _FockOp.n = n_modes
    f = idx.function(f"{rel}::{fname}")
    fo = cs.make_folder(idx, rel, ctors={"FermionOperator": lambda a, k: _FockOp(*a, **k), "normal_ordered": lambda a, k: a[0]})
    try:
        got = fo.run_function(f.node, dict(args))
    except Undecidable as e:
        raise AnalysisError(f"{fname} not foldable: {e}")
    if not isinstance(got, _FockOp):
        raise AnalysisError(f"{fname} folded to {got!r}")
    return got


def check_penalties(idx: Index, rep: Report):
    """every penalty constructor folded with exact matrices: mu * (operator - target)^2; the combined penalty is the sum of the requested ones"""
    rule = "K9.penalty"
    from fractions import Fraction
    half = sp.Rational(1, 2)
    for n_orbs in (1, 2):
        dim = 2 ** (2 * n_orbs)
        eye = np.eye(dim, dtype=object)
        for utd in (False, True):
            N, Sz2, S2_4 = reference_ops(n_orbs, utd)
            ops = {"N": N * Fraction(1), "Sz": Sz2 * Fraction(1, 2), "S^2": S2_4 * Fraction(1, 4)}

            def pen(key, mu, target):
                d = ops[key] - _frac(target) * eye
                return _frac(mu) * d.dot(d)
            for fn, key, tparam, targets in (("number_operator_penalty", "N", "n_electrons", (0, 1, 2)), ("spin_operator_penalty", "Sz", "sz", (0, half, -1)),
                                             ("spin2_operator_penalty", "S^2", "s2", (0, 2, sp.Rational(3, 4)))):
                f = idx.function(f"{PEN}::{fn}")
                for tg in targets:
                    for mu in (1, 3):
                        got = fold_operator(idx, PEN, fn, 2 * n_orbs, {"n_orbs": n_orbs, tparam: tg, "mu": mu, "up_then_down": utd})
                        rep.decide(_mat_eq(got.m, pen(key, mu, tg)), rule, f, f.node, text=f"{fn}({n_orbs}, {tg}, mu={mu}, up_then_down={utd}) = mu * ({key} - {tg})^2",
                                   what="the penalty is the weight times the square of (operator - target): non-negative, zero exactly on the target sector",
                                   reason="matrix of the folded penalty differs from mu * (operator - target)^2")
            cp = idx.function(f"{PEN}::combined_penalty")
            for opts in ({"N": [2, 1], "Sz": [3, 0], "S^2": [5, 2]}, {"N": [2, 1]}, {"Sz": [3, half], "S^2": [0, 2]}, {"S^2": [1, 0], "N": [0, 5]}):
                got = fold_operator(idx, PEN, "combined_penalty", 2 * n_orbs, {"n_orbs": n_orbs, "opt_penalty_terms": {k: list(v) for k, v in opts.items()}, "up_then_down": utd})
                want = np.zeros((dim, dim), dtype=object)
                for k, (mu, tg) in opts.items():
                    if mu > 0:
                        want = want + pen(k, mu, tg)
                rep.decide(_mat_eq(got.m, want), rule, cp, cp.node, text=f"combined_penalty({n_orbs}, {opts}, up_then_down={utd})",
                           what="each requested penalty is added with its own weight and target (zero weights contribute nothing), in the requested ordering",
                           reason="matrix of the folded combined penalty differs from the sum of the requested penalties")
            got = fold_operator(idx, PEN, "combined_penalty", 2 * n_orbs, {"n_orbs": n_orbs, "opt_penalty_terms": None, "up_then_down": utd})
            rep.decide(_mat_eq(got.m, np.zeros((dim, dim), dtype=object)), rule, cp, cp.node, text=f"combined_penalty({n_orbs}, None) is the zero operator",
                       what="no requested penalty means no penalty", reason="non-zero operator")
    _FockOp.n = 2
    cp = idx.function(f"{PEN}::combined_penalty")
    fo = cs.make_folder(idx, PEN, ctors={"FermionOperator": lambda a, k: _FockOp(*a, **k), "normal_ordered": lambda a, k: a[0]})
    try:
        fo.run_function(cp.node, {"n_orbs": 1, "opt_penalty_terms": {"Nz": [1, 1]}, "up_then_down": False})
        refused = False
    except Raised:
        refused = True
    except Undecidable as e:
        raise AnalysisError(f"combined_penalty not foldable: {e}")
    rep.decide(refused, rule, cp, cp.node, text="unknown penalty keys are refused", what="an unknown penalty name is an error", reason="combined_penalty({'Nz': ...}) is accepted")


def check_reordering(idx: Index, rep: Report):
    rule = "K8.spin-ordering"
    # (1) operator re-indexing: remapped[i] = i//2 (+ ceil(n/2) for odd i)
    f = idx.function(f"{MT}::make_up_then_down")
    from ..rules.circuitsem import make_folder
    from ..rules.guards import decide_refusals
    from .C14 import _QOp

    def hook(val, cls):
        return isinstance(val, _QOp) if "FermionOperator" in str(cls) else None
    for n in (2, 4, 6):
        op = _QOp()
        want = {}
        new_index = {i: i // 2 + (n // 2 if i % 2 else 0) for i in range(n)}
        for i in range(n):
            for j in range(n):
                c = sp.Symbol(f"c_{i}_{j}")
                op.terms[((i, 1), (j, 0))] = c
                want[((new_index[i], 1), (new_index[j], 0))] = c
        op.terms[((n - 1, 1), (0, 1), (n - 1, 0), (0, 0))] = sp.Symbol("d")
        want[((new_index[n - 1], 1), (0, 1), (new_index[n - 1], 0), (0, 0))] = sp.Symbol("d")
        fo = make_folder(idx, MT, ctors={"FermionOperator": lambda args, kwargs: _QOp(*args, **kwargs)}, isinstance_hook=hook)
        try:
            got = fo.run_function(f.node, {"fermion_operator": op, "n_spinorbitals": n})
        except (Undecidable, Raised) as e:
            raise AnalysisError(f"make_up_then_down not foldable for {n} spin-orbitals: {e}")
        gt = got.terms if isinstance(got, _QOp) else None
        rep.decide(gt == want, rule, f, f.node, text=f"operator on {n} spin-orbitals: index i -> i//2 (+ n/2 when i is odd), ladder types and coefficients kept",
                   what="alpha orbitals keep their spatial order in the first half, beta in the second; nothing else about a term changes",
                   reason=f"folded result differs: e.g. {sorted(set((gt or {}).items()) ^ set(want.items()), key=repr)[:2]}")
    for label, terms in (("the zero operator", {}), ("a constant (identity term only)", {(): sp.Symbol("k")}), ("a constant plus a hopping term", {(): sp.Symbol("k"), ((1, 1), (2, 0)): sp.Symbol("c")})):
        op = _QOp()
        op.terms = dict(terms)
        want = {tuple((i // 2 + (2 if i % 2 else 0), d) for i, d in t): c for t, c in terms.items()}
        fo = make_folder(idx, MT, ctors={"FermionOperator": lambda args, kwargs: _QOp(*args, **kwargs)}, isinstance_hook=hook)
        try:
            got = fo.run_function(f.node, {"fermion_operator": op, "n_spinorbitals": 4})
            gt, why = (got.terms if isinstance(got, _QOp) else None), ""
        except Undecidable as e:
            raise AnalysisError(f"make_up_then_down not foldable for {label}: {e}")
        except Raised as e:
            gt, why = None, f"raises {e.exc_type}"
        rep.decide(gt == want, rule, f, f.node, text=f"re-ordering {label} on 4 spin-orbitals",
                   what="the re-ordering is defined for every operator that fits the register, the zero operator and constants included (they are unchanged)",
                   reason=why or f"folds to {gt}")
    small = _QOp(((0, 1), (1, 0)), sp.Symbol("c"))
    cases = [("3 spin-orbitals (odd)", {"fermion_operator": small, "n_spinorbitals": 3}, True), ("operator reaching beyond the register", {"fermion_operator": _QOp(((5, 1), (0, 0)), 1), "n_spinorbitals": 4}, True),
             ("4 spin-orbitals", {"fermion_operator": small, "n_spinorbitals": 4}, False)]
    decide_refusals(idx, rep, rule, f, cases, what="an odd register size, or an operator that does not fit the register, is refused", may_skip=("isinstance",))
    # (2) vector re-ordering: even positions then odd positions, applied exactly once whatever the mapping
    g = idx.function(f"{SV}::get_mapped_vector")
    vec = [sp.Symbol(f"v{i}") for i in range(6)]
    wantv = vec[::2] + vec[1::2]
    for mp in ("JW", "jw"):
        for utd in (True, False):
            fo = make_folder(idx, SV)
            try:
                got = fo.run_function(g.node, {"vector": list(vec), "mapping": mp, "up_then_down": utd})
            except (Undecidable, Raised) as e:
                raise AnalysisError(f"get_mapped_vector not foldable: {e}")
            rep.decide(list(got) == (wantv if utd else vec), rule, g, g.node, text=f"vector, mapping {mp}, up_then_down={utd}",
                       what="occupations of alpha spin-orbitals first, then beta: position i goes to i//2 (+ n/2 when odd); untouched otherwise",
                       reason=f"folds to {got}")
    # for the other encodings the vector reaching the transform is the re-ordered one exactly when asked (always for scBK)
    seen = {}
    for mp, fname in (("BK", "do_bk_transform"), ("SCBK", "do_scbk_transform"), ("JKMN", "do_jkmn_transform")):
        for utd in (True, False):
            fo = make_folder(idx, SV)
            fo.env[fname] = FuncVal(ast.parse("def _probe(vector, *a):\n    return ('probe', list(vector))").body[0])
            fo.env["warnings"] = Opaque("warnings")
            try:
                got = fo.run_function(g.node, {"vector": list(vec), "mapping": mp, "up_then_down": utd})
            except (Undecidable, Raised) as e:
                raise AnalysisError(f"get_mapped_vector not foldable for {mp}: {e}")
            expect = wantv if (utd or mp == "SCBK") else vec
            ok = isinstance(got, tuple) and got[0] == "probe" and got[1] == expect
            rep.decide(ok, rule, g, g.node, text=f"vector handed to {fname}, up_then_down={utd}",
                       what="the transform receives the re-ordered vector exactly when re-ordering is requested (the symmetry-conserving encoding always re-orders), once",
                       reason=f"{fname} receives {got[1] if isinstance(got, tuple) else got}")
    # (3) spin-orbital index selection, folded
    h = idx.function(f"{GUCC}::get_spin_ordered")
    for utd, want in ((True, ((1, 2), (4, 5))), (False, ((2, 4), (3, 5)))):
        fo = Folder()
        for ty in ("int", "float", "bool", "str"):
            fo.env[ty] = Opaque("type:" + ty)
        try:
            res = fo.run_function(h.node, {"n_orbs": 3, "pp": 1, "qq": 2, "rr": -1, "ss": -1, "up_down": utd})
        except (Undecidable, Raised) as e:
            raise AnalysisError(f"get_spin_ordered not foldable: {e}")
        ok = tuple(tuple(x) for x in res) == want
        rep.decide(ok, rule, h, h.node, text=f"get_spin_ordered(3, 1, 2, up_down={utd}) = {want}",
                   what="spatial orbital p is spin-orbitals (p, p + n) when all-up-then-all-down and (2p, 2p + 1) when interleaved - the same layout as (1) and (2)",
                   reason=f"returns {res}")
    # consistency (1) vs (3): interleaved index 2p -> p, 2p+1 -> p + n
    n_ = sp.Symbol("n", integer=True, positive=True)
    p = sp.Symbol("p", integer=True, nonnegative=True)
    ok = sp.simplify(sp.floor((2 * p) / 2) - p) == 0 and sp.simplify(sp.floor((2 * p + 1) / 2) + sp.ceiling(2 * n_ / 2) - (p + n_)) == 0
    rep.decide(ok, rule, f, f.node, text="(2p -> p, 2p+1 -> p + n) under i//2 + [i odd] * ceil(2n/2)", what="operator re-indexing and index selection describe the same permutation",
               reason="permutations disagree")


# ---------------------------------------------------------------------------------------------------
def check_spin_source(idx: Index, rep: Report):
    """The reference determinant of an ansatz has (n + 2S)/2 alpha electrons with 2S the spin *of the active space*: for unrestricted
    molecules with different frozen alpha / beta orbitals it differs from the molecule's total spin.  Every ansatz class that keeps a
    `spin` taken from the molecule must take `active_spin` - unless the class refuses unrestricted molecules before, where both agree."""
    rule = "K8.spin-source"
    from . import C07
    base = idx.cls(f"{C07.ANSATZ}::Ansatz")
    n = 0
    for c in sorted(idx.subclasses(base), key=lambda k: k.name):
        init = c.methods.get("__init__")
        if init is None:
            continue
        refuses_uhf = any(isinstance(x, ast.If) and "uhf" in norm(x.test) and any(isinstance(b, ast.Raise) for b in x.body) for x in ast.walk(init.node))
        for st in ast.walk(init.node):
            if isinstance(st, ast.Assign) and norm(st.targets[0]) == "self.spin" and "molecule" in norm(st.value):
                n += 1
                srcs = {norm(x) for x in ast.walk(st.value) if isinstance(x, ast.Attribute) and norm(x).endswith(("molecule.spin", "molecule.active_spin"))}
                ok = all(sx.endswith("active_spin") for sx in srcs) or refuses_uhf
                rep.decide(ok, rule, init, st, text=f"{c.name}: self.spin = {norm(st.value)}{' (class refuses unrestricted molecules)' if refuses_uhf and not all(sx.endswith('active_spin') for sx in srcs) else ''}",
                           what="the spin that fixes the reference determinant is the active space's (2S = active alpha - active beta electrons)",
                           reason=f"{c.name} takes {sorted(srcs)}: for an unrestricted molecule whose frozen alpha and beta orbitals differ the reference determinant, and with it every "
                                  f"prepared state, sits in the wrong spin-projection sector")
    rep.floor("ansatz classes taking their spin from the molecule", n, 6)


GUCC = "tangelo/toolboxes/ansatz_generator/_general_unitary_cc.py"


def check_pool_conservation(idx: Index, rep: Report, tier: str = "quick"):
    """The generalised singles-and-doubles pool (ADAPT's default fermionic pool) folded into exact matrices on the Fock space, for both values of its ordering
    flag: every pool operator is anti-Hermitian and commutes with the particle number and the spin projection *in the interleaved spin-orbital order*, which
    is the order every encoder of the library expects its fermionic input in (the re-ordering for up_then_down is applied by the encoder, once)."""
    rule = "K9.pool-conservation"
    f = idx.function(f"{GUCC}::uccgsd_generator")
    n = 0
    for n_orbs in ((2, 3) if tier == "thorough" else (2,)):
        nq = 2 * n_orbs
        N, Sz2, _S2 = reference_ops(n_orbs, False)
        for flag in (False, True):
            _FockOp.n = nq
            fo = cs.make_folder(idx, GUCC, ctors={"FermionOperator": lambda a, k: _FockOp(*a, **k), "normal_ordered": lambda a, k: a[0],
                                                   "get_coeffs": lambda a, k: [2 * i + 3 for i in range(400)]})
            try:
                pool = fo.run_function(f.node, {"n_qubits": nq, "single_coeffs": None, "double_coeffs": None, "up_down": flag})
            except Undecidable as e:
                raise AnalysisError(f"uccgsd_generator not foldable: {e}")
            except Raised as e:
                rep.violation(rule, f, f.node, text=f"pool for {nq} spin-orbitals, up_down={flag}", what="the pool is defined for every even number of spin-orbitals", reason=f"raises {e.exc_type}")
                continue
            if not isinstance(pool, list) or not pool or not all(isinstance(g, _FockOp) for g in pool):
                raise AnalysisError(f"uccgsd_generator folded to {pool!r:.80}")
            bad = []
            for k, g in enumerate(pool):
                m = g.m
                if not _mat_eq(m.dot(N), N.dot(m)):
                    bad.append(f"operator {k} does not commute with the particle number")
                elif not _mat_eq(m.dot(Sz2), Sz2.dot(m)):
                    bad.append(f"operator {k} does not commute with Sz (interleaved spin-orbitals)")
                elif not _mat_eq(m.T, -m):
                    bad.append(f"operator {k} is not anti-Hermitian")
            n += 1
            rep.decide(not bad, rule, f, f.node, text=f"uccgsd_generator({nq}, up_down={flag}): {len(pool)} pool operators",
                       what="every pool operator is anti-Hermitian and conserves particle number and spin projection for interleaved spin-orbitals, whatever the ordering flag "
                            "(the encoder applies the requested ordering once)",
                       reason="; ".join(bad[:3]))
    _FockOp.n = 2
    rep.floor("pools folded", n, 4 if tier == "thorough" else 2)
