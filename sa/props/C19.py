"""C19 Noisy simulation applies exactly the specified channels (structural part).

C19.a K6  NoiseModel.add_quantum_error folded over malformed specifications: every malformed kind raises before anything is
          stored, well-formed ones are stored under the gate name; Backend.__init__ refuses noise on backends without
          support and noise without shots (truth table of the two guards over their named atoms)
C19.b K5  translate_c_to_cirq: the channel block sits in the gate loop after the gate is emitted, is keyed by the gate's name,
          iterates every entry of the model for that name, and applies the channel to every target and every control
C19.c K9  depolarising rate normalises to p*(4^k-1)/4^k with k = number of qubits the channel acts on, and the same k is the
          channel's qubit count; asymmetric depolarising takes (px, py, pz) in that order
C19.d K7  the noise model reaches every translation in CirqSimulator.simulate_circuit (paths that cannot carry noise are
          recognised by their guards); noisy runs use the density-matrix simulator and the density-matrix expectation
"""
from __future__ import annotations

import ast
import itertools
from typing import Dict, List, Optional, Set

import sympy as sp

from ..consteval import Folder, Raised, Rec, Undecidable
from ..index import AnalysisError, FunctionInfo, Index, full, norm, own_nodes, resolve_local
from ..report import Report
from ..rules import translators as tr
from .. import symx

NOISE = "tangelo/linq/noisy_simulation/noise_models.py"
CIRQ_T = "tangelo/linq/translator/translate_cirq.py"
TCIRQ = "tangelo/linq/target/target_cirq.py"
BACKEND = "tangelo/linq/target/backend.py"


def run(idx: Index, rep: Report, tier: str):
    rep.explain("C19 structural part: add_quantum_error folded over malformed and well-formed specifications; truth tables of the "
                "Backend.__init__ guards; structure and provenance of the channel block of the cirq translator (thorough: qulacs and "
                "stim as INFO); symbolic normalisation of the depolarising rate; forwarding of the noise model to every translation.")
    rep.trust("CPython ast", "sa.consteval folding subset", "sympy simplify",
              "cirq.asymmetric_depolarize(p_x, p_y, p_z) and cirq.depolarize(p, n_qubits) signatures")
    rep.assume("channel mathematics inside cirq and the numerical zero-noise limit are not decided")
    check_add_quantum_error(idx, rep)
    check_backend_init(idx, rep)
    check_cirq_channel_block(idx, rep)
    check_forwarding(idx, rep)
    check_backend_init_forwarding(idx, rep)
    check_get_backend_options(idx, rep)
    check_qiskit_noise_dict(idx, rep)
    # expectation values under noise are those of the mixed state the circuit prepares from the caller's initial state: the state-selecting arguments reach every
    # nested evaluation of the frequency route (the rule of C02, whose noisy branch is the one a noise model selects)
    from .C02 import check_forwarding as check_state_forwarding
    check_state_forwarding(idx, rep, tier)
    if tier == "thorough":
        check_other_translators(idx, rep)


def check_add_quantum_error(idx: Index, rep: Report):
    rule = "K6.noise-validation"
    f = idx.function(f"{NOISE}::NoiseModel.add_quantum_error")
    mod = idx.module_by_relpath(NOISE)
    sup = mod.assigned.get("SUPPORTED_NOISE_MODELS")
    if sup is None:
        raise AnalysisError("SUPPORTED_NOISE_MODELS not found")
    from ..rules import circuitsem as _cs
    try:
        supported = frozenset(_cs.module_resolver(idx, NOISE)("SUPPORTED_NOISE_MODELS"))
    except TypeError:
        raise AnalysisError("SUPPORTED_NOISE_MODELS is not a foldable constant")
    rep.decide(supported == {"depol", "pauli"}, rule, (NOISE, "SUPPORTED_NOISE_MODELS"), sup, text=f"supported kinds {sorted(supported)}",
               what="the supported channel kinds are pauli and depol", reason=f"supported = {sorted(supported)}")

    def run_one(existing, gate, ntype, params):
        me = Rec("NoiseModel", {"_quantum_errors": {k: list(v) for k, v in existing.items()}})
        fo = _cs.make_folder(idx, NOISE)
        try:
            fo.run_function(f.node, {"self": me, "abs_gate": gate, "noise_type": ntype, "noise_params": params})
        except Raised as r:
            return "raise", me
        except Undecidable as u:
            raise AnalysisError(f"add_quantum_error not foldable: {u}")
        return "ok", me

    bad_cases = [
        ("unknown kind", {}, "X", "amplitude_damping", 0.1),
        ("pauli with a float", {}, "X", "pauli", 0.1),
        ("pauli with 2 probabilities", {}, "X", "pauli", [0.1, 0.1]),
        ("pauli with 4 probabilities", {}, "X", "pauli", [0.1, 0.1, 0.1, 0.1]),
        ("pauli with a tuple", {}, "X", "pauli", (0.1, 0.1, 0.1)),
        ("depol with a list", {}, "X", "depol", [0.1, 0.1, 0.1]),
        ("depol with a string", {}, "X", "depol", "0.1"),
        ("second pauli on the same gate", {"X": [("pauli", [0.1, 0.0, 0.0])]}, "X", "pauli", [0.2, 0.0, 0.0]),
        ("second depol on the same gate", {"CNOT": [("depol", 0.1)]}, "CNOT", "depol", 0.2),
        ("second depol on the same gate, spelled in lower case", {"CNOT": [("depol", 0.1)]}, "cnot", "depol", 0.2),
    ]
    for label, existing, gate, ntype, params in bad_cases:
        res, me = run_one(existing, gate, ntype, params)
        unchanged = me.fields["_quantum_errors"] == {k: list(v) for k, v in existing.items()}
        rep.decide(res == "raise" and unchanged, rule, f, f.node, text=f"rejected: {label}",
                   what="a malformed noise specification is rejected and leaves the model unchanged",
                   reason=f"{label}: " + ("accepted" if res != "raise" else "model modified before the error"))
    good_cases = [
        ("pauli on a fresh gate", {}, "X", "pauli", [0.1, 0.2, 0.3], {"X": [("pauli", [0.1, 0.2, 0.3])]}),
        ("depol on a fresh gate", {}, "CNOT", "depol", 0.1, {"CNOT": [("depol", 0.1)]}),
        ("depol added to a gate that has pauli", {"X": [("pauli", [0.1, 0.0, 0.0])]}, "X", "depol", 0.3,
         {"X": [("pauli", [0.1, 0.0, 0.0]), ("depol", 0.3)]}),
        ("pauli on another gate", {"X": [("depol", 0.1)]}, "Y", "pauli", [0.0, 0.1, 0.0], {"X": [("depol", 0.1)], "Y": [("pauli", [0.0, 0.1, 0.0])]}),
        # Gate() upper-cases its name, and the translators look errors up by that name: a lower-case spelling means the same gate
        ("gate name in lower case", {}, "cnot", "depol", 0.1, {"CNOT": [("depol", 0.1)]}),
        ("gate name in mixed case, added to the upper-case entry", {"RX": [("depol", 0.1)]}, "Rx", "pauli", [0.1, 0.0, 0.0], {"RX": [("depol", 0.1), ("pauli", [0.1, 0.0, 0.0])]}),
    ]
    for label, existing, gate, ntype, params, want in good_cases:
        res, me = run_one(existing, gate, ntype, params)
        got = {k: [tuple(x) if isinstance(x, (tuple, list)) and len(x) == 2 and isinstance(x[0], str) else x for x in v]
               for k, v in me.fields["_quantum_errors"].items()}
        rep.decide(res == "ok" and got == want, rule, f, f.node, text=f"stored: {label}",
                   what="a well-formed specification is stored, in order, under its gate name (both kinds may sit on one gate)",
                   reason=f"{label}: result {res}, model {got}")
    # the set of noisy gates follows every later addition (no stale memo)
    from ..consteval import FuncVal
    from ..rules import circuitsem as cs
    try:
        fo = cs.make_folder(idx, NOISE)
        fo.env["SUPPORTED_NOISE_MODELS"] = supported
        cv = fo.resolver("NoiseModel")
        nm = fo.instantiate(cv, [], {})

        def gates_now():
            return set(fo.call_funcval(FuncVal(cv.properties["noisy_gates"], bound_self=nm, home=cv.home), [], {}))

        def add(g, k, p):
            fo.call_funcval(FuncVal(cv.methods["add_quantum_error"], bound_self=nm, home=cv.home), [g, k, p], {})
        seq = [gates_now()]
        add("X", "pauli", [0.1, 0.0, 0.0])
        seq.append(gates_now())
        add("CNOT", "depol", 0.2)
        seq.append(gates_now())
        add("X", "depol", 0.1)
        seq.append(gates_now())
        ok = seq == [set(), {"X"}, {"X", "CNOT"}, {"X", "CNOT"}]
        rep.decide(ok, rule, f, f.node, text="noisy_gates after each of three additions: {}, {X}, {X, CNOT}, {X, CNOT}",
                   what="the set of noisy gates always equals the gate names that carry an error, also when it was read before a later addition",
                   reason=f"noisy_gates read {seq}")
    except Undecidable as u:
        raise AnalysisError(f"NoiseModel not foldable: {u}")
    ng = idx.function(f"{NOISE}::NoiseModel.noisy_gates")
    ok = any(isinstance(n, ast.Return) and "self._quantum_errors" in norm(n.value) for n in own_nodes(ng.node))
    rep.decide(ok, rule, ng, ng.node, text="noisy_gates = keys of the stored errors", what="the set of noisy gates is the set of gate names that carry an error",
               reason="noisy_gates no longer derived from _quantum_errors")


def _truth(test: ast.AST, atoms: Dict[str, str], assignment: Dict[str, bool]) -> bool:
    """evaluate a boolean expression over named atoms (attribute texts -> atom names)"""
    if isinstance(test, ast.BoolOp):
        vals = [_truth(v, atoms, assignment) for v in test.values]
        return all(vals) if isinstance(test.op, ast.And) else any(vals)
    if isinstance(test, ast.UnaryOp) and isinstance(test.op, ast.Not):
        return not _truth(test.operand, atoms, assignment)
    t = norm(test)
    if t in atoms:
        return assignment[atoms[t]]
    if isinstance(test, ast.Compare) and len(test.ops) == 1 and isinstance(test.comparators[0], ast.Constant) and test.comparators[0].value is None:
        base = norm(test.left)
        if base in atoms:
            v = assignment[atoms[base]]
            return (not v) if isinstance(test.ops[0], ast.Is) else v
    raise AnalysisError(f"guard atom {t} not recognised")


def check_backend_init(idx: Index, rep: Report):
    rule = "K6.backend-guards"
    f = idx.function(f"{BACKEND}::Backend.__init__")
    atoms = {"self._noise_model": "noise", "noise_model": "noise", "self.noisy_simulation": "noisy_ok", "self.n_shots": "shots", "n_shots": "shots",
             "self.statevector_available": "sv"}
    guards = [n for n in own_nodes(f.node) if isinstance(n, ast.If) and n.body and isinstance(n.body[0], ast.Raise)]
    if len(guards) < 2:
        rep.violation(rule, f, f.node, text="two raising guards", what="noise on an unsupported backend and noise/no-statevector without shots are refused",
                      reason=f"only {len(guards)} raising guard(s) left in Backend.__init__")
        return
    names = ["noise", "noisy_ok", "shots", "sv"]
    rejected_rows = set()
    for bits in itertools.product([False, True], repeat=4):
        a = dict(zip(names, bits))
        rej = False
        for g in guards:
            if _truth(g.test, atoms, a):
                rej = True
        want = (a["noise"] and not a["noisy_ok"]) or (not a["shots"] and (not a["sv"] or a["noise"]))
        if rej != want:
            rejected_rows.add(tuple(sorted(a.items())))
    rep.decide(not rejected_rows, rule, f, guards[0], text="reject iff (noise and not supported) or (no shots and (no statevector or noise))",
               what="the constructor rejects exactly: a noise model on a backend without noisy simulation; no shot count when the "
                    "statevector is unavailable or a noise model is set",
               reason=f"guards disagree with the documented rule on {len(rejected_rows)} of 16 configurations, e.g. {dict(next(iter(rejected_rows))) if rejected_rows else ''}")
    # guards come after backend_info() attributes are set and the state they test is stored before
    setattr_loop = [n for n in own_nodes(f.node) if isinstance(n, ast.For) and "backend_info" in norm(n.iter)]
    ok = bool(setattr_loop) and all(setattr_loop[0].lineno < g.lineno for g in guards)
    rep.decide(ok, rule, f, setattr_loop[0] if setattr_loop else f.node, text="capabilities loaded before the guards",
               what="the backend capabilities are read from backend_info() before they are tested", reason="guards run before the capabilities are set")


def _noise_block(d: tr.Dispatch) -> Optional[ast.If]:
    for st in d.post:
        if isinstance(st, ast.If) and "noisy_gates" in norm(st.test):
            return st
    return None


class _LQ:
    """stand-in for a cirq line qubit"""
    _sa_model = True

    def __init__(self, x):
        self.x = x

    def __repr__(self):
        return f"q{self.x}"


class _Op:
    """one operation appended to the cirq circuit: what (a gate description or a channel) on which qubits"""
    _sa_model = True

    def __init__(self, what, qubits, kw=None):
        self.what, self.qubits, self.kw = what, tuple(qubits), dict(kw or {})


class _Fac:
    """stand-in for a cirq gate / channel factory: called with qubits it is an operation, called with anything else (an angle, exponent=...) or asked for
    .controlled(n) it is another factory"""
    _sa_model = True

    def __init__(self, desc):
        self.desc = tuple(desc)

    def __call__(self, *a, **k):
        if a and all(isinstance(x, _LQ) for x in a):
            return _Op(self.desc, a, k)
        return _Fac(self.desc + (("with", a, tuple(sorted(k.items()))),))

    def controlled(self, n=1):
        return _Fac(self.desc + (("controlled", n),))

    def on_each(self, qs):
        return [_Op(self.desc, (q,)) for q in qs]


class _CircRec:
    """stand-in for cirq.Circuit: records what is appended, in order"""
    _sa_model = True

    def __init__(self, *a, **k):
        self.ops = []

    def _take(self, x):
        if isinstance(x, _Op):
            self.ops.append(x)
        elif isinstance(x, (list, tuple)):
            for y in x:
                self._take(y)
        else:
            raise Undecidable(f"cirq circuit receives {x!r:.60}")

    def append(self, x):
        self._take(x)

    def __iadd__(self, x):
        self._take(x)
        return self
    __add__ = __iadd__


class _LineQubit:
    _sa_model = True

    @staticmethod
    def range(n):
        return [_LQ(i) for i in range(int(n))]


class _CirqMod:
    """the part of the cirq API the circuit writer uses"""
    _sa_model = True
    Circuit = _CircRec
    LineQubit = _LineQubit()
    I = _Fac(("I",))

    @staticmethod
    def asymmetric_depolarize(*a, **k):
        if k or len(a) != 3:
            raise Undecidable("asymmetric_depolarize: expected (p_x, p_y, p_z)")
        return _Fac((("channel", "pauli", tuple(a)),))

    @staticmethod
    def depolarize(p, n_qubits=None):
        return _Fac((("channel", "depol", (p, n_qubits)),))


class _SrcGate:
    _sa_model = True

    def __init__(self, name, target, control=None, parameter=""):
        self.name, self.target, self.control, self.parameter = name, list(target), (None if control is None else list(control)), parameter


class _SrcCircuit:
    _sa_model = True

    def __init__(self, gates, width):
        self._gates, self.width = list(gates), width


class _NoiseM:
    _sa_model = True

    def __init__(self, errors):
        self._quantum_errors = {k: list(v) for k, v in errors.items()}
        self.noisy_gates = set(errors)

    def __bool__(self):
        return True


def check_cirq_channel_block(idx: Index, rep: Report):
    """translate_c_to_cirq folded as a whole against a recording stand-in for the cirq API, on circuits and noise models chosen so that every way of getting the
    channel qubits wrong shows: controlled gates followed by uncontrolled noisy ones (state carried over from the previous gate), several controls (a CNOT the
    writer re-dispatches), two targets, both kinds of error on one gate, noisy and noise-free gates interleaved, no model at all.  After the operation of
    each source gate - and before the next one - the recorded channels must be exactly: for every registered error in registration order, the Pauli channel
    (p_x, p_y, p_z) once on every qubit the gate touches, or ONE depolarising channel on all k touched qubits with cirq rate p (4^k - 1) / 4^k."""
    rule = "K5.channel-block"
    f = idx.function(f"{CIRQ_T}::translate_c_to_cirq")
    from ..rules.circuitsem import make_folder
    px, py, pz, p, p2 = sp.symbols("p_x p_y p_z p p2", positive=True)
    G = _SrcGate
    cases = [
        ("an uncontrolled noisy gate after a controlled one", [G("H", [0]), G("CNOT", [1], [0]), G("X", [2]), G("RZ", [1], None, 0.3)], 3,
         {"X": [("pauli", [px, py, pz]), ("depol", p)], "RZ": [("depol", p2)]}),
        ("controlled gates with one, two and three controls", [G("CNOT", [2], [0, 1]), G("CRZ", [0], [3], 0.2), G("CX", [1], [0, 2, 3]), G("CNOT", [3], [2])], 4,
         {"CNOT": [("depol", p)], "CRZ": [("pauli", [px, py, pz])], "CX": [("pauli", [px, py, pz]), ("depol", p2)]}),
        ("two-target gates, with and without controls", [G("SWAP", [0, 2]), G("CSWAP", [1, 2], [0]), G("XX", [1, 0], None, 0.4), G("H", [2])], 3,
         {"SWAP": [("depol", p)], "CSWAP": [("depol", p), ("pauli", [px, py, pz])], "XX": [("pauli", [px, py, pz])]}),
        ("noise on some gates only, measurement in between", [G("H", [0]), G("MEASURE", [0]), G("X", [1]), G("H", [1]), G("CZ", [1], [0])], 2,
         {"H": [("pauli", [px, py, pz])], "CZ": [("depol", p)]}),
        ("no noise model", [G("H", [0]), G("CNOT", [1], [0]), G("X", [1])], 2, None),
    ]
    n = 0
    for label, gates, width, errors in cases:
        fo = make_folder(idx, CIRQ_T)
        fo.env["cirq"] = _CirqMod()
        fo.ctors = dict(fo.ctors or {})
        fo.ctors["get_cirq_gates"] = lambda a, k: _AnyGate()
        try:
            out = fo.run_function(f.node, {"source_circuit": _SrcCircuit(gates, width), "noise_model": (None if errors is None else _NoiseM(errors)), "save_measurements": False})
        except Undecidable as e:
            raise AnalysisError(f"translate_c_to_cirq not foldable ({label}): {e}")
        except Raised as e:
            n += 1
            rep.violation(rule, f, f.node, text=label, what="every supported gate is translated, with or without a noise model", reason=f"raises {e.exc_type}")
            continue
        if not isinstance(out, _CircRec):
            raise AnalysisError(f"translate_c_to_cirq folded to {out!r:.60}")
        ops = [o for o in out.ops if o.what != ("I",)]
        bad, bad_rate = [], []
        pos = 0
        for g in gates:
            if pos >= len(ops) or (ops[pos].what and ops[pos].what[0] and isinstance(ops[pos].what[0], tuple) and ops[pos].what[0][0] == "channel"):
                bad.append(f"{g.name}: no gate operation where one is expected")
                break
            touched = sorted(g.target + (g.control or []))
            if sorted(q.x for q in ops[pos].qubits) != touched:
                bad.append(f"{g.name} on {touched}: translated onto qubits {[q.x for q in ops[pos].qubits]}")
            pos += 1
            chans = []
            while pos < len(ops) and isinstance(ops[pos].what[0], tuple) and ops[pos].what[0][0] == "channel":
                chans.append(ops[pos])
                pos += 1
            want = [] if errors is None else list(errors.get(g.name, []))
            i = 0
            for kind, par in want:
                if kind == "pauli":
                    got = chans[i:i + len(touched)]
                    i += len(touched)
                    okp = len(got) == len(touched) and all(c.what[0][1] == "pauli" and len(c.qubits) == 1 and
                                                         all(sp.simplify(sp.sympify(x) - y) == 0 for x, y in zip(c.what[0][2], par)) for c in got) and \
                        sorted(c.qubits[0].x for c in got) == touched
                    if not okp:
                        bad.append(f"{g.name} on {touched}: Pauli channel on {[[q.x for q in c.qubits] for c in got]}")
                else:
                    got = chans[i:i + 1]
                    i += 1
                    k = len(touched)
                    if not (len(got) == 1 and got[0].what[0][1] == "depol" and sorted(q.x for q in got[0].qubits) == touched):
                        bad.append(f"{g.name} on {touched}: depolarising channel on {[[q.x for q in c.qubits] for c in got]}")
                    else:
                        rate, nq = got[0].what[0][2]
                        if nq != k or sp.simplify(sp.sympify(rate) - par * (4 ** k - 1) / sp.Integer(4) ** k) != 0:
                            bad_rate.append(f"{g.name} on {touched}: depolarize({rate}, {nq}), expected ({par}*(4^{k} - 1)/4^{k}, {k})")
            if i != len(chans):
                bad.append(f"{g.name} on {touched}: {len(chans)} channel operations, {i} expected "
                           f"({[(c.what[0][1], [q.x for q in c.qubits]) for c in chans]})")
        if pos != len(ops) and not bad:
            bad.append(f"{len(ops) - pos} operations after the last gate")
        n += 1
        rep.decide(not bad, rule, f, f.node, text=f"{label}: {len(gates)} gates, {len(ops)} recorded operations",
                   what="after each noisy gate, and before the next gate, every registered error is applied in registration order to exactly the qubits the gate touches "
                        "(targets and controls): a Pauli channel on each of them, one joint depolarising channel on all of them; nothing without a model",
                   reason="; ".join(bad[:3]))
        rep.decide(not bad_rate, "K9.channel-rates", f, f.node, text=f"{label}: rates of the depolarising channels",
                   what="the k-qubit depolarising channel with Tangelo rate p is cirq.depolarize(p (4^k - 1) / 4^k, n_qubits = k), k = targets + controls; the Pauli channel "
                        "receives (p_x, p_y, p_z) in the order of the specification", reason="; ".join(bad_rate[:2]))
    rep.floor("noisy circuits folded through the cirq writer", n, 5)


class _AnyGate:
    """stand-in for the gate table of the cirq writer: any name gives a gate factory"""
    _sa_model = True

    def __getitem__(self, name):
        return _Fac((name,))


def _enclosing_tests(func: FunctionInfo, node: ast.AST) -> List[str]:
    out = []

    def rec(stmts, stack):
        for s in stmts:
            if any(x is node for x in ast.walk(s)):
                if isinstance(s, ast.If):
                    if any(x is node for b in s.body for x in ast.walk(b)):
                        rec(s.body, stack + [norm(s.test)])
                        return True
                    if any(x is node for b in s.orelse for x in ast.walk(b)):
                        rec(s.orelse, stack + ["not (" + norm(s.test) + ")"])
                        return True
                    out.extend(stack)
                    return True
                for fld in ("body", "orelse", "finalbody"):
                    sub = getattr(s, fld, None)
                    if sub and any(x is node for b in sub for x in ast.walk(b)):
                        return rec(sub, stack)
                out.extend(stack)
                return True
        return False
    rec(func.node.body, [])
    return out


CIRCUIT = "tangelo/linq/circuit.py"


def gate_selecting_functions(idx: Index) -> Set[str]:
    """names of the functions / methods of tangelo/linq/circuit.py that return a circuit holding a selection of the input's gates: a comprehension with a
    condition over `<circuit>._gates`, or (transitively) a call of such a function"""
    m = idx.module_by_relpath(CIRCUIT)
    sel: Set[str] = set()
    for f in m.functions.values():
        for n in ast.walk(f.node):
            if isinstance(n, (ast.ListComp, ast.GeneratorExp)) and any(g.ifs and "_gates" in norm(g.iter) for g in n.generators):
                sel.add(f.node.name)
    changed = True
    while changed:
        changed = False
        for f in m.functions.values():
            if f.node.name in sel:
                continue
            for n in ast.walk(f.node):
                if isinstance(n, ast.Call) and ((isinstance(n.func, ast.Name) and n.func.id in sel) or (isinstance(n.func, ast.Attribute) and n.func.attr in sel)):
                    sel.add(f.node.name)
                    changed = True
                    break
    return sel


def _decide_noisy_circuit_argument(idx: Index, rep: Report, f, call: ast.Call):
    """the circuit a noise model is attached to is the caller's circuit, gate occurrence for gate occurrence: the first argument of the translation is the
    `source_circuit` parameter (or a copy / a concatenation containing it), not the result of a function that selects gates"""
    rule = "K8.noisy-circuit-untouched"
    sel = gate_selecting_functions(idx)
    if not {"remove_small_rotations", "remove_redundant_gates"} <= sel:
        raise AnalysisError(f"gate-selecting functions of circuit.py not recognised: {sorted(sel)}")
    if not call.args:
        raise AnalysisError(f"{norm(call)[:60]}: no positional circuit argument")
    x = call.args[0]
    for _hop in range(4):           # follow a local name to its single definition
        if isinstance(x, ast.Name) and x.id != "source_circuit":
            defs = [n for n in own_nodes(f.node) if isinstance(n, ast.Assign) and len(n.targets) == 1 and norm(n.targets[0]) == x.id]
            if len(defs) != 1:
                break
            x = defs[0].value
        else:
            break

    def verdict(e) -> Optional[bool]:
        if isinstance(e, ast.Name) and e.id == "source_circuit":
            return True
        if isinstance(e, ast.Call):
            fn = e.func.id if isinstance(e.func, ast.Name) else (e.func.attr if isinstance(e.func, ast.Attribute) else None)
            if fn in sel:
                return False
            if fn in ("copy", "deepcopy") and (e.args or isinstance(e.func, ast.Attribute)):
                return verdict(e.args[0] if e.args else e.func.value)
        if isinstance(e, ast.BinOp) and isinstance(e.op, ast.Add):
            l, r = verdict(e.left), verdict(e.right)
            return False if False in (l, r) else (True if True in (l, r) else None)
        return None
    v = verdict(x)
    if v is None:
        raise AnalysisError(f"{f.ref}: circuit argument of the noisy translation not decidable: {norm(x)[:80]}")
    rep.decide(v, rule, f, call, text=f"circuit handed to the noisy translation: {norm(call.args[0])[:60]}",
               what="every occurrence of a noisy gate in the caller's circuit receives its channel: the circuit is translated as given, not after a pass that selects gates",
               reason=f"`{norm(x)[:80]}` drops gate occurrences (rotations by about a whole period, cancelling pairs) before the channels are attached: those gates' noise is lost")


def check_forwarding(idx: Index, rep: Report):
    rule = "K7.noise-forwarding"
    f = idx.function(f"{TCIRQ}::CirqSimulator.simulate_circuit")
    calls = [c for c in own_nodes(f.node) if isinstance(c, ast.Call) and norm(c.func) == "translate_c"]
    rep.floor("translate_c calls in CirqSimulator.simulate_circuit", len(calls), 6)
    # the guard that makes the CMEASURE path noise-free
    top_guard = any(isinstance(n, ast.If) and norm(n.test) in ("self._noise_model and n_cmeas > 0", "n_cmeas > 0 and self._noise_model")
                    and n.body and isinstance(n.body[0], ast.Raise) for n in f.node.body)
    for c in calls:
        opts = None
        for k in c.keywords:
            kv = resolve_local(f.node, k.value) if k.arg == "output_options" else k.value
            if k.arg == "output_options" and isinstance(kv, ast.Dict):
                opts = {kk.value: norm(v) for kk, v in zip(kv.keys, kv.values) if isinstance(kk, ast.Constant)}
        has = opts is not None and opts.get("noise_model") == "self._noise_model"
        tests = _enclosing_tests(f, c)
        if has:
            rep.ok(rule, f, c, text=f"translate_c(..., noise_model=self._noise_model) @ {' & '.join(tests)[:60]}", what="the noise model reaches the translation")
            _decide_noisy_circuit_argument(idx, rep, f, c)
            continue
        noise_free = ("self.n_shots is None" in tests) or ("n_cmeas > 0" in tests and top_guard)
        rep.decide(noise_free, rule, f, c, text=f"translate_c without noise model under [{' & '.join(tests)[:80]}]",
                   what="a translation that omits the noise model lies on a path that cannot carry noise (no shots => no noise model; "
                        "measurement-controlled circuits with noise are refused up front)",
                   reason="noise model not forwarded on a path that can be reached with a noise model: the gates are simulated noiselessly")
    # simulator choice and expectation variant
    sel = [n for n in own_nodes(f.node) if isinstance(n, ast.If) and any("DensityMatrixSimulator" in norm(s) for s in n.body)]
    ok = bool(sel) and "self._noise_model" in [norm(v) for v in (sel[0].test.values if isinstance(sel[0].test, ast.BoolOp) and isinstance(sel[0].test.op, ast.Or) else [sel[0].test])]
    rep.decide(ok, rule, f, sel[0] if sel else f.node, text="noise => DensityMatrixSimulator", what="a noisy run uses the density-matrix simulator",
               reason="density-matrix simulator is not selected whenever a noise model is set")
    e = idx.function(f"{TCIRQ}::CirqSimulator.expectation_value_from_prepared_state")
    sel = [n for n in own_nodes(e.node) if isinstance(n, ast.If) and norm(n.test) == "self._noise_model"]
    ok = bool(sel) and "expectation_from_density_matrix" in norm(sel[0].body[0]) and "expectation_from_state_vector" in norm(sel[0].orelse[0])
    rep.decide(ok, rule, e, sel[0] if sel else e.node, text="noisy expectation from the density matrix", what="expectation values under noise are those of the mixed state",
               reason="noisy expectation does not use the density-matrix variant")
    # Backend.get_expectation_value routes noisy evaluation through frequencies
    g = idx.function(f"{BACKEND}::Backend.get_expectation_value")
    routes = [n for n in ast.walk(g.node) if isinstance(n, ast.If) and "_get_expectation_value_from_frequencies" in norm(n.body[0])]
    ok = bool(routes) and "self._noise_model" in norm(routes[0].test)
    rep.decide(ok, rule, g, routes[0] if routes else g.node, text="noise => frequency route", what="with a noise model the expectation is estimated from sampled frequencies",
               reason="a noise model no longer selects the frequency route")


def check_other_translators(idx: Index, rep: Report):
    rule = "K5.channel-block"
    for rel, fn in (("tangelo/linq/translator/translate_qulacs.py", "translate_c_to_qulacs"), ("tangelo/linq/translator/translate_stim.py", "translate_c_to_stim")):
        f = idx.function(f"{rel}::{fn}")
        d = tr.extract_writer(f)
        blk = _noise_block(d) if d else None
        if blk is None:
            rep.info(rule, f, f.node, text=f"{fn}: channel block", reason="no channel block found after the dispatch chain")
            continue
        t = full(blk)
        if "gate.target[0]" in t and "for t in gate.target" not in t:
            rep.info(rule, f, blk, text=f"{fn}: pauli channel on target[0] / control[0] only",
                     reason="channels are applied to the first target and first control only (backend not installed: outside the decided quantifier)")
        else:
            rep.info(rule, f, blk, text=f"{fn}: channel block present", reason="applies channels over targets and controls")


# ---------------------------------------------------------------------------------------------------
def check_backend_init_forwarding(idx: Index, rep: Report):
    """Backend.__init__ is where an unsupported or misplaced noise model is refused and where it is stored for the translators.  Every backend
    class hands its own n_shots and noise_model on to it; a class that drops the noise model accepts it silently and simulates without noise."""
    rule = "K7.noise-forwarding"
    base = idx.cls("tangelo/linq/target/backend.py::Backend")
    binit = base.methods["__init__"]
    bparams = [p for p in binit.params if p != "self"]
    n = 0
    for c in sorted(idx.subclasses(base), key=lambda k: k.name):
        init = c.methods.get("__init__")
        if init is None or "noise_model" not in init.params:
            continue
        calls = [x for x in ast.walk(init.node) if isinstance(x, ast.Call) and norm(x.func) in ("super().__init__", f"Backend.__init__", "super(%s, self).__init__" % c.name)]
        if len(calls) != 1:
            raise AnalysisError(f"{c.name}.__init__: call of the base constructor not found")
        call = calls[0]
        bound = {}
        pos = [a for a in call.args if not (norm(call.func).startswith("Backend") and norm(a) == "self")]
        for pname, a in zip(bparams, pos):
            bound[pname] = norm(a)
        for k in call.keywords:
            bound[k.arg] = norm(k.value)
        for pname in ("n_shots", "noise_model"):
            n += 1
            rep.decide(bound.get(pname) == pname, rule, init, call, text=f"{c.name}: base constructor receives {pname}",
                       what="every backend hands its n_shots and noise_model to the base constructor, which validates and stores them",
                       reason=f"{c.name}.__init__ calls `{norm(call)}`: {pname} is {'passed as ' + bound[pname] if pname in bound else 'not passed'} - "
                              f"the base class then neither refuses an unsupported noise model nor stores it for the translation")
    rep.floor("backend constructors forwarding to the base class", n, 10)


def check_get_backend_options(idx: Index, rep: Report):
    """get_backend folded with the backend classes replaced by recorders: whichever way the target is named - left out, None, a built-in name, a Backend
    subclass - the class is instantiated with the caller's n_shots, noise_model and extra options (the solvers ask for target=None with a noise model)"""
    from ..consteval import FuncVal, Opaque, Raised, Rec, Undecidable
    from ..rules import circuitsem as cs
    rule = "K7.backend-options"
    SIM = "tangelo/linq/simulator.py"
    f = idx.function(f"{SIM}::get_backend")
    NM = Rec("NoiseModel", {"tag": "the caller's noise model"})
    n = 0
    for label, target in (("target=None", None), ("target='cirq'", "cirq"), ("target='sympy'", "sympy"), ("a Backend subclass", "CLASS")):
        made = []

        def backend(tag):
            class _B:
                _sa_model = True
                name = tag

                def __call__(self, *a, **k):
                    made.append((tag, a, k))
                    return Rec("Backend", {"cls": tag})
            return _B()
        classes = {"cirq": backend("cirq"), "sympy": backend("sympy")}
        user = backend("user")
        from ..consteval import Folder
        base = cs.module_resolver(idx, SIM)
        inject = {"target_dict": classes, "default_simulator": "cirq"}
        res = lambda name: inject[name] if name in inject else base(name)                   # seen by the function and by any call it makes to itself
        fo = Folder(resolver=res, resolver_factory=lambda rel: res, isinstance_hook=lambda v, t: (isinstance(v, str) if t.strip() == "str" else None))
        fo.ctors["issubclass"] = lambda a, k: getattr(a[0], "_sa_model", False) and a[0].name == "user"
        args = {"target": user if target == "CLASS" else target, "n_shots": 7, "noise_model": NM, "kwargs": {"qubits_to_use": [1, 2]}}
        try:
            fo.run_function(f.node, args)
        except Undecidable as e:
            raise AnalysisError(f"get_backend not foldable for {label}: {e}")
        except Raised as e:
            rep.violation(rule, f, f.node, text=f"get_backend({label}, n_shots=7, noise_model=nm, qubits_to_use=[1, 2])", what="every way of naming the target yields a backend", reason=f"raises {e.exc_type}")
            continue
        n += 1
        want_cls = {"target=None": "cirq", "target='cirq'": "cirq", "target='sympy'": "sympy", "a Backend subclass": "user"}[label]
        last = made[-1] if made else None
        ok = last is not None and last[0] == want_cls and last[2].get("n_shots") == 7 and last[2].get("noise_model") is NM and last[2].get("qubits_to_use") == [1, 2] and len(made) == 1
        rep.decide(ok, rule, f, f.node, text=f"get_backend({label}, n_shots=7, noise_model=nm, qubits_to_use=[1, 2])",
                   what="the backend class named by the target is instantiated once, with the caller's shot number, noise model and extra options",
                   reason=f"instantiations: {[(t, sorted(k)) for t, _, k in made]}" + ("" if last is None or last[2].get("noise_model") is NM else " - the noise model is not handed over: the simulation is noiseless"))
    rep.floor("get_backend target spellings folded", n, 4)


def check_qiskit_noise_dict(idx: Index, rep: Report):
    """get_qiskit_noise_dict folded on stand-in noise models (the error table only): (a) the model it reads is left as it was - the lists it stores per
    gate are the model's own, a later cirq simulation with the same model must still apply exactly what was specified -; (b) a qiskit basis gate shared by
    several abstract gates (u1/u2/u3 for RX, RY, RZ) receives every channel type specified on any of them, once."""
    import copy
    from ..consteval import Raised, Rec, Undecidable
    from ..rules import circuitsem as cs
    rule = "K1.noise-model-inputs"
    NM = "tangelo/linq/noisy_simulation/noise_models.py"
    f = idx.function(f"{NM}::get_qiskit_noise_dict")
    try:
        table = cs.fold_module_global(idx, NM, "__MAPPING_GATES_QISKIT")
    except (Undecidable, Raised) as e:
        raise AnalysisError(f"noise_models.__MAPPING_GATES_QISKIT not foldable: {e}")
    if not isinstance(table, dict) or not table:
        raise AnalysisError("noise_models.__MAPPING_GATES_QISKIT not resolvable to a literal table")
    models = [
        {"RX": [("depol", 0.1)], "RY": [("pauli", [0.1, 0.0, 0.0])]},
        {"RZ": [("pauli", [0.0, 0.0, 0.2])], "RX": [("depol", 0.3)], "CNOT": [("depol", 0.05)]},
        {"RX": [("depol", 0.1), ("pauli", [0.1, 0.1, 0.1])], "RY": [("depol", 0.2)], "H": [("pauli", [0.0, 0.1, 0.0])]},
    ]
    n = 0
    for errs in models:
        if not set(errs) <= set(table):
            raise AnalysisError(f"test model uses gates outside the qiskit table: {sorted(set(errs) - set(table))}")
        model = Rec("NoiseModel", {"_quantum_errors": copy.deepcopy(errs)})
        from ..consteval import Folder
        base = cs.module_resolver(idx, NM)
        fo = Folder(resolver=lambda nm_: table if nm_ == "__MAPPING_GATES_QISKIT" else base(nm_), resolver_factory=lambda rel: cs.module_resolver(idx, rel))
        try:
            qnd = fo.run_function(f.node, {"noise_model": model})
        except (Undecidable, Raised) as e:
            raise AnalysisError(f"get_qiskit_noise_dict not foldable: {e}")
        n += 1
        rep.decide(model.fields["_quantum_errors"] == errs, rule, f, f.node, text=f"noise model {errs} is unchanged by the conversion",
                   what="converting a noise model for another backend only reads it", reason=f"the model's error table is {model.fields['_quantum_errors']} after the call")
        want = {}
        for g, noises in errs.items():
            for qg in table[g]:
                have = {t for t, _ in want.setdefault(qg, [])}
                want[qg] += [x for x in noises if x[0] not in have]
        ok = isinstance(qnd, dict) and set(qnd) == set(want) and all(sorted(map(repr, qnd[k])) == sorted(map(repr, want[k])) for k in want)
        rep.decide(ok, "K9.noise-merge", f, f.node, text=f"qiskit basis gates of {sorted(errs)}: every specified channel type reaches each shared basis gate once",
                   what="a basis gate implementing several noisy abstract gates carries each channel type specified on any of them (first specification wins), none twice",
                   reason=f"converted table {qnd}, expected {want}")
    rep.floor("noise models converted", n, 3)
