"""C08 Variational solver energies are faithful and variational (structural part).

C08.a K6  the temporary swap of the solver's target operator in operator_expectation is undone on every exit, exceptional ones
          included (decided on the CFG with exceptional edges from every call after the swap)
C08.b K8  mapping identifiers are compared case-normalised everywhere in the solver; the active-space data (spin-orbitals,
          electrons, spin) handed to the encoder for a symmetry operator are filled from the molecule for every mapping
C08.c K8  every encoder call of the solver passes the same sources for (mapping, n_spinorbitals, n_electrons, up_then_down,
          spin) as the call that built the Hamiltonian (operator_expectation: through parameters defaulted from those sources)
C08.d K8  the circuit whose expectation is reported is assembled identically in energy_estimation, simulate, get_resources and
          operator_expectation: reference-state override + ansatz (+ projective circuit); an evaluation entry point whose
          reference defaults to an empty circuit must fall back to the solver's own reference circuit
C08.e     deflation: every deflation circuit contributes deflation_coeff * (probability of the all-zero outcome of
          deflation_circuit + inverse(circuit)), added to the plain energy
"""
from __future__ import annotations

import ast
from typing import Dict, List, Optional, Set, Tuple

import sympy as sp

from ..cfg import CFG
from ..consteval import Folder, Raised, Undecidable
from ..index import AnalysisError, FunctionInfo, Index, full, norm, own_nodes
from ..report import Report
from ..rules import siblings as sib
from .. import symx

VQE = "tangelo/algorithms/variational/vqe_solver.py"
F2Q_PARAMS = ["fermion_operator", "mapping", "n_spinorbitals", "n_electrons", "up_then_down", "spin"]


def run(idx: Index, rep: Report, tier: str):
    rep.explain("C08 structural part: save/restore pairing of the swapped target operator on the exception-aware CFG; case-normalised "
                "mapping comparisons and mapping-independent defaulting of active-space data; agreement of encoder arguments across the "
                "solver; agreement of the evaluated circuit's assembly across the evaluation entry points; shape of the deflation term.")
    rep.trust("CPython ast", "networkx reachability on the CFG (every call may raise)")
    rep.assume("the variational bound and numerical values of energies are not decided")
    check_restore(idx, rep)
    check_mapping_compares(idx, rep, tier)
    check_encoder_args(idx, rep)
    check_circuit_assembly(idx, rep)
    check_deflation(idx, rep)
    from ..rules.options import check_option_passthrough
    check_option_passthrough(idx, rep, "K7.option-passthrough", idx.function(f"{VQE}::VQESolver.__init__"), minimum=4)      # deflation_coeff = 0 means no deflation
    # operator_expectation("N" | "Sz" | "S^2") evaluates the built-in operators: they have to be the physical ones
    check_hcb_symmetry_operators(idx, rep)
    # the energy is the expectation value of the Hamiltonian the solver holds NOW: nothing derived from an operator is remembered on the backend (shared with C02)
    from .C02 import check_stateless_evaluation
    check_stateless_evaluation(idx, rep, tier)
    from . import C12
    C12.check_symmetry_operators(idx, rep, "quick")


def check_restore(idx: Index, rep: Report):
    rule = "K6.restore-on-all-exits"
    f = idx.function(f"{VQE}::VQESolver.operator_expectation")
    cfg = CFG(f.node, exc_edges=True)
    saves = [n for n in own_nodes(f.node) if isinstance(n, ast.Assign) and norm(n.value) == "self.qubit_hamiltonian" and isinstance(n.targets[0], ast.Name)]
    if not saves:
        # no swap at all (e.g. the operator is passed down explicitly): nothing to restore
        swaps = [n for n in own_nodes(f.node) if isinstance(n, ast.Assign) and norm(n.targets[0]) == "self.qubit_hamiltonian"]
        rep.decide(not swaps, rule, f, f.node, text="operator_expectation does not overwrite self.qubit_hamiltonian",
                   what="the solver's target operator is not disturbed by evaluating another operator", reason="self.qubit_hamiltonian overwritten without saving it")
        return
    tmp = saves[0].targets[0].id
    swaps = [n for n in own_nodes(f.node) if isinstance(n, ast.Assign) and norm(n.targets[0]) == "self.qubit_hamiltonian" and norm(n.value) != tmp]
    restores = [n for n in own_nodes(f.node) if isinstance(n, ast.Assign) and norm(n.targets[0]) == "self.qubit_hamiltonian" and norm(n.value) == tmp]
    if not restores:
        rep.violation(rule, f, saves[0], text="restore of self.qubit_hamiltonian", what="the saved operator is put back", reason="saved operator is never restored")
        return
    rids = [cfg.node_for(r) for r in restores]
    rep.floor("operator swaps in operator_expectation", len(swaps), 1)
    for s in swaps:
        sid = cfg.node_for(s)
        normal_ok = cfg.must_pass_through(sid, cfg.return_exit.id, rids)
        exc_ok = cfg.must_pass_through(sid, cfg.raise_exit.id, rids)
        rep.decide(normal_ok, rule, f, s, text=f"swap at `{norm(s)[:50]}` restored on normal exits", what="after a normal return the solver targets its own Hamiltonian again",
                   reason="a normal path returns with the temporary operator still installed")
        rep.decide(exc_ok, rule, f, s, text=f"swap at `{norm(s)[:50]}` restored on exceptional exits",
                   what="if updating the parameters or the backend evaluation raises, the solver's own Hamiltonian is back in place (try/finally)",
                   reason="an exception raised after the swap (update_var_params / get_expectation_value) leaves the temporary operator installed: "
                          "later energy evaluations silently use the wrong Hamiltonian")


def _is_mapping_expr(e: ast.AST) -> bool:
    t = norm(e)
    return t in ("self.qubit_mapping", "qubit_mapping", "mapping", "self.mapping")


def check_mapping_compares(idx: Index, rep: Report, tier: str):
    rule = "K8.mapping-case"
    mod = idx.module_by_relpath(VQE)
    n = 0
    for f in mod.functions.values():
        for c in own_nodes(f.node):
            if isinstance(c, ast.Compare) and len(c.ops) == 1 and isinstance(c.ops[0], (ast.Eq, ast.NotEq, ast.In, ast.NotIn)):
                l, r = c.left, c.comparators[0]
                lit = r if isinstance(r, (ast.Constant, ast.Set, ast.List, ast.Tuple)) else (l if isinstance(l, ast.Constant) else None)
                other = l if lit is r else r
                if lit is None or not any(isinstance(x, ast.Constant) and isinstance(x.value, str) for x in ast.walk(lit)):
                    continue
                raw = _is_mapping_expr(other)
                normalised = isinstance(other, ast.Call) and isinstance(other.func, ast.Attribute) and other.func.attr in ("lower", "upper") and _is_mapping_expr(other.func.value)
                if not (raw or normalised):
                    continue
                n += 1
                rep.decide(normalised, rule, f, c, text=f"{f.qualname}: {norm(c)}",
                           what="mapping identifiers are case-insensitive everywhere ('scbk', 'SCBK', 'scBK'): literal comparisons go through lower()/upper()",
                           reason=f"{norm(c)} compares the raw identifier: the branch is skipped for 'SCBK' although the encoder accepts it")
    rep.floor("mapping literal comparisons in vqe_solver.py", n, 4)
    # defaulting of active-space data in operator_expectation must not depend on the mapping
    f = idx.function(f"{VQE}::VQESolver.operator_expectation")
    fills = [n_ for n_ in ast.walk(f.node) if isinstance(n_, ast.Assign) and norm(n_.targets[0]) in ("n_active_electrons", "n_active_sos", "spin")
             and "self.molecule" in norm(n_.value)]
    got = {norm(x.targets[0]): norm(x.value) for x in fills}
    want = {"n_active_electrons": "self.molecule.n_active_electrons", "n_active_sos": "self.molecule.n_active_sos", "spin": "self.molecule.active_spin"}
    rep.decide(got == want, "K8.active-space-defaults", f, fills[0] if fills else f.node, text="defaults: n_active_electrons, n_active_sos, active_spin of the molecule",
               what="missing active-space data default to the molecule's active-space values (the ones the Hamiltonian was built with)", reason=f"defaults {got}")
    guards = []
    for n_ in ast.walk(f.node):
        if isinstance(n_, ast.If) and any(x in fills for b in n_.body for x in ast.walk(b)):
            guards.append(n_)
    dep = [g for g in guards if "qubit_mapping" in norm(g.test)]
    rep.decide(not dep, "K8.active-space-defaults", f, dep[0] if dep else (guards[0] if guards else f.node),
               text="active-space defaults are filled for every mapping",
               what="n_spinorbitals / n_electrons / spin are needed by every encoder except plain JW (BK and JKMN need the register size, up_then_down "
                    "needs it for JW as well): the defaults must not be restricted to one mapping",
               reason=f"defaults are only filled when `{norm(dep[0].test)[:90] if dep else ''}`: operator_expectation('N') fails for bk, jkmn, 'SCBK' and "
                      f"jw with up_then_down because None reaches the encoder")


class _StopFold(Exception):
    pass


def check_encoder_args(idx: Index, rep: Report):
    """operator_expectation folded up to its call of the encoder (the symmetry-operator builders and the encoder replaced by recorders; the fold stops at the
    encoder): for 'N', 'Sz', 'S^2', a FermionOperator and every choice of the solver's mapping / ordering, the operator that reaches the encoder is the one
    requested - a built-in one generated for the interleaved ordering on the molecule's active orbitals, so that the ordering is applied exactly once, by the
    encoder - and the encoder receives the solver's own mapping and ordering and the register size, electron number and spin of the molecule (or the
    caller's).  Decided on what reaches the encoder, not on how the dispatch is written (if-chain, table of builders, ...)."""
    from ..consteval import Raised, Rec, Undecidable
    from ..rules import circuitsem as cs
    rule = "K8.encoding-args"
    f = idx.function(f"{VQE}::VQESolver.operator_expectation")
    builders = {"number_operator": "N", "spinz_operator": "Sz", "spin2_operator": "S^2"}

    class _Mol:
        _sa_model = True
        n_active_mos, n_active_sos, n_active_electrons, active_spin = 3, 6, 4, 2

        def __bool__(self):
            return True

    class _Ans:
        _sa_model = True
        var_params = [0.1]

    class _FOp:
        _sa_model = True
    n = 0
    for mapping, utd in (("jw", False), ("BK", True), ("scbk", True), ("JKMN", False)):
        for label, operator, extra in (("N", "N", {}), ("Sz", "Sz", {}), ("S^2", "S^2", {}), ("a FermionOperator", _FOp(), {}),
                                       ("N with the caller's sizes", "N", {"n_active_mos": 2, "n_active_electrons": 2, "n_active_sos": 4, "spin": 0})):
            seen = {}

            def gen(tag):
                def _g(a, k):
                    return ("built-in", tag, tuple(a), tuple(sorted(k.items())))
                return _g

            def encoder(a, k):
                seen.update(k)
                if a:
                    seen["positional"] = a
                raise _StopFold()
            ctors = {"fermion_to_qubit_mapping": encoder}
            for bname, tag in builders.items():
                ctors[bname] = gen(tag)
                ctors["agen.fermionic_operators." + bname] = gen(tag)
            fo = cs.make_folder(idx, VQE, ctors=ctors)

            class _Builder:
                _sa_model = True

                def __init__(self, tag):
                    self.tag = tag

                def __call__(self, *a, **k):
                    return ("built-in", self.tag, tuple(a), tuple(sorted(k.items())))

            class _Ops:
                _sa_model = True
                number_operator, spinz_operator, spin2_operator = _Builder("N"), _Builder("Sz"), _Builder("S^2")

            class _Agen:
                _sa_model = True
                fermionic_operators = _Ops()
            fo.env["agen"] = _Agen()          # the builders as values (a table of builders instead of an if-chain)
            fo.isinstance_hook = lambda v, t: (isinstance(v, _FOp) if "FermionOperator" in t and "str" not in t else (isinstance(v, (str, _FOp)) if "str" in t and "FermionOperator" in t
                                               else (False if "QubitOperator" in t else None)))
            me = Rec("VQESolver", {"molecule": _Mol(), "qubit_mapping": mapping, "up_then_down": utd, "ansatz": _Ans(), "reference_circuit": "REF"})
            args = {"self": me, "operator": operator, "var_params": None, "n_active_mos": None, "n_active_electrons": None, "n_active_sos": None, "spin": None, "ref_state": None}
            args.update(extra)
            try:
                fo.run_function(f.node, args)
                raise AnalysisError(f"operator_expectation({label}): the encoder was not reached")
            except _StopFold:
                pass
            except Undecidable as e:
                raise AnalysisError(f"operator_expectation not foldable up to the encoder ({label}, {mapping}): {e}")
            except Raised as e:
                n += 1
                rep.violation(rule, f, f.node, text=f"operator_expectation({label}) with {mapping}, up_then_down={utd}", what="the expectation value of a symmetry operator is defined for every encoding",
                              reason=f"raises {e.exc_type}")
                continue
            bad = []
            fop = seen.get("fermion_operator")
            mos = extra.get("n_active_mos", 3)
            if isinstance(operator, str):
                if not (isinstance(fop, tuple) and fop[:2] == ("built-in", operator)):
                    bad.append(f"the operator encoded for '{operator}' is {fop!r:.60}")
                else:
                    a_, k_ = fop[2], dict(fop[3])
                    if (list(a_)[:1] or [k_.get("n_orbs")]) != [mos] or k_.get("up_then_down", (list(a_) + [None, None])[1]) is not False:
                        bad.append(f"the built-in operator is generated with {a_} {k_}: expected {mos} orbitals in interleaved order (the encoder applies the ordering, once)")
            elif fop is not operator:
                bad.append("the operator encoded is not the one passed in")
            want = {"mapping": mapping, "up_then_down": utd, "n_spinorbitals": extra.get("n_active_sos", 6), "n_electrons": extra.get("n_active_electrons", 4),
                    "spin": extra.get("spin", 2)}
            for k_, v_ in want.items():
                if seen.get(k_) != v_:
                    bad.append(f"the encoder receives {k_}={seen.get(k_)!r}, expected {v_!r}")
            n += 1
            rep.decide(not bad, rule, f, f.node, text=f"operator_expectation({label}) with {mapping}, up_then_down={utd}: what reaches the encoder",
                       what="the requested operator (built-in ones generated in interleaved order on the active orbitals) is encoded with the solver's own mapping and ordering "
                            "and the molecule's (or the caller's) register size, electron number and spin",
                       reason="; ".join(bad[:2]))
    rep.floor("operator_expectation folds up to the encoder", n, 16)


def _ref_default_falls_back(f: FunctionInfo) -> bool:
    """does f replace a missing/empty ref_state argument by the solver's own reference circuit?"""
    t = full(f.node)
    return "self.reference_circuit" in t


def _assemble(f: FunctionInfo, var: str, ref_set: bool, proj_set: bool, ref_param: Optional[str] = None):
    """fold the statements of f that build the evaluated circuit `var`, with marker circuits R (reference), A (ansatz), P (projective);
    returns the list of gate labels of the assembled circuit"""
    from ..consteval import Folder, Raised, Rec, Undecidable
    from .C17 import CTORS, CircRec

    def mk(label):
        return CircRec([Rec("Gate", {"name": label, "target": [0], "control": None, "parameter": "", "is_variational": False})])
    env = {"self.ref_state": (mk("R") if ref_set else None), "self.reference_circuit": (mk("R") if ref_set else CircRec([])),
           "self.ansatz.circuit": mk("A"), "self.projective_circuit": (mk("P") if proj_set else None), "self.deflation_circuits": []}
    env["self"] = Rec("VQESolver", {})
    ctors = dict(CTORS)
    ctors[("Circuit", "copy")] = lambda obj, a, k: CircRec(list(obj.fields["_gates"]), n_qubits=obj.fields.get("_qubits_simulated"))
    fo = Folder(env=env, ctors=ctors)
    if ref_param:
        # the entry point is evaluated without an explicit reference argument: the parameter takes its default value
        a = f.node.args
        names = [x.arg for x in a.args]
        dflt = dict(zip(names[len(names) - len(a.defaults):], a.defaults)).get(ref_param)
        if dflt is None:
            raise AnalysisError(f"{f.ref}: parameter {ref_param} has no default")
        try:
            fo.env[ref_param] = fo.expr(dflt)
        except (Undecidable, Raised) as e:
            raise AnalysisError(f"{f.ref}: default of {ref_param} not foldable: {e}")
    seen = False
    for st in f.node.body:
        names_w = {norm(t) for n in ast.walk(st) if isinstance(n, (ast.Assign, ast.AugAssign)) for t in (n.targets if isinstance(n, ast.Assign) else [n.target])}
        touches = var in names_w or (ref_param is not None and ref_param in names_w)
        if not touches:
            continue
        try:
            fo.stmt(st)
            seen = True
        except (Undecidable, Raised) as e:
            raise AnalysisError(f"{f.ref}: circuit assembly statement not foldable ({norm(st)[:60]}): {e}")
    if not seen:
        raise AnalysisError(f"{f.ref}: no statement assembles `{var}`")
    c = fo.env.get(var)
    if c is None and var.startswith("self."):
        c = fo.env["self"].fields.get(var[5:])
    _assemble.last_is_ansatz_object = c is env["self.ansatz.circuit"]
    return [g.fields["name"] for g in c.fields["_gates"]]


def check_circuit_assembly(idx: Index, rep: Report):
    """the circuit whose expectation is reported, folded with marker circuits for the four configurations (reference override set or not,
    projective circuit set or not): every evaluation entry point must assemble reference + ansatz + projective"""
    rule = "K8.circuit-assembly"
    ee = idx.function(f"{VQE}::VQESolver.energy_estimation")
    entries = [(ee, "circuit", None, True), (idx.function(f"{VQE}::VQESolver.simulate"), "self.optimal_circuit", None, True),
               (idx.function(f"{VQE}::VQESolver.get_resources"), "circuit", None, False),
               (idx.function(f"{VQE}::VQESolver.operator_expectation"), "circuit", "ref_state", True),
               (idx.function(f"{VQE}::VQESolver.get_rdm"), "prep_circuit", "ref_state", False),
               (idx.function(f"{VQE}::VQESolver.get_rdm_uhf"), "prep_circuit", "ref_state", False)]
    for f, var, ref_param, with_proj in entries:
        for ref_set in (False, True):
            for proj_set in ((False, True) if with_proj else (False,)):
                want = (["R"] if ref_set else []) + ["A"] + (["P"] if proj_set else [])
                if f.name == "get_resources":
                    # get_resources additionally appends the first deflation circuit; not part of the evaluated state
                    pass
                got = _assemble(f, var, ref_set, proj_set, ref_param)
                rep.decide(got == want, rule, f, f.node,
                           text=f"{f.name}: reference override {'set' if ref_set else 'unset'}, projective {'set' if proj_set else 'unset'} -> {' + '.join(want)}",
                           what="every evaluation entry point prepares the same state: the solver's reference-state override, then the ansatz, then the projective circuit"
                                + (" (evaluated without an explicit reference argument)" if ref_param else ""),
                           reason=f"{f.name} assembles {' + '.join(got) if got else 'an empty circuit'} instead of {' + '.join(want)}"
                                  + (": the default evaluation ignores the solver's reference-state override" if ref_param and ref_set and "R" not in got else ""))
    # the circuit stored as the result of the optimisation must not be the ansatz' own circuit object: every later evaluation rewrites that object's angles
    sim = idx.function(f"{VQE}::VQESolver.simulate")
    for ref_set in (False, True):
        for proj_set in (False, True):
            _assemble(sim, "self.optimal_circuit", ref_set, proj_set, None)
            rep.decide(not _assemble.last_is_ansatz_object, "K2.result-aliases-state", sim, sim.node,
                       text=f"simulate: optimal_circuit (reference override {'set' if ref_set else 'unset'}, projective {'set' if proj_set else 'unset'}) is an object of its own",
                       what="the circuit kept as the result of the optimisation goes on preparing the optimal state when the solver is used again",
                       reason="optimal_circuit is the very object ansatz.circuit: a later energy_estimation / operator_expectation with other parameters rewrites its angles, "
                              "and optimal_energy is no longer the energy of optimal_circuit")
    calls = [c for c in own_nodes(ee.node) if isinstance(c, ast.Call) and norm(c.func) == "self.backend.get_expectation_value"]
    ok = len(calls) == 1 and [norm(a) for a in calls[0].args] == ["self.qubit_hamiltonian", "circuit"] and any(k.arg is None and norm(k.value) == "self.simulate_options" for k in calls[0].keywords)
    rep.decide(ok, rule, ee, calls[0] if calls else ee.node, text="energy = <qubit_hamiltonian> on that circuit, with the solver's simulate options",
               what="the reported energy is the backend expectation of the solver's Hamiltonian on the assembled circuit", reason=f"call {norm(calls[0]) if calls else '?'}")
    upd = [c for c in own_nodes(ee.node) if isinstance(c, ast.Call) and norm(c.func) == "self.ansatz.update_var_params"]
    first_use = min((n.lineno for n in own_nodes(ee.node) if isinstance(n, ast.Assign) and norm(n.targets[0]) == "circuit"), default=0)
    ok = bool(upd) and upd[0].lineno < first_use and norm(upd[0].args[0]) == "var_params"
    rep.decide(ok, rule, ee, upd[0] if upd else ee.node, text="parameters are written into the ansatz before the circuit is evaluated", what="the energy belongs to the parameter vector passed in",
               reason="ansatz parameters not updated before evaluation")
    oe = idx.function(f"{VQE}::VQESolver.operator_expectation")
    calls = [c for c in own_nodes(oe.node) if isinstance(c, ast.Call) and norm(c.func) == "self.backend.get_expectation_value"]
    ok = len(calls) == 1 and norm(calls[0].args[1]) == "circuit" and any(k.arg is None and norm(k.value) == "self.simulate_options" for k in calls[0].keywords)
    rep.decide(ok, rule, oe, calls[0] if calls else oe.node, text="operator_expectation evaluates on the assembled circuit with the solver's simulate options",
               what="symmetry expectation values use the same circuit and simulation options as the energy", reason=f"call {norm(calls[0]) if calls else '?'}")
    for q in ("VQESolver.get_rdm", "VQESolver.get_rdm_uhf"):
        f = idx.function(f"{VQE}::{q}")
        if "projective_circuit" not in full(f.node):
            rep.info(rule, f, f.node, text=f"{q}: projective circuit not part of the RDM state", reason="RDMs are measured without the projective circuit (reported for information; C13 states RDMs for the plain ansatz state)")


def check_deflation(idx: Index, rep: Report):
    """energy += deflation_coeff * |<psi_k|psi>|^2 for every deflation circuit.  Two ways of obtaining the overlap are understood:
    (a) the all-zero frequency of (U_k then U^dagger) or (U then U_k^dagger); (b) |<a|b>|^2 of two simulated statevectors with a
    conjugating inner product.  Anything else is an idiom this check does not know: analysis error, not a verdict."""
    rule = "K9.deflation"
    f = idx.function(f"{VQE}::VQESolver.energy_estimation")
    loops = [n for n in ast.walk(f.node) if isinstance(n, ast.For) and norm(n.iter) == "self.deflation_circuits"]
    if not loops:
        rep.violation(rule, f, f.node, text="deflation loop", what="every deflation circuit contributes an overlap penalty", reason="loop over deflation circuits missing")
        return
    lp = loops[0]
    var = norm(lp.target)
    # simulate() calls of the function, by the names their results are bound to
    sims: Dict[str, Tuple[str, ast.Call, bool]] = {}          # name -> (which output: 'freq'|'sv', call, return_statevector?)
    for n in ast.walk(f.node):
        if isinstance(n, ast.Assign) and isinstance(n.value, ast.Call) and norm(n.value.func) == "self.backend.simulate" and isinstance(n.targets[0], ast.Tuple) \
                and len(n.targets[0].elts) == 2:
            rsv = any(k.arg == "return_statevector" and norm(k.value) == "True" for k in n.value.keywords)
            sims[norm(n.targets[0].elts[0])] = ("freq", n.value, rsv)
            sims[norm(n.targets[0].elts[1])] = ("sv", n.value, rsv)
    acc = [n for n in ast.walk(lp) if isinstance(n, ast.AugAssign) and norm(n.target) == "energy"]
    if len(acc) != 1 or not isinstance(acc[0].op, ast.Add):
        rep.violation(rule, f, lp, text="energy += deflation_coeff * overlap", what="each deflation circuit adds exactly its weighted overlap probability",
                      reason=f"{len(acc)} additive updates of the energy inside the deflation loop")
        return
    d, pov = sp.symbols("d p", real=True)
    found: List[Tuple[str, ast.AST, str]] = []                # (verdict, node, reason)

    def state_of(call: ast.Call) -> Optional[List[str]]:
        """the circuit a simulate() call prepares, as a word over {K (deflation circuit), U (evaluated circuit), K^, U^ (inverses)}"""
        def word(e):
            if isinstance(e, ast.BinOp) and isinstance(e.op, ast.Add):
                l, r = word(e.left), word(e.right)
                return None if l is None or r is None else l + r
            t = norm(e)
            if t == var:
                return ["K"]
            if t == "circuit":
                return ["U"]
            if t == f"{var}.inverse()":
                return ["K^"]
            if t == "circuit.inverse()":
                return ["U^"]
            if isinstance(e, ast.Name):
                defs = [x.value for x in ast.walk(lp) if isinstance(x, ast.Assign) and len(x.targets) == 1 and norm(x.targets[0]) == e.id]
                if len(defs) == 1:
                    return word(defs[0])              # a local name for the overlap circuit
            return None
        return word(call.args[0]) if call.args else None

    class _W:
        """stand-in for a circuit of a given width: `+` gives the wider of the two, inverse() and copy() keep the width"""
        _sa_model = True

        def __init__(self, width):
            self.width = width

        def __add__(self, o):
            return _W(max(self.width, o.width))

        def inverse(self):
            return _W(self.width)
        copy = inverse

    def key_lengths(call: ast.Call, key: ast.AST):
        """(length of the outcome string looked up, width of the circuit that was simulated) for two assignments of widths to the ansatz circuit, the
        evaluated circuit (reference + ansatz + projective part) and the deflation circuit"""
        out = []
        for wa, wu, wk in ((2, 3, 5), (4, 6, 3), (3, 3, 3)):
            fo = Folder(env={var: _W(wk), "circuit": _W(wu), "self.ansatz.circuit": _W(wa), "self.ansatz.circuit.width": wa})
            try:
                for st in lp.body:
                    if isinstance(st, ast.Assign) and not any(isinstance(x, ast.Call) and norm(x.func).endswith("simulate") for x in ast.walk(st.value)):
                        fo.stmt(st)
                sim = fo.expr(call.args[0])
                k = fo.expr(key)
            except (Undecidable, Raised, AttributeError, TypeError):
                out.append((None, None))
                continue
            out.append((k, getattr(sim, "width", None)))
        return out

    def unk(n):
        t = norm(n)
        if t == "self.deflation_coeff":
            return d
        # (a) frequency lookup
        if isinstance(n, ast.Call) and isinstance(n.func, ast.Attribute) and n.func.attr == "get" and norm(n.func.value) in sims and sims[norm(n.func.value)][0] == "freq":
            call = sims[norm(n.func.value)][1]
            w = state_of(call)
            okw = w in (["K", "U^"], ["U", "K^"])
            kl = key_lengths(call, n.args[0])
            keys = [k for k, _ in kl]
            okk = all(isinstance(k, str) and w is not None and k == "0" * w for k, w in kl) and len(n.args) == 2 and norm(n.args[1]) in ("0", "0.0", "0.")
            found.append(("ok" if okw and okk else "bad", n,
                          ("" if okw else f"overlap circuit is {' then '.join(w) if w else norm(call.args[0])}, not U_k followed by U^dagger; ") +
                          ("" if okk else f"outcome looked up is {keys} for simulated circuits of widths {[w for _, w in kl]} (default {norm(n.args[1]) if len(n.args) > 1 else 'none'}): not the "
                                               f"all-zero string of the simulated circuit's width with default 0 - a wider reference, projective or deflation circuit makes the lookup miss")))
            return pov
        # (b) squared modulus of an inner product of two statevectors
        if isinstance(n, ast.BinOp) and isinstance(n.op, ast.Pow) and norm(n.right) == "2" and isinstance(n.left, ast.Call) and norm(n.left.func) in ("abs", "np.abs", "np.absolute") \
                and isinstance(n.left.args[0], ast.Call):
            ip = n.left.args[0]
            fn = norm(ip.func)
            args = [norm(x) for x in ip.args]
            if len(args) == 2:
                def base(x):
                    for suf in (".conj()", ".conjugate()"):
                        if x.endswith(suf):
                            return x[:-len(suf)], True
                    for pre in ("np.conj(", "np.conjugate("):
                        if x.startswith(pre) and x.endswith(")"):
                            return x[len(pre):-1], True
                    return x, False
                (a0, c0), (a1, c1) = base(args[0]), base(args[1])
                if a0 in sims and a1 in sims and sims[a0][0] == "sv" and sims[a1][0] == "sv" and fn in ("np.vdot", "np.dot", "np.inner", "np.matmul"):
                    words = sorted((state_of(sims[a0][1]) or ["?"])[0] + (state_of(sims[a1][1]) or ["?"])[0])
                    conj = (fn == "np.vdot" and not c0 and not c1) or (fn != "np.vdot" and (c0 != c1))
                    okst = words == ["K", "U"] and sims[a0][2] and sims[a1][2]
                    found.append(("ok" if conj and okst else "bad", n,
                                  ("" if conj else f"{fn}({', '.join(args)}) does not conjugate one of the two statevectors: it is not |<psi_k|psi>|^2 for complex amplitudes; ") +
                                  ("" if okst else f"the two statevectors are those of {words}, expected the deflation circuit and the evaluated circuit")))
                    return pov
        return None
    try:
        val = symx.to_sympy(acc[0].value, first=unk)
    except symx.Untranslatable as e:
        raise AnalysisError(f"energy_estimation: deflation penalty {norm(acc[0].value)} uses an idiom this check does not know ({e})")
    if not found:
        raise AnalysisError(f"energy_estimation: no overlap expression recognised in {norm(acc[0].value)}")
    rep.decide(symx.equal(val, d * pov), rule, f, acc[0], text="energy += deflation_coeff * overlap", what="each deflation circuit adds exactly its weighted overlap probability",
               reason=f"accumulated term is {val} (d = deflation_coeff, p = overlap)")
    for verdict, node, why in found:
        rep.decide(verdict == "ok", rule, f, node, text="overlap = |<psi_k|psi>|^2 (all-zero frequency of U_k U^dagger, or conjugating inner product of the two states)",
                   what="the overlap is the squared modulus of the inner product of the deflation state and the evaluated state", reason=why)


def check_hcb_symmetry_operators(idx: Index, rep: Report):
    """operator_expectation("N" | "Sz" | "S^2") under the hard-core-boson encoding (pUCCD): the library's own operator builders are folded into term
    dictionaries, sent through the folded hard-core-boson chain, and compared with the exact restriction of the same operator to the paired determinants
    (where N = 2 * number of pairs, Sz = 0 and S^2 = 0)."""
    import numpy as np
    from ..consteval import Raised, Undecidable
    from ..rules import ofmodel as om
    from ..rules.circuitsem import make_folder
    from .C03 import boson_matrix, hcb_encode, paired_block
    rule = "K9.hcb-symmetry-operators"
    FOP = "tangelo/toolboxes/ansatz_generator/fermionic_operators.py"
    f = idx.function(f"{VQE}::VQESolver.operator_expectation")
    for label, fname in (("N", "number_operator"), ("Sz", "spinz_operator"), ("S^2", "spin2_operator")):
        bad = []
        for n_mos in (2, 3):
            g = idx.function(f"{FOP}::{fname}")
            fo = make_folder(idx, FOP, ctors={"FermionOperator": lambda a, k: om.OrdFermionOp(*a, **k), "normal_ordered": lambda a, k: om.normal_ordered(a[0])})
            try:
                op = fo.run_function(g.node, {"n_orbs": n_mos, "up_then_down": False})
                bos = hcb_encode(idx, dict(op.terms))
            except Undecidable as e:
                raise AnalysisError(f"{fname} / hard-core-boson chain not foldable: {e}")
            except Raised as e:
                bad.append(f"{n_mos} orbitals: raises {e.exc_type}")
                continue
            got = boson_matrix(bos, n_mos)
            want = paired_block(dict(op.terms), n_mos)
            if float(np.max(np.abs(got - want))) >= 1e-9:
                bad.append(f"{n_mos} orbitals: encoded diagonal {np.round(np.real(np.diag(got)), 6).tolist()}, exact values on the paired determinants {np.round(np.real(np.diag(want)), 6).tolist()}")
        rep.decide(not bad, rule, f, f.node, text=f"operator_expectation('{label}') under the hard-core-boson encoding",
                   what="the qubit operator measured for N, Sz or S^2 is the restriction of that operator to the paired determinants the encoding represents",
                   reason="; ".join(bad) + " (the coefficient extraction reads the alpha-alpha and alpha-beta blocks only, as for a spin-restricted Hamiltonian)")
