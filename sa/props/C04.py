"""C04 Qubit Hamiltonians reproduce mean-field and full-CI energies (one structural clause; the remainder is not decided).

C04.a K10 spin sorts in the unrestricted (UHF) integral handling of molecule.py: every loop variable gets sort alpha / beta from what
          it iterates over (occupied_indices[k], active_indices[k], range(n_orb_a|b), product(...)); the block layout of the
          two-electron container is *derived* from IntegralSolverPySCF.compute_uhf_integrals (coefficient tuple of the mixed block,
          transposition, tuple order); every subscript of a block receives variables of the block's sorts, every np.ix_ selection
          likewise, up_index takes alpha and down_index takes beta variables
C04.b K8  SecondQuantizedMolecule.n_active_ab_electrons uses the common alpha/beta split (clone of C05.a)
C04.c K9  restricted branch: the spin-orbital interaction operator is built from spinorb_from_spatial(...) with the two-body part
          halved; the unrestricted assembly halves every two-body block
"""
from __future__ import annotations

import ast
from typing import Dict, List, Optional, Tuple

from ..index import AnalysisError, FunctionInfo, Index, full, norm, own_nodes, resolve_local
from ..report import Report
from . import C05
import sympy as sp
from .. import symx

MOL = "tangelo/toolboxes/molecular_computation/molecule.py"
PYSCF = "tangelo/toolboxes/molecular_computation/integral_solver_pyscf.py"
A, B = "alpha", "beta"


def derive_layout(idx: Index, rep: Report) -> Dict[int, Tuple[str, ...]]:
    """layout of Gpqrs[k] from compute_uhf_integrals"""
    rule = "K10.block-layout"
    f = idx.function(f"{PYSCF}::IntegralSolverPySCF.compute_uhf_integrals")
    asg = {norm(n.targets[0]): n.value for n in own_nodes(f.node) if isinstance(n, ast.Assign) and len(n.targets) == 1}
    sort_of = {}
    for nm, v in asg.items():
        if norm(v) == "mo_coeff[0]":
            sort_of[nm] = A
        elif norm(v) == "mo_coeff[1]":
            sort_of[nm] = B
    order: List[Tuple[str, ast.AST]] = [(norm(n.targets[0]), n.value) for n in own_nodes(f.node) if isinstance(n, ast.Assign) and len(n.targets) == 1]
    final: Dict[str, Tuple[str, ...]] = {}
    for nm, v in order:
        if isinstance(v, ast.IfExp):
            # a conditional value: both alternatives must have a derivable layout; if they differ the tensor has the wrong spins on one path
            alts = []
            for alt in (v.body, v.orelse):
                if isinstance(alt, ast.Name) and alt.id in final:
                    alts.append(final[alt.id])
                elif isinstance(alt, ast.Call) and norm(alt.func).endswith("incore.full") and len(alt.args) == 2 and sort_of.get(norm(alt.args[1])):
                    alts.append((sort_of[norm(alt.args[1])],) * 4)
                else:
                    alts.append(None)
            if None not in alts:
                final[nm] = alts[0] if alts[0] == alts[1] else ("conflict:" + "".join(x[0] for x in alts[0]) + "/" + "".join(x[0] for x in alts[1]),) * 4
            continue
        if isinstance(v, ast.Name) and v.id in final:
            final[nm] = final[v.id]
            continue
        if isinstance(v, ast.Call) and norm(v.func).endswith("incore.full") and len(v.args) == 2 and sort_of.get(norm(v.args[1])):
            so = sort_of[norm(v.args[1])]
            final[nm] = (so, so, so, so)
            continue
        if isinstance(v, ast.Call) and norm(v.func).endswith("incore.general") and len(v.args) >= 2 and isinstance(v.args[1], ast.Tuple):
            ss = tuple(sort_of.get(norm(e)) for e in v.args[1].elts)
            if None not in ss and len(ss) == 4:
                final[nm] = ss
            continue
        src = None
        perm = None
        for c in ast.walk(v):
            if isinstance(c, ast.Call) and isinstance(c.func, ast.Attribute) and c.func.attr == "transpose" and norm(c.func.value) in final:
                src = norm(c.func.value)
                perm = [ast.literal_eval(a) for a in c.args]
            elif isinstance(c, ast.Call) and isinstance(c.func, ast.Attribute) and c.func.attr in ("reshape",) and norm(c.func.value) in final and perm is None:
                src = norm(c.func.value)
            elif isinstance(c, ast.Call) and norm(c.func).endswith("ao2mo.restore") and len(c.args) >= 2 and norm(c.args[1]) in final and perm is None:
                src = norm(c.args[1])
        if src is not None:
            lay = final[src]
            if perm is not None:
                if sorted(perm) != [0, 1, 2, 3]:
                    raise AnalysisError(f"compute_uhf_integrals: transpose{tuple(perm)} is not a permutation of four axes")
                lay = tuple(lay[p] for p in perm)
            final[nm] = lay
    g = [n for n in own_nodes(f.node) if isinstance(n, ast.Assign) and norm(n.targets[0]) == "Gpqrs" and isinstance(n.value, ast.Tuple)]
    if not g:
        raise AnalysisError("compute_uhf_integrals: Gpqrs tuple not found")
    layout = {}
    for k, e in enumerate(g[0].value.elts):
        if norm(e) not in final:
            raise AnalysisError(f"compute_uhf_integrals: layout of {norm(e)} not derivable")
        layout[k] = final[norm(e)]
    want = {0: (A, A, A, A), 1: (A, B, B, A), 2: (B, B, B, B)}
    rep.decide(layout == want, rule, f, g[0], text=f"Gpqrs layouts {layout}",
               what="the integral container holds (aa|aa), the mixed block in physicist order (alpha, beta, beta, alpha), and (bb|bb), in that order",
               reason=f"derived layouts {layout}")
    h = [n for n in own_nodes(f.node) if isinstance(n, ast.Call) and norm(n.func) == "hpq.append"]
    nn = sp.Symbol("n", positive=True, integer=True)
    Ca, Cb, Hc = sp.MatrixSymbol("C_a", nn, nn), sp.MatrixSymbol("C_b", nn, nn), sp.MatrixSymbol("h", nn, nn)
    menv = {"mo_a": Ca, "mo_b": Cb, "hcore": Hc}
    got = []
    for c in h:
        try:
            got.append(symx.to_matrix_expr(c.args[0], menv))
        except symx.Untranslatable as e:
            raise AnalysisError(f"compute_uhf_integrals: one-electron block {norm(c.args[0])} not understood ({e})")
    ok = len(got) == 2 and symx.matrix_expr_equal(got[0], Ca.T * Hc * Ca) and symx.matrix_expr_equal(got[1], Cb.T * Hc * Cb)
    rep.decide(ok, rule, f, h[0] if h else f.node, text="hpq = [C_a^T h C_a, C_b^T h C_b]", what="one-electron blocks are (alpha, alpha) then (beta, beta), each the core Hamiltonian in that spin's orbitals",
               reason=f"one-electron blocks are {got}")
    return layout


class SortEnv:
    def __init__(self):
        self.sorts: Dict[str, str] = {}

    def of(self, e: ast.AST) -> Optional[str]:
        if isinstance(e, ast.Name):
            return self.sorts.get(e.id)
        if isinstance(e, ast.Call) and isinstance(e.func, ast.Name) and e.func.id in ("up_index", "down_index") and len(e.args) == 1:
            return A if e.func.id == "up_index" else B
        return None


def _iter_sorts(it: ast.AST) -> Optional[List[str]]:
    """sorts produced by one iteration of `it` (list: one per unpacked variable)"""
    t = norm(it)
    if isinstance(it, ast.Subscript) and norm(it.value) in ("occupied_indices", "active_indices", "self.frozen_occupied", "self.active_mos", "self.active_occupied") \
            and isinstance(it.slice, ast.Constant):
        return [A if it.slice.value == 0 else B]
    if isinstance(it, ast.Call) and norm(it.func) == "range" and len(it.args) == 1:
        a = norm(it.args[0])
        if a.endswith("_a"):
            return [A]
        if a.endswith("_b"):
            return [B]
        return None
    if isinstance(it, ast.Call) and norm(it.func) == "product":
        rep_kw = [k for k in it.keywords if k.arg == "repeat"]
        parts = []
        for a in it.args:
            s = _iter_sorts(a)
            if s is None or len(s) != 1:
                return None
            parts.append(s[0])
        if rep_kw:
            parts = parts * ast.literal_eval(rep_kw[0].value)
        return parts
    return None


def check_function_sorts(rep: Report, f: FunctionInfo, layout, one_body_layout, containers: Dict[str, str]):
    rule = "K10.spin-sorts"
    env = SortEnv()
    n_checked = 0

    def bind_loop(loop: ast.For):
        s = _iter_sorts(loop.iter)
        if s is None:
            return
        tg = loop.target
        names = [tg] if isinstance(tg, ast.Name) else list(tg.elts)
        if len(names) == len(s):
            for nm, so in zip(names, s):
                if isinstance(nm, ast.Name):
                    env.sorts[nm.id] = so

    def visit(stmts):
        nonlocal n_checked
        for st in stmts:
            if isinstance(st, ast.For):
                saved = dict(env.sorts)
                bind_loop(st)
                visit(st.body)
                env.sorts = saved
                continue
            if isinstance(st, ast.If):
                visit(st.body)
                visit(st.orelse)
                continue
            if isinstance(st, ast.Assign) and isinstance(st.targets[0], ast.Name) and isinstance(st.value, ast.Call) and isinstance(st.value.func, ast.Name) \
                    and st.value.func.id in ("up_index", "down_index"):
                env.sorts[st.targets[0].id] = A if st.value.func.id == "up_index" else B
            for n in ast.walk(st):
                # wrappers
                if isinstance(n, ast.Call) and isinstance(n.func, ast.Name) and n.func.id in ("up_index", "down_index") and len(n.args) == 1:
                    s = env.of(n.args[0])
                    want = A if n.func.id == "up_index" else B
                    if s is not None:
                        n_checked += 1
                        rep.decide(s == want, rule, f, n, text=f"{f.name}: {norm(n)} with {norm(n.args[0])}:{s}",
                                   what="up_index receives alpha orbital indices, down_index beta ones", reason=f"{norm(n.args[0])} is a {s} index but is passed to {n.func.id}")
                # block subscripts:  X[k][i, j, ...]  or  X_new_aa[u, v]
                if isinstance(n, ast.Subscript) and isinstance(n.slice, ast.Tuple):
                    lay = None
                    base = n.value
                    if isinstance(base, ast.Subscript) and isinstance(base.slice, ast.Constant) and norm(base.value) in containers:
                        kind = containers[norm(base.value)]
                        lay = (layout if kind == "two" else one_body_layout).get(base.slice.value)
                    elif isinstance(base, ast.Name) and base.id.endswith("_aa") and len(n.slice.elts) == 2:
                        lay = (A, A)
                    elif isinstance(base, ast.Name) and base.id.endswith("_bb") and len(n.slice.elts) == 2:
                        lay = (B, B)
                    if lay is None or len(lay) != len(n.slice.elts):
                        continue
                    got = [env.of(e) for e in n.slice.elts]
                    if any(g is None for g in got):
                        # np.ix_ selections handled below; unknown index expressions are not decided
                        continue
                    n_checked += 1
                    rep.decide(tuple(got) == tuple(lay), rule, f, n, text=f"{f.name}: {norm(n)} sorts {got}",
                               what=f"block {norm(base)} is indexed ({', '.join(lay)})", reason=f"indices have sorts {got}, block layout is {list(lay)}: alpha and beta orbitals are mixed up")
                # np.ix_ selections:  X[k][np.ix_(active_indices[a], ...)]
                if isinstance(n, ast.Subscript) and isinstance(n.slice, ast.Call) and norm(n.slice.func) == "np.ix_":
                    base = n.value
                    lay = None
                    if isinstance(base, ast.Subscript) and isinstance(base.slice, ast.Constant) and norm(base.value) in containers:
                        kind = containers[norm(base.value)]
                        lay = (layout if kind == "two" else one_body_layout).get(base.slice.value)
                    elif isinstance(base, ast.Name) and base.id.endswith("_aa"):
                        lay = (A, A)
                    elif isinstance(base, ast.Name) and base.id.endswith("_bb"):
                        lay = (B, B)
                    if lay is None:
                        continue
                    got = []
                    for a in n.slice.args:
                        s = _iter_sorts(a)
                        got.append(s[0] if s and len(s) == 1 else None)
                    n_checked += 1
                    rep.decide(tuple(got) == tuple(lay), rule, f, n, text=f"{f.name}: {norm(base)}[np.ix_(...)] sorts {got}",
                               what=f"the active-space selection of block {norm(base)} uses ({', '.join(lay)}) index lists", reason=f"selection uses {got}, block layout is {list(lay)}")
    visit(f.node.body)
    return n_checked


def check_uhf_spin_sorts(idx: Index, rep: Report):
    """spin-sort typestate over the unrestricted frozen-core folding and Hamiltonian assembly (shared with C13: the energy contracted from spin-resolved density
    matrices uses the same active-space integrals)"""
    layout = derive_layout(idx, rep)
    one = {0: (A, A), 1: (B, B)}
    n = 0
    f = idx.function(f"{MOL}::SecondQuantizedMolecule._get_active_space_integrals_uhf")
    n += check_function_sorts(rep, f, layout, one, {"two_body_integrals": "two", "one_body_integrals": "one"})
    g = idx.function(f"{MOL}::SecondQuantizedMolecule._get_molecular_hamiltonian_uhf")
    n += check_function_sorts(rep, g, layout, one, {"two_body_integrals": "two", "one_body_integrals": "one"})
    rep.floor("spin-sort obligations", n, 35)
    return f, g


def check_derived_molecule_sharing(idx: Index, rep: Report):
    """The orbital coefficients of a molecule live in two places: `solver.mo_coeff` (where the qubit Hamiltonian's integrals come from) and `mean_field.mo_coeff`
    (what the classical solvers read).  The `mo_coeff` setter writes both, which keeps ONE molecule consistent; two molecule objects derived from one another
    (freeze_mos(inplace=False) makes a shallow copy) stay consistent only if they share both holders or neither.  Rule: in every method of the molecule classes
    that builds a shallow copy of `self`, the copy's `solver` and `mean_field` are either both re-assigned or both left alone."""
    rule = "K2.derived-molecule-sharing"
    ci = idx.cls(f"{MOL}::SecondQuantizedMolecule")
    # the premise, read from the code: the setter stores into self.solver and calls the solver's hook, which stores into the molecule's mean_field
    setter = next((f for f in idx.module_by_relpath(MOL).functions.values() if f.qualname.endswith("SecondQuantizedMolecule.mo_coeff")
                   and any(norm(d).endswith(".setter") for d in f.node.decorator_list)), None)
    if setter is None:
        raise AnalysisError("SecondQuantizedMolecule.mo_coeff setter not found")
    writes_solver = any(isinstance(n, ast.Assign) and norm(n.targets[0]) == "self.solver.mo_coeff" for n in ast.walk(setter.node))
    calls_hook = any(isinstance(n, ast.Call) and norm(n.func) == "self.solver.modify_solver_mo_coeff" for n in ast.walk(setter.node))
    hooks = [f for f in idx.all_functions() if f.qualname.endswith(".modify_solver_mo_coeff") and not f.module.external
             and any(isinstance(n, ast.Assign) and norm(n.targets[0]).endswith(".mean_field.mo_coeff") for n in ast.walk(f.node))]
    if not (writes_solver and calls_hook and hooks):
        raise AnalysisError("mo_coeff setter: the two holders of the orbital coefficients (solver.mo_coeff, mean_field.mo_coeff) are no longer written the way this rule assumes")
    n = 0
    for m in ci.methods.values():
        copies = [st for st in own_nodes(m.node) if isinstance(st, ast.Assign) and isinstance(st.targets[0], ast.Name) and isinstance(st.value, ast.Call)
                  and norm(st.value.func) in ("copy.copy", "copy") and len(st.value.args) == 1 and norm(st.value.args[0]) == "self"]
        for st in copies:
            name = st.targets[0].id
            stored = {t.attr for x in own_nodes(m.node) if isinstance(x, (ast.Assign, ast.AugAssign)) for t in (x.targets if isinstance(x, ast.Assign) else [x.target])
                      if isinstance(t, ast.Attribute) and norm(t.value) == name}
            n += 1
            both = {"solver", "mean_field"} & stored
            rep.decide(len(both) != 1, rule, m, st, text=f"{m.qualname}: {name} = copy.copy(self); re-assigned on the copy: {sorted(stored)}",
                       what="a molecule derived by a shallow copy shares both holders of the orbital coefficients (solver, mean_field) with its parent, or neither",
                       reason=f"only `{''.join(both)}` is replaced on the copy: after `mo_coeff` is set on one of the two molecules the other one's qubit Hamiltonian "
                              f"(solver.mo_coeff) and its classical reference (mean_field.mo_coeff) use different orbitals")
    rep.floor("shallow copies of a molecule", n, 1)


def check_active_electron_split(idx: Index, rep: Report):
    """SecondQuantizedMolecule.n_active_ab_electrons folded on occupation patterns: restricted (doubly occupied, then singly occupied orbitals, the spin being the
    number of singly occupied ones) with some doubly occupied orbitals frozen, and unrestricted (separate alpha and beta occupations).  The pair returned is
    (alpha, beta) electrons among the active occupied orbitals - whatever way the arithmetic is written."""
    from ..consteval import FuncVal, Raised, Rec, Undecidable
    from ..rules.circuitsem import make_folder
    rule = "K9.alpha-beta"
    ci = idx.cls(f"{MOL}::SecondQuantizedMolecule")
    prop = ci.methods.get("n_active_ab_electrons")
    if prop is None:
        raise AnalysisError("SecondQuantizedMolecule.n_active_ab_electrons not found")
    bad, n = [], 0
    cases = []
    for docc in range(0, 4):
        for socc in range(0, 4):
            for frozen in range(0, min(docc, 2) + 1):
                if docc + socc - frozen == 0:
                    continue
                occ = [2.0] * docc + [1.0] * socc + [0.0, 0.0]
                cases.append((f"restricted: {docc} doubly and {socc} singly occupied orbitals, {frozen} frozen", {"uhf": False, "mo_occ": occ, "spin": socc,
                              "active_occupied": list(range(frozen, docc + socc))}, (docc - frozen + socc, docc - frozen)))
    for na, nb, fa, fb in ((2, 1, 0, 0), (3, 1, 1, 1), (2, 3, 0, 1), (1, 1, 0, 0), (3, 0, 1, 0)):
        occ = [[1.0] * na + [0.0] * (4 - na), [1.0] * nb + [0.0] * (4 - nb)]
        cases.append((f"unrestricted: {na} alpha and {nb} beta electrons, {fa} / {fb} frozen", {"uhf": True, "mo_occ": occ, "spin": na - nb,
                      "active_occupied": [list(range(fa, na)), list(range(min(fb, nb), nb))]}, (na - fa, nb - min(fb, nb))))
    for label, fields, want in cases:
        fo = make_folder(idx, MOL)
        fo.real_arrays = True
        try:
            got = fo.call_funcval(FuncVal(prop.node, bound_self=Rec("SecondQuantizedMolecule", dict(fields)), home=MOL), [], {})
        except Undecidable as e:
            raise AnalysisError(f"n_active_ab_electrons not foldable ({label}): {e}")
        except Raised as e:
            bad.append(f"{label}: raises {e.exc_type}")
            continue
        n += 1
        try:
            pair = tuple(int(x) for x in got)
        except (TypeError, ValueError):
            pair = None
        if pair != want:
            bad.append(f"{label}: returns {got!r}, the active occupied orbitals hold {want}")
    rep.decide(not bad, rule, prop, prop.node, text=f"n_active_ab_electrons on {len(cases)} occupation patterns (restricted closed / open shell with frozen core, unrestricted)",
               what="the molecule reports (alpha, beta) = electrons of each spin among its active occupied orbitals: (n + s)/2 and (n - s)/2 of the active electron number n and the spin s",
               reason="; ".join(bad[:2]))
    rep.floor("occupation patterns folded", n + len(bad), 30)


def run(idx: Index, rep: Report, tier: str):
    rep.explain("C04, one structural clause: a spin-sort typestate over the unrestricted integral handling (frozen-core folding, active-space "
                "selection, spin-orbital assembly), with the layout of the mixed two-electron block derived from the integral solver; plus the "
                "alpha/beta electron split clone and the 1/2 factors of the interaction-operator assembly.")
    rep.trust("CPython ast", "pyscf ao2mo.incore.general(eri, (C1, C2, C3, C4)) returns (C1 C2|C3 C4) in chemist order", "openfermion up_index/down_index = 2p / 2p+1")
    rep.assume("integral values, frozen-core folding arithmetic, equality with full CI and orbital-rotation invariance are numerical facts and are not decided")
    check_fci_sector(idx, rep)
    check_frozen_partition(idx, rep)
    f, g = check_uhf_spin_sorts(idx, rep)
    # returned containers keep the block order
    rets = [x for x in own_nodes(f.node) if isinstance(x, ast.Assign) and norm(x.targets[0]) == "two_body_integrals_new"]
    if not rets or not isinstance(rets[0].value, (ast.List, ast.Tuple)) or len(rets[0].value.elts) != 3:
        raise AnalysisError("_get_active_space_integrals_uhf: the returned two-body container is not a three-element list")
    for k, el in enumerate(rets[0].value.elts):
        # follow the element back to the block of the full container it is cut from
        def _def(name):
            st = [x for x in own_nodes(f.node) if isinstance(x, ast.Assign) and norm(x.targets[0]) == name]
            return st[-1].value if st else None
        src = el
        for _hop in range(6):
            if isinstance(src, ast.Name) and _def(src.id) is not None:
                src = _def(src.id)
            elif isinstance(src, ast.Subscript) and isinstance(src.value, ast.Name) and isinstance(src.slice, ast.Constant) and \
                    isinstance(_def(src.value.id), (ast.Tuple, ast.List)) and isinstance(src.slice.value, int) and src.slice.value < len(_def(src.value.id).elts):
                src = _def(src.value.id).elts[src.slice.value]
            else:
                break
        base = src
        while isinstance(base, ast.Subscript) and norm(base.value) != "two_body_integrals":
            base = base.value
        blk = norm(base.slice) if isinstance(base, ast.Subscript) and norm(base.value) == "two_body_integrals" else None
        rep.decide(blk == str(k), "K10.block-layout", f, el, text=f"active-space container slot {k} is cut from block {k} of the full container",
                   what="the active-space container keeps the (aa, ab, bb) order of the full one", reason=f"slot {k} ({norm(el)}) derives from two_body_integrals[{blk}]")
    # C04.b
    rule = "K9.alpha-beta"
    clones = [(fn, st) for fn, st in C05.find_alpha_clones(idx) if fn.module.relpath == MOL]
    for fn, st in clones:
        C05.decide_alpha_formula(rep, rule, fn, st)
    check_active_electron_split(idx, rep)
    check_derived_molecule_sharing(idx, rep)
    # the reference determinant whose expectation value is the mean-field energy: occupations -> vector -> X gates, every (electrons, spin) incl. no alpha electrons (shared with C05)
    C05.check_vector_to_circuit(idx, rep)
    # C04.c factors
    rule = "K9.interaction-operator"
    h = idx.function(f"{MOL}::SecondQuantizedMolecule._get_fermionic_hamiltonian")
    unp = [x for x in own_nodes(h.node) if isinstance(x, ast.Assign) and isinstance(x.targets[0], ast.Tuple) and isinstance(x.value, ast.Call)
           and norm(x.value.func).endswith("spinorb_from_spatial")]
    ctor = [x for x in own_nodes(h.node) if isinstance(x, ast.Call) and norm(x.func).endswith("InteractionOperator")]
    if len(unp) != 1 or len(ctor) != 1 or len(ctor[0].args) != 3:
        raise AnalysisError("_get_fermionic_hamiltonian: spinorb_from_spatial / InteractionOperator assembly not recognised")
    n1, n2 = (norm(e) for e in unp[0].targets[0].elts)
    T1, T2 = sp.Symbol("h1_spinorb"), sp.Symbol("h2_spinorb")
    try:
        a1 = symx.to_sympy(resolve_local(h.node, ctor[0].args[1]) if norm(ctor[0].args[1]) not in (n1, n2) else ctor[0].args[1], {n1: T1, n2: T2})
        a2 = symx.to_sympy(resolve_local(h.node, ctor[0].args[2]) if norm(ctor[0].args[2]) not in (n1, n2) else ctor[0].args[2], {n1: T1, n2: T2})
    except symx.Untranslatable as e:
        raise AnalysisError(f"_get_fermionic_hamiltonian: InteractionOperator arguments not understood: {e}")
    ok = [norm(x) for x in unp[0].value.args] == ["one_body_integrals", "two_body_integrals"] and symx.equal(a1, T1) and symx.equal(a2, T2 / 2)
    rep.decide(ok, rule, h, ctor[0], text="restricted: InteractionOperator(core, h1_spinorb, 1/2 h2_spinorb)", what="the spin-orbital two-body tensor enters the operator with the factor 1/2",
               reason=f"one-body argument {a1}, two-body argument {a2}")
    halves = [x for x in own_nodes(g.node) if isinstance(x, ast.Assign) and isinstance(x.targets[0], ast.Subscript) and norm(x.targets[0].value) == "two_body_coefficients"]
    G = sp.Symbol("g")
    facs = []
    for x in halves:
        reads = [y for y in ast.walk(x.value) if isinstance(y, ast.Subscript) and isinstance(y.value, ast.Subscript) and norm(y.value.value) == "two_body_integrals"]
        if len(reads) != 1:
            raise AnalysisError(f"_get_molecular_hamiltonian_uhf: store {norm(x)} does not read exactly one integral")
        try:
            facs.append(sp.simplify(symx.to_sympy(x.value, {norm(reads[0]): G}) / G))
        except symx.Untranslatable as e:
            raise AnalysisError(f"_get_molecular_hamiltonian_uhf: {norm(x.value)} not understood: {e}")
    ok = len(halves) == 4 and all(fc == sp.Rational(1, 2) for fc in facs)
    rep.decide(ok, rule, g, halves[0] if halves else g.node, text="unrestricted: every two-body block enters with the factor 1/2 (aa, bb, abba, baab)",
               what="all four spin blocks are written, each halved", reason=f"{len(halves)} two-body stores, factors {facs}")
    nq = [x for x in own_nodes(g.node) if isinstance(x, ast.Assign) and norm(x.targets[0]) == "n_qubits"]
    ok = bool(nq)
    if ok:
        from ..consteval import Folder, Raised, Undecidable
        for na in range(1, 6):
            for nb in range(1, 6):
                try:
                    ok = ok and Folder(env={"n_orb_a": na, "n_orb_b": nb}).expr(nq[0].value) == 2 * max(na, nb)
                except (Undecidable, Raised) as e:
                    raise AnalysisError(f"_get_molecular_hamiltonian_uhf: register size {norm(nq[0].value)} not foldable: {e}")
    rep.decide(ok, rule, g, nq[0] if nq else g.node, text="register = 2 * max(n_alpha_orbitals, n_beta_orbitals)", what="the register holds every alpha and beta spin-orbital", reason="register size changed")


# ---------------------------------------------------------------------------------------------------
def check_fci_sector(idx: Index, rep: Report):
    """The classical reference must be solved in the target (n_alpha, n_beta) sector.  Every call that hands an electron count to the CI
    object (kernel, make_rdm1/2/12, and the CAS constructor) passes the pair built from the alpha and beta counts; a bare electron count is
    admissible only where `spin == 0` is established by an enclosing test (a bare count makes pyscf pick the lowest-|Sz| sector)."""
    rule = "K6.electron-sector"
    FCI = "tangelo/algorithms/classical/fci_solver.py"
    cls = idx.cls(f"{FCI}::FCISolverPySCF")
    n = 0
    for mname in ("__init__", "simulate", "get_rdm"):
        m = cls.methods[mname]
        parents = {}
        for node in ast.walk(m.node):
            for ch in ast.iter_child_nodes(node):
                parents[ch] = node
        for c in ast.walk(m.node):
            if not (isinstance(c, ast.Call) and isinstance(c.func, ast.Attribute)):
                continue
            f = norm(c.func)
            if not (f.startswith("self.cisolver.") and c.func.attr in ("kernel", "make_rdm1", "make_rdm2", "make_rdm12", "make_rdm1s", "make_rdm12s") or f.endswith("mcscf.CASSCF") or f.endswith("CASCI")):
                continue
            # the electron argument: the one whose text mentions nelec / n_alpha / n_beta
            cand = [resolve_local(m.node, a) for a in list(c.args) + [k.value for k in c.keywords]]
            cand = [a for a in cand if any(t in norm(a) for t in ("nelec", "n_alpha", "n_beta", "n_electrons"))]
            if len(cand) != 1:
                raise AnalysisError(f"{m.ref}: electron argument of {norm(c)[:60]} not identified")
            a = cand[0]
            pair = isinstance(a, ast.Tuple) and [norm(x) for x in a.elts] == ["self.n_alpha", "self.n_beta"]
            # enclosing tests establishing spin == 0
            guarded = False
            cur = c
            while cur in parents:
                par = parents[cur]
                if isinstance(par, ast.If) and norm(par.test) in ("self.spin == 0", "not self.spin", "self.spin == 0.0") and any(cur is x or cur in list(ast.walk(x)) for x in par.body):
                    guarded = True
                cur = par
            ok = pair or (norm(a) == "self.nelec" and guarded)
            n += 1
            rep.decide(ok, rule, m, c, text=f"{mname}: {f}(..., {norm(a)}){' under spin == 0' if guarded else ''}",
                       what="the CI object always works in the target (n_alpha, n_beta) sector: it gets the pair, or the bare count only where spin == 0 is established",
                       reason=f"{f} receives `{norm(a)}` without an enclosing `spin == 0` test: for spin >= 2 pyscf then solves the lowest-|Sz| sector, not the target one")
    rep.floor("CI calls with an electron argument", n, 4)
    # which CI implementation searches the sector: pyscf's direct_spin0 works with spin-symmetric (singlet) CI vectors only, so the Sz = 0 component of a
    # triplet ground state (C, CH2, O2) is outside its search space; direct_spin1 / direct_uhf / direct_nosym search the whole (n_alpha, n_beta) sector
    FULL = {"direct_spin1", "direct_uhf", "direct_nosym", "direct_spin1_symm", "selected_ci", "direct_spin1_cyl_sym"}
    SINGLET_ONLY = {"direct_spin0", "direct_spin0_symm", "selected_ci_spin0", "selected_ci_spin0_symm"}
    ctor_sites = [c for mname in ("__init__", "simulate", "get_rdm") for c in ast.walk(cls.methods[mname].node)
                  if isinstance(c, ast.Call) and isinstance(c.func, ast.Attribute) and c.func.attr == "FCI" and norm(c.func).startswith("fci.")]
    for c in ctor_sites:
        modname = norm(c.func).split(".")[1] if norm(c.func).count(".") >= 2 else ""
        if modname not in FULL | SINGLET_ONLY:
            raise AnalysisError(f"FCISolverPySCF: CI implementation {norm(c.func)} is not in the table of pyscf solvers with a known search space")
        rep.decide(modname in FULL, "K5.ci-search-space", cls.methods["__init__"], c, text=f"CI object {norm(c.func)}",
                   what="the CI implementation searches the whole (n_alpha, n_beta) sector, whose lowest state need not be a singlet",
                   reason=f"{norm(c.func)} is restricted to spin-symmetric (singlet) CI vectors: for a molecule whose lowest Sz = 0 state is a triplet component the energy "
                          f"returned lies above the lowest sector eigenvalue of the qubit Hamiltonian (and above what the frozen-orbital branch of the same class returns)")
    rep.floor("CI objects constructed", len(ctor_sites), 2)
    # the pair itself: n_alpha - n_beta = spin and n_alpha + n_beta = nelec (same closed form as the occupation vector)
    init = cls.methods["__init__"]
    asg = {norm(x.targets[0]): x.value for x in own_nodes(init.node) if isinstance(x, ast.Assign) and norm(x.targets[0]) in ("self.n_alpha", "self.n_beta")}
    if set(asg) != {"self.n_alpha", "self.n_beta"}:
        raise AnalysisError("FCISolverPySCF.__init__: n_alpha / n_beta assignments not found")
    from ..consteval import Folder, Raised, Undecidable
    bad = []
    for ne in range(0, 9):
        for spin in range(0, ne + 1):
            if (ne + spin) % 2:
                continue
            try:
                na = Folder(env={"self.nelec": ne, "self.spin": spin}).expr(asg["self.n_alpha"])
                nb = Folder(env={"self.nelec": ne, "self.spin": spin}).expr(asg["self.n_beta"])
            except (Undecidable, Raised) as e:
                raise AnalysisError(f"FCISolverPySCF: n_alpha / n_beta not foldable: {e}")
            if (na, nb) != ((ne + spin) // 2, (ne - spin) // 2):
                bad.append(f"nelec={ne}, spin={spin}: ({na}, {nb})")
    rep.decide(not bad, rule, init, init.node, text="(n_alpha, n_beta) = ((nelec + spin)/2, (nelec - spin)/2) for nelec 0..8 and every admissible spin",
               what="the sector handed to the CI object is the one with the requested electron number and spin projection", reason="; ".join(bad[:3]))


# ---------------------------------------------------------------------------------------------------
def check_frozen_partition(idx: Index, rep: Report):
    """convert_frozen_orbitals folded on stand-in molecules (occupation lists only): restricted and unrestricted references, frozen orbitals
    given as a count, a list, per-spin lists with *different* alpha and beta occupations and non-contiguous choices.  For each spin the four
    returned lists must partition the orbitals into (occupied|virtual) x (frozen|active) according to that spin's own occupations."""
    rule = "K9.frozen-partition"
    from ..consteval import Raised, Undecidable
    from ..rules.circuitsem import make_folder
    FO = "tangelo/toolboxes/molecular_computation/frozen_orbitals.py"
    f = idx.function(f"{FO}::convert_frozen_orbitals")

    class _Mol:
        _sa_model = True

        def __init__(self, uhf, mo_occ):
            self.uhf, self.mo_occ = uhf, mo_occ
            self.n_mos = len(mo_occ[0]) if uhf else len(mo_occ)
            self.ecp = {}

    def want_for(occ, frozen):
        occd = [i for i, o in enumerate(occ) if o > 0]
        virt = [i for i, o in enumerate(occ) if o == 0]
        fo_, fv_ = [i for i in frozen if i in occd], [i for i in frozen if i in virt]
        return [i for i in occd if i not in fo_], fo_, [i for i in virt if i not in fv_], fv_
    cases = [
        ("RHF, first orbital frozen (count)", _Mol(False, [2, 2, 0, 0]), 1),
        ("RHF, occupied and virtual frozen (list)", _Mol(False, [2, 2, 2, 0, 0]), [0, 4]),
        ("ROHF, non-contiguous list", _Mol(False, [2, 1, 1, 0, 0]), [0, 3]),
        ("RHF, nothing frozen", _Mol(False, [2, 0]), None),
        ("UHF, count", _Mol(True, [[1, 1, 0, 0], [1, 0, 0, 0]]), 1),
        ("UHF, per-spin lists, an orbital occupied for alpha and virtual for beta", _Mol(True, [[1, 1, 1, 0, 0], [1, 0, 0, 0, 0]]), [[0], [1]]),
        ("UHF, per-spin lists, different frozen virtuals", _Mol(True, [[1, 1, 0, 0, 0], [1, 0, 0, 0, 0]]), [[4], [1, 3]]),
        ("UHF, beta list empty", _Mol(True, [[1, 1, 0], [1, 0, 0]]), [[0], []]),
    ]
    for label, mol, frozen in cases:
        fo = make_folder(idx, FO)
        try:
            got = fo.run_function(f.node, {"sec_mol": mol, "frozen_orbitals": frozen})
        except Undecidable as e:
            raise AnalysisError(f"convert_frozen_orbitals not foldable ({label}): {e}")
        except Raised as e:
            rep.violation(rule, f, f.node, text=label, what="a valid choice of frozen orbitals is accepted", reason=f"raises {e.exc_type}")
            continue
        fr = frozen if frozen is not None else 0
        if mol.uhf:
            fl = [list(range(fr)), list(range(fr))] if isinstance(fr, int) else fr
            want = [want_for(mol.mo_occ[e], fl[e]) for e in range(2)]
            want = tuple([want[0][k], want[1][k]] for k in range(4))
        else:
            fl = list(range(fr)) if isinstance(fr, int) else fr
            want = tuple(want_for(mol.mo_occ, fl))
        ok = isinstance(got, tuple) and len(got) == 4 and all(list(map(list, g)) == list(map(list, w)) if mol.uhf else list(g) == list(w) for g, w in zip(got, want))
        rep.decide(ok, rule, f, f.node, text=f"{label}: active occupied / frozen occupied / active virtual / frozen virtual",
                   what="each spin's orbitals are split by that spin's own occupations: frozen orbitals that are occupied there count as frozen occupied, the others as frozen virtual, "
                        "everything else stays active",
                   reason=f"returns {got}, expected {want}")
