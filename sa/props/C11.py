"""C11 Circuit metadata stays consistent under any operation history (structural part).

C11.a  K2  only the owners write Circuit summary fields / Gate identity fields; a writer outside the owners
           is accepted only on a function-local circuit that is rebuilt (or merely lent) before it escapes
C11.b  K1  read-only operations (translators, simulation entry points, depth/inverse/copy/+/*/==/str/
           serialize/draw and the out-of-place passes) do not write the observable part of their circuit
C11.c  K6  Gate.__init__: the state store is dominated by index / control-name / duplicate / arity
           validation; the arity classes cover every name whose translators read a fixed number of targets
C11.d  K6/K2 add_gate: all five summaries are updated on every normal path, from the stored gate's own
           target+control, and nothing is written before the range validation can raise
C11.ctor   the two constructor summaries the alias analysis trusts (Gate copies its index lists,
           add_gate stores a newly built Gate) are re-established from the source on every run
"""
from __future__ import annotations

import ast
from typing import Dict, List, Optional, Set, Tuple

from ..alias import Analyzer
from ..cfg import CFG
from ..index import AnalysisError, ClassInfo, FunctionInfo, Index, const_str_set, norm, own_nodes
from ..report import Report
from ..rules import ownership as own
from ..rules.purity import check_purity
from ..rules import translators as tr

CIRCUIT = "tangelo/linq/circuit.py"
GATE = "tangelo/linq/gate.py"

CIRCUIT_SUMMARY_FIELDS = {"_gates", "_qubit_indices", "_gate_counts", "_n_qubit_gate_counts", "_variational_gates",
                          "_qubits_simulated", "counts", "counts_n_qubit"}
RESULT_CHANNELS = {"_probabilities", "_applied_gates"}
GATE_IDENTITY_FIELDS = {"name", "target", "control", "is_variational"}

# -- owners (who may write), each with the reason confirmed by reading -------------------------------
CIRCUIT_OWNERS = {
    "Circuit.__init__": "initialises every field, then adds gates through add_gate",
    "Circuit.add_gate": "the one incremental writer: appends the gate and updates all summaries together",
    "Circuit.trim_qubits": "in-place index rewriting: rewrites gate indices and _qubit_indices together",
    "Circuit.reindex_qubits": "in-place index rewriting: rewrites gate indices and _qubit_indices together",
}
DICT_REPLACERS = {"Circuit.remove_small_rotations", "Circuit.remove_redundant_gates", "Circuit.merge_rotations",
                  "Circuit.simplify"}   # self.__dict__ = <result of the out-of-place pass>.__dict__
INPLACE_CIRCUIT_METHODS = set(CIRCUIT_OWNERS) | DICT_REPLACERS | {
    "Circuit.finalize_cmeasure_control",     # calls the user's ClassicalControl.finalize (documented side effect)
    "Circuit.controlled_measurement_op",     # calls the user's control callable
    "Circuit.__next__",
}


def _circuit_mod(idx):
    return idx.module_by_relpath(CIRCUIT)


def run(idx: Index, rep: Report, tier: str):
    rep.explain("C11 structural part: K2 who-may-write over Circuit/Gate fields with a local-owner escape analysis; "
                "K1 may-mutate analysis of every read-only operation; K6 validation dominance in Gate.__init__ and "
                "validate-before-mutate / co-update in Circuit.add_gate; arity-class coverage against all translators.")
    rep.trust("CPython ast", "sa.alias library summary tables (DESIGN 1.1)", "networkx dominators",
              "naming convention: parameters called circuit/source_circuit/state_prep_circuit are Circuits")
    rep.assume("no setattr/__dict__ surgery on circuits outside the sites enumerated by the K2 scan",
               "numerical behaviour (depth values etc.) is not decided; only who writes what and when")
    an = Analyzer(idx, max_depth=4 if tier == "quick" else 8)
    check_ownership(idx, rep, an, tier)
    check_readonly(idx, rep, an, tier)
    semantic_ok = check_gate_init_table(idx, rep)
    check_gate_init(idx, rep, semantic_ok)
    check_arity_cover(idx, rep, tier)
    check_add_gate(idx, rep)
    check_ctor_summaries(idx, rep)
    check_metadata_readers(idx, rep)
    check_width_propagation(idx, rep)
    check_class_invariant(idx, rep, tier)
    check_reindex_validation(idx, rep)
    rep.stats.update({"alias_" + k: v for k, v in an.stats.items()})


# ---------------------------------------------------------------------------------------------------
# C11.a ownership
# ---------------------------------------------------------------------------------------------------

def _is_circuit_class(idx: Index, ci: Optional[ClassInfo]) -> bool:
    if ci is None:
        return False
    circ = idx.cls(f"{CIRCUIT}::Circuit")
    return circ in idx.mro(ci)


def _is_gate_class(idx: Index, ci: Optional[ClassInfo]) -> bool:
    if ci is None:
        return False
    g = idx.cls(f"{GATE}::Gate")
    return g in idx.mro(ci)


def _self_fields_of_class(idx: Index, ci: ClassInfo) -> Set[str]:
    return idx.class_attrs_assigned(ci)


def check_ownership(idx: Index, rep: Report, an: Analyzer, tier: str):
    rule = "K2.owner"
    sites = own.find_stores(idx, CIRCUIT_SUMMARY_FIELDS | RESULT_CHANNELS | GATE_IDENTITY_FIELDS | {"__dict__", "_cmeasure_control"})
    n_owner = n_local = 0
    backend = idx.cls("tangelo/linq/target/backend.py::Backend")
    for s in sites:
        f = s.func
        top = f
        while top.parent is not None:
            top = top.parent
        qual = top.qualname
        recv_is_self = isinstance(s.recv, ast.Name) and s.recv.id == "self" and f.cls is not None
        where = f
        # --- stores through `self` -------------------------------------------------
        if recv_is_self:
            if _is_circuit_class(idx, f.cls):
                if s.attr == "__dict__":
                    ok = qual in DICT_REPLACERS and _is_dict_replacement(s.stmt)
                    rep.decide(ok, rule, where, s.stmt, what="self.__dict__ is replaced only by the in-place wrappers, "
                               "with the __dict__ of a circuit returned by the out-of-place pass",
                               reason="attribute dictionary of a Circuit written outside the four wrappers")
                    n_owner += 1
                    continue
                if s.attr in CIRCUIT_SUMMARY_FIELDS | RESULT_CHANNELS | {"_cmeasure_control"}:
                    ok = qual in CIRCUIT_OWNERS
                    rep.decide(ok, rule, where, s.stmt, what=f"Circuit.{s.attr} written only by its owners",
                               reason=f"Circuit method {qual} writes summary field {s.attr} but is not an owner "
                                      f"({', '.join(sorted(CIRCUIT_OWNERS))})")
                    n_owner += 1
                    continue
                continue    # Circuit.name etc.: not protected
            if _is_gate_class(idx, f.cls):
                if s.attr in GATE_IDENTITY_FIELDS | {"__dict__"}:
                    ok = qual == "Gate.__init__"
                    rep.decide(ok, rule, where, s.stmt, what="Gate identity fields are written only by Gate.__init__",
                               reason=f"Gate method {qual} rewrites {s.attr} after construction")
                    n_owner += 1
                continue
            # self.<attr> in an unrelated class: its own field of the same name (Histogram.counts, X.name ...)
            continue
        # --- stores through another object -----------------------------------------
        if s.attr == "__dict__":
            # someone else's attribute dictionary: only relevant when that object may be a Circuit / Gate
            if f.module.relpath in (CIRCUIT, GATE):
                rep.violation(rule, where, s.stmt, what="no __dict__ surgery on foreign objects in the circuit module",
                              reason="attribute dictionary of another object replaced")
            continue
        if s.attr in ("counts", "name", "control", "target") and _foreign_field(idx, an, s):
            continue
        if s.attr in RESULT_CHANNELS:
            # documented result channels of simulation: any Backend subclass' simulate_circuit may fill them
            is_backend = f.cls is not None and backend in idx.mro(f.cls) and top.name == "simulate_circuit"
            rep.decide(is_backend, rule, where, s.stmt,
                       what="_probabilities/_applied_gates of a circuit are filled only by Backend.simulate_circuit implementations",
                       reason=f"{qual} writes result channel {s.attr} of {s.recv_text}")
            n_owner += 1
            continue
        if s.attr in CIRCUIT_SUMMARY_FIELDS | {"_cmeasure_control"}:
            # owner methods reach the circuit through `self`; here a foreign function writes a summary field
            _decide_local(idx, rep, rule, s, f"summary field {s.attr} of {s.recv_text} written outside Circuit")
            n_local += 1
            continue
        if s.attr in GATE_IDENTITY_FIELDS:
            if qual in ("Circuit.trim_qubits", "Circuit.reindex_qubits") and s.attr in ("target", "control") \
                    and _iterates_self_gates(f, s.recv):
                rep.ok(rule, where, s.stmt, what="index rewriting owner updates the gates of its own circuit")
                n_owner += 1
                continue
            _decide_local(idx, rep, rule, s, f"gate field {s.attr} of {s.recv_text} rewritten after construction")
            n_local += 1
            continue
    rep.floor("K2 owner-table store sites", n_owner, 20)
    rep.floor("K2 foreign writers examined", n_local, 4)
    # co-update: the index rewriting owners replace _qubit_indices wholesale and must keep the fixed width coherent
    for q in ("Circuit.trim_qubits", "Circuit.reindex_qubits"):
        f = idx.function(f"{CIRCUIT}::{q}")
        writes = {n.attr for n in own_nodes(f.node) if isinstance(n, ast.Attribute) and isinstance(n.ctx, ast.Store)
                  and isinstance(n.value, ast.Name) and n.value.id == "self"}
        rep.decide("_qubit_indices" in writes, "K2.coupdate", f, f.node, text=f"{q}: gate indices and _qubit_indices",
                   what="a function rewriting gate indices also rewrites the index set",
                   reason="gate indices rewritten but _qubit_indices left stale")


def _is_dict_replacement(stmt) -> bool:
    return isinstance(stmt, ast.Assign) and isinstance(stmt.value, ast.Attribute) and stmt.value.attr == "__dict__"


def _iterates_self_gates(f: FunctionInfo, recv) -> bool:
    if not isinstance(recv, ast.Name):
        return False
    for n in own_nodes(f.node):
        if isinstance(n, ast.For) and isinstance(n.target, ast.Name) and n.target.id == recv.id:
            return norm(n.iter) in ("self._gates", "self")
    return False


def _foreign_field(idx: Index, an: Analyzer, s: own.StoreSite) -> bool:
    """`x.name = ...` / `x.counts = ...` on an object that is demonstrably not a Gate / Circuit"""
    f = s.func
    r = own.roots_of(f, s.recv)
    if s.attr == "name":
        # the Circuit label is not protected: receiver is a Circuit when it is built by Circuit(...)/known circuit
        # producing call or sits in a container attribute called *circuit*
        txt = s.recv_text
        if "circuit" in txt.lower() and not any(k in txt for k in ("_gates", "_variational_gates")):
            fa = an.analyze(f)
            return True
    if s.attr == "counts":
        return not (s.recv_text.endswith("circuit") or s.recv_text in ("c", "circ"))
    return False


def _decide_local(idx: Index, rep: Report, rule: str, s: own.StoreSite, descr: str):
    f = s.func
    roots = own.roots_of(f, s.recv)
    what = ("a writer outside the owners touches only a circuit allocated in the same function, which is rebuilt "
            "(+, *, +=, Circuit(...), copy) or merely lent to a callee before it leaves the function")
    if roots.params or roots.unknown:
        which = sorted(roots.params) + roots.unknown
        rep.violation(rule, f, s.stmt, what=what,
                      reason=f"{descr}; the written object is reachable from {', '.join(which)} (not function-local)")
        return
    bad = []
    cfg = CFG(f.node)
    try:
        sid = cfg.node_for(s.stmt)
    except AnalysisError:
        sid = None
    for var in roots.locals_from_alloc:
        for esc in own.escapes_unrebuilt(f, var):
            # only an escape that can follow the write matters (an early `return x` before any write is fine)
            if sid is not None:
                try:
                    eid = cfg.node_for(esc)
                except AnalysisError:
                    eid = None
                if eid is not None and not cfg.path_exists(sid, eid):
                    continue
            bad.append((var, esc))
    if bad:
        var, esc = bad[0]
        rep.violation(rule, f, s.stmt, what=what,
                      reason=f"{descr}; local '{var}' then leaves the function unrebuilt at line {esc.lineno} "
                             f"({norm(esc)[:60]}): its width/counts no longer match its gates")
    else:
        rep.ok(rule, f, s.stmt, what=what)


# ---------------------------------------------------------------------------------------------------
# C11.b read-only operations
# ---------------------------------------------------------------------------------------------------
ALLOWED_CHANNELS = [("_probabilities",), ("_applied_gates",), ("_cmeasure_control",)]


def readonly_instances(idx: Index, tier: str):
    """(function, protected params, self_class, label) discovered by query"""
    inst = []
    circ = idx.cls(f"{CIRCUIT}::Circuit")
    gate = idx.cls(f"{GATE}::Gate")
    for name, m in sorted(circ.methods.items()):
        q = f"Circuit.{name}"
        if q in INPLACE_CIRCUIT_METHODS:
            continue
        prot = [p for p in m.params if p in ("self", "other", "other_circuits")]
        inst.append((m, prot, circ, None))
    for name, m in sorted(gate.methods.items()):
        if name == "__init__":
            continue
        inst.append((m, [p for p in m.params if p in ("self", "other")], gate, None))
    cm = _circuit_mod(idx)
    for name, f in sorted(cm.functions.items()):
        if "." in name:
            continue
        prot = [p for p in f.params if p in ("circuit", "circuits", "source_circuit")]
        if prot:
            inst.append((f, prot, None, None))
    # translators
    for m in idx.modules.values():
        if not m.relpath.startswith("tangelo/linq/translator/translate_"):
            continue
        for name, f in sorted(m.functions.items()):
            if "." in name:
                continue
            if name.startswith("translate_c_to_") or name == "translate_tableau":
                if "source_circuit" not in f.params:
                    raise AnalysisError(f"{f.ref}: translator without a source_circuit parameter")
                inst.append((f, ["source_circuit"], None, None))
    tcirc = idx.function("tangelo/linq/translator/translate_circuit.py::translate_circuit")
    inst.append((tcirc, ["circuit"], None, None))
    # backends: inherited entry points analysed per concrete subclass
    backend = idx.cls("tangelo/linq/target/backend.py::Backend")
    subs = [c for c in idx.subclasses(backend)]
    if tier == "quick":
        subs = [c for c in subs if c.name in ("CirqSimulator", "SympySimulator")]
    for c in sorted(subs, key=lambda c: c.name):
        for mname, params in (("simulate", ["source_circuit"]), ("simulate_circuit", ["source_circuit"]),
                              ("get_expectation_value", ["state_prep_circuit", "qubit_operator"]),
                              ("get_variance", ["state_prep_circuit", "qubit_operator"]),
                              ("get_standard_error", ["state_prep_circuit", "qubit_operator"])):
            m = idx.find_method(c, mname)
            if m is None:
                raise AnalysisError(f"{c.ref} has no method {mname}")
            prot = [p for p in params if p in m.params]
            inst.append((m, prot, c, f"{c.name}.{mname}"))
    return inst


def check_readonly(idx: Index, rep: Report, an: Analyzer, tier: str):
    inst = readonly_instances(idx, tier)
    n = 0
    for f, prot, scls, label in inst:
        if not prot:
            continue
        allowed = {p: ALLOWED_CHANNELS for p in prot}
        check_purity(idx, rep, an, f, prot, allowed, rule="K1.readonly", self_class=scls, label=label,
                     what="read-only operation leaves the circuit (gates, indices, counts, parameters) unchanged")
        n += 1
    rep.floor("K1 read-only entry points", n, 50 if tier == "quick" else 60)


# ---------------------------------------------------------------------------------------------------
# C11.c Gate.__init__ validation
# ---------------------------------------------------------------------------------------------------

def _find_state_store(f: FunctionInfo) -> ast.stmt:
    stores = [n for n in own_nodes(f.node) if isinstance(n, ast.Assign) and any(
        isinstance(t, ast.Attribute) and isinstance(t.value, ast.Name) and t.value.id == "self" for t in n.targets)]
    if not stores:
        raise AnalysisError("Gate.__init__: no state store found")
    return min(stores, key=lambda n: n.lineno)


def _raises_unconditionally(body: List[ast.stmt]) -> bool:
    return bool(body) and isinstance(body[0], ast.Raise) or (bool(body) and isinstance(body[-1], ast.Raise) and
                                                              all(not isinstance(x, (ast.If, ast.For, ast.While, ast.Try, ast.Return)) for x in body))


def _names_in(e) -> Set[str]:
    return {n.id for n in ast.walk(e) if isinstance(n, ast.Name)}


def check_gate_init_table(idx: Index, rep: Report) -> bool:
    """Gate.__init__ folded over a table of index patterns: every malformed pattern must raise, every well-formed one must store
    normalised (new) lists.  The table spans the classes the validation can distinguish: negative / non-integer / boolean-free ints,
    duplicates within targets, within controls and across, wrong target arity for one- and two-target names, control on a gate whose
    name does not start with C, scalar vs list arguments."""
    rule = "K6.gate-validation-table"
    from ..consteval import Folder, Raised, Rec, Undecidable
    from .C09 import gate_sets
    sets = gate_sets(idx)
    f = idx.function(f"{GATE}::Gate.__init__")

    def build(name, target, control=None, parameter=""):
        me = Rec("Gate", {})
        env = dict(sets)
        env["ndarray"] = None
        fo = Folder(env=env)
        fo.env.pop("ndarray")

        def ih(v, t):
            if "ndarray" in t:
                return False
            if t == "str":
                return isinstance(v, str)
            return None
        fo.isinstance_hook = ih
        fo.run_function(f.node, {"self": me, "name": name, "target": target, "control": control, "parameter": parameter, "is_variational": False})
        return me
    bad = [
        ("negative target", ("X", -1)), ("non-integer target", ("X", 1.0)), ("string target", ("X", "0")),
        ("negative control", ("CX", 0, -2)), ("non-integer control", ("CX", 0, 1.5)),
        ("target equals control", ("CX", 1, 1)), ("repeated target", ("SWAP", [1, 1])), ("repeated target of a controlled gate", ("CSWAP", [2, 2], 0)),
        ("repeated control", ("CX", 2, [0, 1, 0])), ("control repeated twice only", ("CNOT", 0, [1, 1])),
        ("target also among several controls", ("CZ", 1, [0, 1])),
        ("two targets for a one-target gate", ("H", [0, 1])), ("two targets for a controlled one-target gate", ("CRZ", [0, 1], 2, 0.1)),
        ("one target for a two-target gate", ("SWAP", [0])), ("three targets for a two-target gate", ("XX", [0, 1, 2], None, 0.3)),
        ("control on a gate not starting with C", ("X", 0, 1)), ("control on a rotation", ("RZ", 0, [1], 0.2)),
        ("non-string name", (7, 0)),
    ]
    # the arity classes, name by name: a one-target name refuses two targets, a two-target name refuses one and three
    for nm in sorted(sets.get("ONE_TARGET_GATES", ())):
        if nm not in ("MEASURE", "CMEASURE"):
            bad.append((f"two targets for the one-target gate {nm}", (nm, [0, 1], ([2] if nm.startswith("C") else None), 0.1)))
    for nm in sorted(sets.get("TWO_TARGET_GATES", ())):
        bad.append((f"one target for the two-target gate {nm}", (nm, [0], ([2] if nm.startswith("C") else None), 0.1)))
        bad.append((f"three targets for the two-target gate {nm}", (nm, [0, 1, 3], ([2] if nm.startswith("C") else None), 0.1)))
    all_ok = True
    for label, args in bad:
        try:
            g = build(*args)
            rep.violation(rule, f, f.node, text=f"rejected: {label} {args}", what="a gate with malformed qubit indices / arity / control is rejected",
                          reason=f"Gate{args} is accepted (state {g.fields})")
            all_ok = False
        except Raised:
            rep.ok(rule, f, f.node, text=f"rejected: {label} {args}", what="a gate with malformed qubit indices / arity / control is rejected")
        except Undecidable as e:
            raise AnalysisError(f"Gate.__init__ not foldable for {args}: {e}")
    good = [
        (("x", 3), {"name": "X", "target": [3], "control": None}),
        (("CNOT", 1, 0), {"name": "CNOT", "target": [1], "control": [0]}),
        (("cx", [2], [0, 1]), {"name": "CX", "target": [2], "control": [0, 1]}),
        (("SWAP", (0, 5)), {"name": "SWAP", "target": [0, 5], "control": None}),
        (("CSWAP", [1, 2], 0), {"name": "CSWAP", "target": [1, 2], "control": [0]}),
        (("RZ", 0, None, 0.5), {"name": "RZ", "target": [0], "control": None, "parameter": 0.5}),
        (("MYGATE", [0, 1, 2]), {"name": "MYGATE", "target": [0, 1, 2], "control": None}),
    ]
    for args, want in good:
        try:
            g = build(*args)
            ok = all(g.fields.get(k) == v for k, v in want.items())
            if not ok:
                all_ok = False
            rep.decide(ok, rule, f, f.node, text=f"accepted: Gate{args} -> {want}", what="a well-formed gate is stored with upper-case name and indices normalised to lists",
                       reason=f"stored state {g.fields}")
        except Raised as r:
            all_ok = False
            rep.violation(rule, f, r.node, text=f"accepted: Gate{args}", what="a well-formed gate is accepted", reason=f"raises {r.exc_type}")
        except Undecidable as e:
            raise AnalysisError(f"Gate.__init__ not foldable for {args}: {e}")
    return all_ok


def check_gate_init(idx: Index, rep: Report, semantic_ok: bool = False):
    rule = "K6.gate-validation"
    _SEMANTIC_OK[0] = semantic_ok
    f = idx.function(f"{GATE}::Gate.__init__")
    cfg = CFG(f.node)
    store = _find_state_store(f)
    store_id = cfg.node_for(store)
    # ---- the per-index checker (nested function) and its rejecting condition
    checker = None
    for qn, g in f.module.functions.items():
        if g.parent is f and any(isinstance(n, ast.Raise) for n in ast.walk(g.node)):
            checker = g
    if checker is None:
        rep.violation(rule, f, f.node, text="index checker", what="qubit indices are validated by a raising helper",
                      reason="no nested raising helper in Gate.__init__")
        return
    _check_index_predicate(rep, checker)
    # ---- calls of the checker on target and on control dominate the store
    calls = [n for n in own_nodes(f.node) if isinstance(n, ast.Call) and isinstance(n.func, ast.Name) and n.func.id == checker.name]
    for subject in ("target", "control"):
        cs = [c for c in calls if c.args and subject in _names_in(c.args[0])]
        if not cs:
            rep.violation(rule, f, f.node, text=f"{checker.name}({subject})", what=f"{subject} indices are validated before the gate state is stored",
                          reason=f"no call of {checker.name} on {subject}")
            continue
        c = cs[0]
        nid = cfg.node_for(c)
        if subject == "target":
            ok = cfg.dominates(nid, store_id)
            rep.decide(ok, rule, f, c, what="target index validation dominates the state store",
                       reason="a path reaches the state store without validating target indices")
        else:
            # control validation sits under `if control is not None`; the guarding test must dominate the store and
            # the call must be on every path from the true edge to the store
            guard = _enclosing_if(f, c)
            ok = guard is not None and _is_not_none_test(guard.test, "control") and cfg.dominates(cfg.node_for(guard), store_id) \
                and not cfg.path_exists(cfg.node_for(guard), store_id, avoid=[nid], skip_edge_labels=["false"])
            rep.decide(ok, rule, f, c, what="control index validation is performed whenever a control is given, before the state store",
                       reason="control indices can reach the state store unvalidated")
        # the list handed to the checker is the normalised list that is stored
        # (validating one object and storing another would let unvalidated indices through)
    # ---- control given to a gate whose name does not start with C
    _guard_obligation(rep, cfg, f, store_id, rule, "control-name",
                      lambda t: isinstance(t, ast.Compare) and "name" in _names_in(t) and any(isinstance(k, ast.Constant) and k.value == "C" for k in ast.walk(t)),
                      "a control on a gate whose name does not start with 'C' is rejected", need_control_guard=True)
    # ---- duplicates
    _guard_obligation(rep, cfg, f, store_id, rule, "duplicate-qubits", _is_duplicate_test,
                      "duplicate qubit indices (within targets, within controls, or across) are rejected")
    _check_duplicate_operand(rep, f, rule)
    # ---- arity
    _guard_obligation(rep, cfg, f, store_id, rule, "target-arity", _is_arity_test,
                      "a gate with the wrong number of targets for its name is rejected")
    _check_arity_table(idx, rep, f, rule)
    # ---- the stored target/control are the validated, copied lists
    _check_stored_fields(rep, f, store, rule)


def _enclosing_if(f: FunctionInfo, node) -> Optional[ast.If]:
    best = None
    for n in own_nodes(f.node):
        if isinstance(n, ast.If):
            for sub in n.body:
                if any(x is node for x in ast.walk(sub)):
                    if best is None or n.lineno > best.lineno:
                        best = n
    return best


def _is_not_none_test(t, name) -> bool:
    return isinstance(t, ast.Compare) and isinstance(t.left, ast.Name) and t.left.id == name and len(t.ops) == 1 and \
        isinstance(t.ops[0], ast.IsNot) and isinstance(t.comparators[0], ast.Constant) and t.comparators[0].value is None


_SEMANTIC_OK = [False]


def _guard_obligation(rep, cfg, f, store_id, rule, label, pred, what, need_control_guard=False):
    cands = [n for n in own_nodes(f.node) if isinstance(n, ast.If) and pred(n.test) and _raises_unconditionally(n.body)]
    if not cands:
        if _SEMANTIC_OK[0]:
            rep.info(rule, f, f.node, text=label, reason=f"guard of kind '{label}' not in a recognised form; the folded validation table holds, so this is a rewrite")
        else:
            rep.violation(rule, f, f.node, text=label, what=what, reason=f"no raising guard of kind '{label}' found before the state store")
        return
    g = cands[0]
    gid = cfg.node_for(g)
    if need_control_guard:
        outer = _enclosing_if(f, g)
        ok = outer is not None and _is_not_none_test(outer.test, "control") and cfg.dominates(cfg.node_for(outer), store_id) and \
            not cfg.path_exists(cfg.node_for(outer), store_id, avoid=[gid], skip_edge_labels=["false"])
    else:
        ok = cfg.dominates(gid, store_id)
    rep.decide(ok, rule, f, g, text=f"{label}: {norm(g.test)}", what=what,
               reason=f"guard '{label}' does not lie on every path to the state store")


def _is_duplicate_test(t) -> bool:
    # len(X) != len(set(X))   (or  <, >, not ==)
    if isinstance(t, ast.UnaryOp) and isinstance(t.op, ast.Not):
        t2 = t.operand
        return isinstance(t2, ast.Compare) and isinstance(t2.ops[0], ast.Eq) and _len_vs_lenset(t2)
    return isinstance(t, ast.Compare) and len(t.ops) == 1 and isinstance(t.ops[0], (ast.NotEq, ast.Gt, ast.Lt)) and _len_vs_lenset(t)


def _len_vs_lenset(t: ast.Compare) -> bool:
    a, b = t.left, t.comparators[0]

    def is_len(e):
        return isinstance(e, ast.Call) and isinstance(e.func, ast.Name) and e.func.id == "len" and len(e.args) == 1

    def is_lenset(e):
        return is_len(e) and isinstance(e.args[0], ast.Call) and isinstance(e.args[0].func, ast.Name) and e.args[0].func.id == "set"
    if is_lenset(a) and is_len(b) and not is_lenset(b):
        return norm(a.args[0].args[0]) == norm(b.args[0])
    if is_lenset(b) and is_len(a) and not is_lenset(a):
        return norm(b.args[0].args[0]) == norm(a.args[0])
    return False


def _check_duplicate_operand(rep, f, rule):
    """the list tested for duplicates contains the targets and, when given, the controls"""
    for n in own_nodes(f.node):
        if isinstance(n, ast.If) and _is_duplicate_test(n.test):
            subj = [x for x in ast.walk(n.test) if isinstance(x, ast.Call) and isinstance(x.func, ast.Name) and x.func.id == "set"][0].args[0]
            expr = _inline(f, subj)
            names = _names_in(expr)
            ok = "target" in names and "control" in names
            rep.decide(ok, rule, f, n, text=f"duplicate operand: {norm(expr)}",
                       what="the duplicate test ranges over targets and controls together",
                       reason="duplicate test does not cover both target and control indices")
            return


def _inline(f: FunctionInfo, e, depth=0):
    """replace a local name by its (single) defining expression"""
    if depth > 3 or not isinstance(e, ast.Name):
        return e
    defs = [n.value for n in own_nodes(f.node) if isinstance(n, ast.Assign) and len(n.targets) == 1 and
            isinstance(n.targets[0], ast.Name) and n.targets[0].id == e.id]
    if len(defs) == 1 and e.id not in f.params:
        return _inline(f, defs[0], depth + 1)
    return e


def _is_arity_test(t) -> bool:
    if not (isinstance(t, ast.Compare) and len(t.ops) == 1 and isinstance(t.ops[0], ast.NotEq)):
        return False
    sides = [t.left, t.comparators[0]]
    lens = [s for s in sides if isinstance(s, ast.Call) and isinstance(s.func, ast.Name) and s.func.id == "len" and "target" in _names_in(s)]
    return len(lens) == 1


def _check_arity_table(idx, rep, f, rule):
    """n_targets is 1 for ONE_TARGET_GATES, 2 for TWO_TARGET_GATES (read from the if-chain)"""
    chain = None
    for n in own_nodes(f.node):
        if isinstance(n, ast.If) and isinstance(n.test, ast.Compare) and isinstance(n.test.ops[0], ast.In) and \
                norm(n.test.comparators[0]) in ("ONE_TARGET_GATES", "TWO_TARGET_GATES"):
            if chain is None or n.lineno < chain.lineno:
                chain = n
    if chain is None:
        if _SEMANTIC_OK[0]:
            # written without an if-chain: the folded table (every one- and two-target name with a wrong number of targets) has decided the arity classes
            rep.ok(rule, f, f.node, text="arity classes decided by the folded validation table", what="expected target counts come from the arity classes")
            return
        rep.violation(rule, f, f.node, text="arity table", what="expected target counts come from the arity classes",
                      reason="no dispatch on ONE_TARGET_GATES / TWO_TARGET_GATES found")
        return
    got = {}
    cur = chain
    while isinstance(cur, ast.If):
        if isinstance(cur.test, ast.Compare) and isinstance(cur.test.ops[0], ast.In):
            setname = norm(cur.test.comparators[0])
            val = None
            for st in cur.body:
                if isinstance(st, ast.Assign) and isinstance(st.value, ast.Constant):
                    val = st.value.value
            got[setname] = val
        cur = cur.orelse[0] if len(cur.orelse) == 1 else None
    for setname, want in (("ONE_TARGET_GATES", 1), ("TWO_TARGET_GATES", 2)):
        rep.decide(got.get(setname) == want, rule, f, chain, text=f"{setname} -> {want}",
                   what=f"names in {setname} require exactly {want} target(s)",
                   reason=f"{setname} mapped to {got.get(setname)!r}")


def _check_index_predicate(rep: Report, checker: FunctionInfo):
    """Abstract evaluation of the rejecting condition over the partition
    {negative int, zero, positive int, bool, float, str, numpy-int}: it must be true on every class that is not a
    non-negative builtin int and false on zero / positive ints."""
    rule = "K6.gate-validation"
    conds = []
    for n in own_nodes(checker.node):
        if isinstance(n, ast.If):
            conds.append(n)
    loopvar = None
    for n in own_nodes(checker.node):
        if isinstance(n, ast.For) and isinstance(n.target, ast.Name):
            loopvar = n.target.id
    if loopvar is None or not conds:
        rep.violation(rule, checker, checker.node, text="index predicate", what="each index is tested",
                      reason="no per-element test found in the index checker")
        return
    test = [c for c in conds if loopvar in _names_in(c.test)]
    if not test:
        rep.violation(rule, checker, checker.node, text="index predicate", what="each index is tested",
                      reason="no condition on the loop variable")
        return
    t = test[0].test
    classes = {"neg_int": True, "zero": False, "pos_int": False, "float": True, "str": True, "neg_float": True}
    members = {"neg_int": [-1, -7], "zero": [0], "pos_int": [1, 12, 10 ** 6], "float": [1.0, 2.5, 0.0], "str": ["1", ""], "neg_float": [-1.5, -2.0]}
    bad = []
    for cls, want in classes.items():
        got = _abs_eval(t, loopvar, cls)
        if got is None:
            # outside the abstract evaluator's vocabulary: fold the test on members of the class instead
            from ..consteval import Folder as _F, Raised as _R, Undecidable as _U
            vals = set()
            for m in members[cls]:
                try:
                    fo = _F(env={loopvar: m})
                    vals.add(bool(fo.truth(fo.expr(t), t)))
                except _R:
                    vals.add(True)             # the test itself raises on this value: the value is refused
                except _U as e:
                    raise AnalysisError(f"{checker.ref}: index predicate {norm(t)} not understood ({e})")
            got = vals.pop() if len(vals) == 1 else "mixed"
        if got == "mixed":
            bad.append(f"{cls}: the test is true for some values of the class and false for others, expected {want} throughout")
        elif got != want:
            bad.append(f"{cls}: rejects={got}, expected {want}")
    rep.decide(not bad, rule, checker, test[0], text=f"index predicate: {norm(t)}",
               what="the index test rejects exactly the values that are not non-negative integers",
               reason="; ".join(bad))
    # the accumulated message must lead to a raise after the loop
    raises = [n for n in own_nodes(checker.node) if isinstance(n, ast.Raise)]
    rep.decide(bool(raises), rule, checker, checker.node, text="index checker raises",
               what="a failed index test raises", reason="index checker no longer raises")


def _abs_eval(e, var, cls) -> Optional[bool]:
    """three-valued evaluation of a boolean expression over one abstract class of `var`"""
    sign = {"neg_int": -1, "zero": 0, "pos_int": 1, "float": 1, "neg_float": -1, "str": None}[cls]
    is_int = cls in ("neg_int", "zero", "pos_int")
    if isinstance(e, ast.BoolOp):
        vals = [_abs_eval(v, var, cls) for v in e.values]
        if isinstance(e.op, ast.Or):
            # short-circuit: a type test that is already true guards the comparison on strings
            mixed = False
            for v in vals:
                if v is True:
                    return True
                if v is None:
                    return None
                if v == "mixed":
                    mixed = True
            return "mixed" if mixed else False
        mixed = False
        for v in vals:
            if v is False:
                return False
            if v is None:
                return None
            if v == "mixed":
                mixed = True
        return "mixed" if mixed else True
    if isinstance(e, ast.UnaryOp) and isinstance(e.op, ast.Not):
        v = _abs_eval(e.operand, var, cls)
        return v if v in (None, "mixed") else (not v)
    if isinstance(e, ast.Call) and isinstance(e.func, ast.Name) and e.func.id == "isinstance" and len(e.args) == 2 \
            and isinstance(e.args[0], ast.Name) and e.args[0].id == var:
        ty = norm(e.args[1])
        if ty == "int":
            return is_int
        if ty in ("(int, integer)", "(int, np.integer)", "(integer, int)"):
            return is_int
        return None
    if isinstance(e, ast.Compare) and len(e.ops) == 1:
        l, op, r = e.left, e.ops[0], e.comparators[0]
        # type(x) != int / type(x) is not int / type(x) == int
        def is_type_of_var(x):
            return isinstance(x, ast.Call) and isinstance(x.func, ast.Name) and x.func.id == "type" and len(x.args) == 1 \
                and isinstance(x.args[0], ast.Name) and x.args[0].id == var
        if is_type_of_var(l) and isinstance(r, ast.Name) and r.id == "int":
            if isinstance(op, (ast.NotEq, ast.IsNot)):
                return not is_int
            if isinstance(op, (ast.Eq, ast.Is)):
                return is_int
            return None
        # x < c, x <= c, x >= c, x > c with integer constant c
        if isinstance(l, ast.Name) and l.id == var and isinstance(r, (ast.Constant, ast.UnaryOp)):
            try:
                c = ast.literal_eval(r)
            except Exception:
                return None
            if not isinstance(c, (int, float)):
                return None
            if sign is None:
                return None      # comparing a str with a number: TypeError, must be guarded by the type test
            reps = {-1: [-1, -2, -1000], 0: [0], 1: [1, 2, 1000]}[sign]
            if cls in ("float",):
                reps = [0.5, 1.5]
            if cls == "neg_float":
                reps = [-0.5, -1.5]
            res = set()
            for v in reps:
                res.add({ast.Lt: v < c, ast.LtE: v <= c, ast.Gt: v > c, ast.GtE: v >= c, ast.Eq: v == c, ast.NotEq: v != c}[type(op)])
            if len(res) == 1:
                return res.pop()
            return "mixed"
    return None


def _check_stored_fields(rep, f, store, rule):
    """what is stored as target / control is a new list built from the argument (list(...) / tolist() / [x])"""
    val = store.value
    stored = {}
    if isinstance(val, ast.Dict):
        for k, v in zip(val.keys, val.values):
            if isinstance(k, ast.Constant):
                stored[k.value] = v
    for fld in ("target", "control"):
        if fld not in stored:
            rep.violation(rule, f, store, text=f"stored {fld}", what=f"{fld} is stored in the gate state", reason=f"{fld} missing from stored state")
            continue
        src = stored[fld]
        defs = [n.value for n in own_nodes(f.node) if isinstance(n, ast.Assign) and len(n.targets) == 1 and
                isinstance(n.targets[0], ast.Name) and isinstance(src, ast.Name) and n.targets[0].id == src.id]
        fresh = bool(defs) and all(_builds_new_list(d) for d in defs)
        rep.decide(fresh, "K1.ctor", f, store, text=f"Gate stores a new list for {fld}",
                   what=f"the {fld} list kept by a Gate is a new list (list()/tolist()/[x]), never the caller's object",
                   reason=f"{fld} may alias the caller's list: later index rewriting would change the caller's data")


def _builds_new_list(e) -> bool:
    if isinstance(e, ast.IfExp):
        return _builds_new_list(e.body) and _builds_new_list(e.orelse)
    if isinstance(e, ast.List):
        return True
    if isinstance(e, ast.Call):
        if isinstance(e.func, ast.Name) and e.func.id in ("list", "sorted"):
            return True
        if isinstance(e.func, ast.Attribute) and e.func.attr in ("tolist", "copy"):
            return True
    if isinstance(e, ast.ListComp):
        return True
    return False


# ---------------------------------------------------------------------------------------------------
# C11.c' arity classes cover what the translators assume
# ---------------------------------------------------------------------------------------------------

def check_arity_cover(idx: Index, rep: Report, tier: str):
    rule = "K3.arity-cover"
    gm = idx.module_by_relpath(GATE)
    sets = {}
    for nm in ("ONE_TARGET_GATES", "TWO_TARGET_GATES"):
        if nm not in gm.assigned:
            raise AnalysisError(f"{GATE}: {nm} not found")
        v = const_str_set(gm.assigned[nm])
        if v is None:
            from ..rules.circuitsem import module_str_set
            v = module_str_set(idx, GATE, nm)          # a table computed from the other tables
        if v is None:
            raise AnalysisError(f"{GATE}: {nm} is neither a literal set of names nor an expression over such sets")
        sets[nm] = v
    rep.decide(not (sets["ONE_TARGET_GATES"] & sets["TWO_TARGET_GATES"]), rule, (GATE, "ONE_TARGET_GATES"), gm.assigned["ONE_TARGET_GATES"],
               text="arity classes disjoint", what="no name is both one-target and two-target",
               reason=f"overlap {sorted(sets['ONE_TARGET_GATES'] & sets['TWO_TARGET_GATES'])}")
    n = 0
    seen: Dict[str, Tuple[int, str]] = {}
    for t in tr.writer_dispatches(idx):
        for br in t.branches:
            if not br.names:
                continue
            uses = tr.target_indices_used(br)
            if not uses:
                continue
            k = max(uses) + 1
            whole = tr.uses_whole_target(br)
            if whole:
                continue
            for name in sorted(br.names):
                want = "ONE_TARGET_GATES" if k == 1 else "TWO_TARGET_GATES"
                key = (name, k)
                if key in seen:
                    continue
                seen[key] = (br.node.lineno, t.func.ref)
                n += 1
                ok = name in sets[want]
                rep.decide(ok, rule, (GATE, want), gm.assigned[want], text=f"{name} reads target[0..{k-1}]",
                           what=f"a name whose translators read exactly {k} target(s) is in {want}, so Gate.__init__ rejects other counts",
                           reason=f"{t.func.ref}:{br.node.lineno} applies '{name}' to target[0..{k-1}] only, but '{name}' is in no arity "
                                  f"class: Gate('{name}', [0, 1]) is accepted and the surplus target silently ignored")
    rep.floor("K3 arity obligations", n, 20)


# ---------------------------------------------------------------------------------------------------
# C11.d add_gate
# ---------------------------------------------------------------------------------------------------

def check_add_gate(idx: Index, rep: Report):
    rule = "K6.add_gate"
    f = idx.function(f"{CIRCUIT}::Circuit.add_gate")
    cfg = CFG(f.node)
    # --- the stores into the circuit's state
    upd: Dict[str, List[ast.AST]] = {}
    for n in own_nodes(f.node):
        fld = None
        if isinstance(n, ast.Call) and isinstance(n.func, ast.Attribute) and n.func.attr in ("append", "add", "update", "extend", "insert", "setdefault") and \
                isinstance(n.func.value, ast.Attribute) and norm(n.func.value.value) == "self":
            fld = n.func.value.attr
        elif isinstance(n, ast.Subscript) and isinstance(n.ctx, ast.Store) and isinstance(n.value, ast.Attribute) and norm(n.value.value) == "self":
            fld = n.value.attr
        if fld:
            upd.setdefault(fld, []).append(n)
    # which summaries add_gate updates, under which keys and by how much is decided by the class-invariant fold (after every add_gate - and every other
    # operation - the reported width, size, counts, per-arity counts and variational view equal the values recomputed from the gate list); what stays here is
    # the ordering obligation that fold cannot see: nothing is written before the range check has passed
    # --- validate before mutate: no write to self.* can be followed by a raise of the range validation
    raise_sites = _raise_sites(f)
    muts = [n for lst in upd.values() for n in lst]
    bad = []
    for m in muts:
        mid = cfg.node_for(m)
        for r in raise_sites:
            rid = cfg.node_for(r)
            if cfg.path_exists(mid, rid):
                bad.append((m, r))
                break
    if not raise_sites:
        rep.violation(rule, f, f.node, text="range validation", what="indices beyond a fixed width are rejected",
                      reason="add_gate no longer raises for out-of-range indices")
    for m, r in bad:
        rep.violation(rule, f, m, text=f"write before validation: {norm(_stmt(f, m))}",
                      what="a rejected gate leaves the circuit untouched (validate before mutate)",
                      reason=f"state written at line {m.lineno} can still be followed by the range check raising at line {r.lineno}")
    if raise_sites and not bad:
        rep.ok(rule, f, f.node, text="validate before mutate", what="a rejected gate leaves the circuit untouched")
    # range predicate: index >= fixed width rejected
    _check_range_predicate(rep, f, rule)


def _check_increment(rep, f, sub, fld, rule):
    """self.<fld>[k] = self.<fld>.get(k, 0) + 1   (or  self.<fld>[k] += 1 after a setdefault): decided on the
    normalised value expression, with the previous count as a symbol"""
    import sympy as sp
    from ..symx import to_sympy, Untranslatable, equal
    st = _stmt(f, sub)
    k = norm(sub.slice)
    prev = sp.Symbol("prev_count")

    def unk(n):
        if isinstance(n, ast.Call) and norm(n.func) == f"self.{fld}.get" and len(n.args) == 2 and norm(n.args[0]) == k \
                and isinstance(n.args[1], ast.Constant) and n.args[1].value == 0:
            return prev
        if isinstance(n, ast.Subscript) and norm(n) == f"self.{fld}[{k}]":
            return prev
        return None
    ok = False
    why = ""
    try:
        if isinstance(st, ast.Assign):
            ok = equal(to_sympy(st.value, on_unknown=unk), prev + 1)
            why = f"new count = {norm(st.value)}"
        elif isinstance(st, ast.AugAssign) and isinstance(st.op, ast.Add):
            ok = equal(to_sympy(st.value, on_unknown=unk), sp.Integer(1))
            why = f"count += {norm(st.value)}"
    except Untranslatable as e:
        why = f"not understood: {e}"
    rep.decide(ok, rule, f, st, text=f"{fld} increment", what=f"the {fld} entry of the added gate grows by exactly one",
               reason=why)


def _check_range_predicate(rep, f, rule):
    tests = []
    for n in ast.walk(f.node):
        if isinstance(n, ast.If) and isinstance(n.test, ast.Compare) and "_qubits_simulated" in norm(n.test) and \
                any(isinstance(x, ast.Raise) for x in n.body):
            tests.append(n)
    if not tests:
        rep.violation(rule, f, f.node, text="range predicate", what="an index >= the fixed width is rejected",
                      reason="no comparison with _qubits_simulated guards a raise")
        return
    t = tests[0].test
    ok = False
    if len(t.ops) == 1:
        l, r = norm(t.left), norm(t.comparators[0])
        if isinstance(t.ops[0], ast.GtE) and r == "self._qubits_simulated":
            ok = True
        if isinstance(t.ops[0], ast.LtE) and l == "self._qubits_simulated":
            ok = True
        if isinstance(t.ops[0], ast.Gt) and r in ("self._qubits_simulated - 1",):
            ok = True
    rep.decide(ok, rule, f, tests[0], text=f"range predicate: {norm(t)}", what="exactly the indices >= the fixed width are rejected",
               reason="range comparison is not `index >= width`")


def _stmt(f, node):
    from ..rules.purity import _stmt_of
    return _stmt_of(f, node)


def _enclosing_for(f, node):
    best = None
    for n in own_nodes(f.node):
        if isinstance(n, ast.For) and any(x is node for b in n.body for x in ast.walk(b)):
            if best is None or n.lineno > best.lineno:
                best = n
    return best


def _raise_sites(f: FunctionInfo) -> List[ast.AST]:
    """statements of f that may raise a validation error: raise statements, and calls of nested helpers that raise"""
    sites: List[ast.AST] = []
    raising_helpers = set()
    for qn, g in f.module.functions.items():
        if g.parent is f and any(isinstance(n, ast.Raise) for n in ast.walk(g.node)):
            raising_helpers.add(g.name)
    for n in own_nodes(f.node):
        if isinstance(n, ast.Raise):
            sites.append(n)
        elif isinstance(n, ast.Call) and isinstance(n.func, ast.Name) and n.func.id in raising_helpers:
            sites.append(n)
    return sites


# ---------------------------------------------------------------------------------------------------
# constructor summaries trusted by the alias analysis
# ---------------------------------------------------------------------------------------------------

def check_ctor_summaries(idx: Index, rep: Report):
    f = idx.function(f"{CIRCUIT}::Circuit.add_gate")
    # the object appended to self._gates is the result of a Gate(...) call made in add_gate from the fields of g
    appended = None
    for n in own_nodes(f.node):
        if isinstance(n, ast.Call) and isinstance(n.func, ast.Attribute) and n.func.attr == "append" and norm(n.func.value) == "self._gates":
            appended = n
    if appended is None:
        raise AnalysisError("Circuit.add_gate: append to self._gates not found")
    arg = _inline(f, appended.args[0])
    ok = isinstance(arg, ast.Call) and norm(arg.func) == "Gate"
    rep.decide(ok, "K1.ctor", f, appended, text="add_gate stores a newly built Gate",
               what="a circuit never shares Gate objects with the caller or with another circuit (add_gate copies the gate)",
               reason=f"add_gate stores {norm(arg)[:60]} - the caller's gate object is shared: rewriting indices of one circuit "
                      f"(trim_qubits / reindex_qubits / stack) would alter the other")
    if ok:
        fields = [norm(a) for a in arg.args] + [norm(k.value) for k in arg.keywords]
        want = ["name", "target", "control", "parameter", "is_variational"]
        got = [x.split(".")[-1] for x in fields]
        rep.decide(got == want, "K1.ctor", f, arg, text="Gate(g.name, g.target, g.control, g.parameter, g.is_variational)",
                   what="the copy carries over every field of the added gate, in constructor order",
                   reason=f"copy built from {fields}")
    # Circuit.__init__ adds gates only through add_gate
    init = idx.function(f"{CIRCUIT}::Circuit.__init__")
    direct = [n for n in own_nodes(init.node) if isinstance(n, ast.Attribute) and n.attr == "_gates" and isinstance(n.ctx, ast.Store)]
    ok = len(direct) == 1 and any(isinstance(n, ast.Call) and norm(n.func) == "self.add_gate" for n in own_nodes(init.node))
    rep.decide(ok, "K1.ctor", init, init.node, text="Circuit.__init__ goes through add_gate",
               what="Circuit(gates) builds its gate list through add_gate only", reason="Circuit.__init__ stores gates directly")


# ---------------------------------------------------------------------------------------------------
# metadata readers are derived from the protected fields
# ---------------------------------------------------------------------------------------------------

def check_metadata_readers(idx: Index, rep: Report):
    """width/size/counts/... read the field they summarise (a property reading a different field would report
    values that do not match the gate list)"""
    rule = "K2.readers"
    circ = idx.cls(f"{CIRCUIT}::Circuit")
    want = {"size": {"_gates"}, "width": {"_qubit_indices"}, "counts": {"_gate_counts"},
            "counts_n_qubit": {"_n_qubit_gate_counts"}, "is_variational": {"_variational_gates"}}
    for name, fields in want.items():
        m = circ.methods.get(name)
        if m is None:
            raise AnalysisError(f"Circuit.{name} not found")
        got = {n.attr for n in ast.walk(m.node) if isinstance(n, ast.Attribute) and isinstance(n.value, ast.Name) and n.value.id == "self"}
        rep.decide(fields <= got, rule, m, m.node, text=f"Circuit.{name} reads {sorted(fields)}",
                   what=f"{name} is computed from {sorted(fields)}", reason=f"reads {sorted(got)}")
    import sympy as sp
    from ..symx import to_sympy, Untranslatable, equal
    w = circ.methods["width"]
    rets = [n for n in ast.walk(w.node) if isinstance(n, ast.Return)]
    m = sp.Symbol("max_index")
    L = sp.Symbol("len(self._qubit_indices)", integer=True, nonnegative=True)

    def unk(n):
        if isinstance(n, ast.Call) and norm(n) == "max(self._qubit_indices)":
            return m
        return None
    ok, why = False, "no single return expression"
    if len(rets) == 1 and rets[0].value is not None:
        try:
            ex = to_sympy(rets[0].value, on_unknown=unk)
            B = sp.Symbol("truthy(self._qubit_indices)")
            nonempty = ex.subs({B: True, L: 3})
            empty = ex.subs({B: False, L: 0})
            ok = equal(nonempty, m + 1) and equal(empty, sp.Integer(0))
            why = f"width = {norm(rets[0].value)}"
        except Untranslatable as e:
            why = f"not understood: {e}"
    rep.decide(ok, rule, w, w.node, text="width = max index + 1 (0 when empty)",
               what="width is the largest index in use plus one, 0 when no index is in use", reason=why)
    sz = circ.methods["size"]
    rets = [n for n in ast.walk(sz.node) if isinstance(n, ast.Return)]
    ok = len(rets) == 1 and rets[0].value is not None and norm(rets[0].value) == "len(self._gates)"
    rep.decide(ok, rule, sz, sz.node, text="size = len(self._gates)", what="size is the length of the gate list",
               reason=f"size computed as {norm(rets[0].value) if rets and rets[0].value is not None else '?'}")
    ms = circ.methods["is_mixed_state"]
    names = {n.value for n in ast.walk(ms.node) if isinstance(n, ast.Constant) and isinstance(n.value, str) and n.value.isupper()}
    rep.decide(names == {"MEASURE", "CMEASURE"}, rule, ms, ms.node, text=f"is_mixed_state tests {sorted(names)}",
               what="mixed-state flag is true iff a MEASURE or CMEASURE gate is counted", reason=f"tests {sorted(names)}")


# ---------------------------------------------------------------------------------------------------
# fixed-width propagation of the combining operations (folded on circuit records, flags x marker widths)
# ---------------------------------------------------------------------------------------------------

def check_width_propagation(idx: Index, rep: Report):
    rule = "K9.width-propagation"
    from ..consteval import Folder, Raised, Rec, Undecidable
    from .C17 import CTORS, CircRec
    import copy as _copy

    def g(name, t, c=None, p=""):
        return Rec("Gate", {"name": name, "target": list(t), "control": c, "parameter": p, "is_variational": False})

    def folder():
        fo = Folder(ctors=dict(CTORS))
        fo.env["np.integer"] = None
        fo.env["copy"] = None
        return fo
    circ = idx.cls(f"{CIRCUIT}::Circuit")
    add = circ.methods["__add__"]
    for fa, fb in ((None, None), (4, None), (None, 6), (4, 6)):
        a = CircRec([g("X", [1])], n_qubits=fa)
        b = CircRec([g("H", [2])], n_qubits=fb)
        fo = folder()
        try:
            r = fo.run_function(add.node, {"self": a, "other": b})
        except (Undecidable, Raised) as e:
            raise AnalysisError(f"Circuit.__add__ not foldable: {e}")
        want_fixed = max(a.fields["width"], b.fields["width"]) if (fa or fb) else None
        ok = isinstance(r, Rec) and r.fields["_qubits_simulated"] == want_fixed and [x.fields["name"] for x in r.fields["_gates"]] == ["X", "H"]
        rep.decide(ok, rule, add, add.node, text=f"a(n_qubits={fa}) + b(n_qubits={fb}) -> fixed width {want_fixed}, gates of a then b",
                   what="the concatenation has a fixed width iff one operand has, then the larger of the two widths; gates of the left operand come first",
                   reason=f"got n_qubits={r.fields.get('_qubits_simulated') if isinstance(r, Rec) else r}, gates {[x.fields['name'] for x in r.fields['_gates']] if isinstance(r, Rec) else '?'}")
    mul = circ.methods["__mul__"]
    for fa in (None, 5):
        a = CircRec([g("X", [1]), g("H", [0])], n_qubits=fa)
        fo = folder()

        def ih(v, t):
            return isinstance(v, int) and not isinstance(v, bool) if "int" in t else None
        fo.isinstance_hook = ih
        try:
            r = fo.run_function(mul.node, {"self": a, "n_repeat": 3})
        except (Undecidable, Raised) as e:
            raise AnalysisError(f"Circuit.__mul__ not foldable: {e}")
        ok = isinstance(r, Rec) and r.fields["_qubits_simulated"] == fa and [x.fields["name"] for x in r.fields["_gates"]] == ["X", "H"] * 3
        rep.decide(ok, rule, mul, mul.node, text=f"a(n_qubits={fa}) * 3 repeats the gate list three times and keeps the fixed width",
                   what="repetition keeps the gate order and the fixed width", reason=f"got {r!r}"[:200])
    for bad in (0, -2):
        fo = folder()
        fo.isinstance_hook = lambda v, t: (isinstance(v, int) and not isinstance(v, bool)) if "int" in t else None
        try:
            fo.run_function(mul.node, {"self": CircRec([g("X", [0])]), "n_repeat": bad})
            rep.violation(rule, mul, mul.node, text=f"a * {bad} refused", what="repetition counts below one are refused", reason="accepted")
        except Raised:
            rep.ok(rule, mul, mul.node, text=f"a * {bad} refused", what="repetition counts below one are refused")
        except Undecidable as e:
            raise AnalysisError(f"Circuit.__mul__ not foldable: {e}")
    cp = circ.methods["copy"]
    rets = [n for n in own_nodes(cp.node) if isinstance(n, ast.Return)]
    ok = False
    if rets and isinstance(rets[0].value, ast.Call) and norm(rets[0].value.func) == "Circuit":
        c = rets[0].value
        kws = {k.arg: norm(k.value) for k in c.keywords}
        ok = norm(c.args[0]) == "copy.deepcopy(self._gates)" and kws.get("n_qubits") == "self._qubits_simulated" and kws.get("name") == "self.name"
    rep.decide(ok, rule, cp, cp.node, text="copy = Circuit(deepcopy(gates), n_qubits=fixed width, name=name, ...)", what="a copy has the same gates, fixed width and name and shares nothing with the original",
               reason=f"copy built as {norm(rets[0].value) if rets else '?'}")
    for fn in ("remove_small_rotations", "remove_redundant_gates"):
        f = idx.function(f"{CIRCUIT}::{fn}")
        rets = [n for n in own_nodes(f.node) if isinstance(n, ast.Return)]
        ok = bool(rets) and norm(rets[0].value) == "Circuit(gates) if remove_qubits else Circuit(gates, n_qubits=circuit.width)"
        rep.decide(ok, rule, f, rets[0] if rets else f.node, text=f"{fn}: width kept unless remove_qubits", what="a simplification pass keeps the circuit width unless asked to drop unused qubits",
                   reason=f"returns {norm(rets[0].value) if rets else '?'}")


# ---------------------------------------------------------------------------------------------------
# class invariant over short histories: the repository's own Circuit and Gate classes folded
# ---------------------------------------------------------------------------------------------------
def check_class_invariant(idx: Index, rep: Report, tier: str):
    """Circuit and Gate are folded as classes (constructors, properties, methods interpreted from their syntax trees).  Starting from a
    handful of small circuits - with and without a fixed number of qubits, with gaps in the indices, with variational gates - every
    operation of the class and of the module's transformation functions is applied, then every *reading* operation (copy, inverse, + with
    itself, * 2, width, size, counts, depth) is applied to the result.  After each step the summaries must equal the values recomputed
    from the gate list, the variational view must hold the very gate objects of the gate list, and no reading operation may raise."""
    rule = "K2.class-invariant"
    import copy as _copy
    import math
    from ..consteval import Folder, FuncVal, Raised, Rec, Undecidable
    from ..rules import circuitsem as cs
    res = cs.module_resolver(idx, CIRCUIT)
    Circ = res("Circuit")
    GateCls = cs.module_resolver(idx, GATE)("Gate")
    if Circ is None or GateCls is None:
        raise AnalysisError("Circuit / Gate classes not resolvable")

    def folder():
        fo = cs.make_folder(idx, CIRCUIT, ctors={"Gate": None})
        fo.env["np.pi"] = math.pi
        fo.env["pi"] = math.pi
        return fo

    def mk_gate(name, target, control=None, parameter="", is_variational=False):
        fo = cs.make_folder(idx, GATE, ctors={"Gate": None})
        fo.env["pi"] = math.pi
        return fo.instantiate(GateCls, [name, target], {"control": control, "parameter": parameter, "is_variational": is_variational})

    def mk_circ(gates, n_qubits=None):
        return folder().instantiate(Circ, [list(gates)], {"n_qubits": n_qubits})

    def call(obj, meth, *args, **kwargs):
        fo = folder()
        cv = obj.cls_val
        if meth in cv.properties:
            return fo.call_funcval(FuncVal(cv.properties[meth], bound_self=obj, home=cv.method_home.get(meth, cv.home)), [], {})
        return fo.call_funcval(FuncVal(cv.methods[meth], bound_self=obj, home=cv.method_home.get(meth, cv.home)), list(args), kwargs)

    def func(name, *args, **kwargs):
        f = idx.function(f"{CIRCUIT}::{name}")
        return folder().call_funcval(FuncVal(f.node, home=CIRCUIT), list(args), kwargs)

    def recompute(c: Rec):
        gs = c.fields["_gates"]
        used = set()
        counts, arity = {}, {}
        for g in gs:
            qs = list(g.fields["target"]) + list(g.fields["control"] or [])
            used |= set(qs)
            counts[g.fields["name"]] = counts.get(g.fields["name"], 0) + 1
            arity[len(qs)] = arity.get(len(qs), 0) + 1
        return used, counts, arity

    def violations(c: Rec) -> List[str]:
        out = []
        used, counts, arity = recompute(c)
        fixed = c.fields["_qubits_simulated"]
        try:
            width, size = call(c, "width"), call(c, "size")
            want_w = max([fixed or 0] + [max(used) + 1 if used else 0]) if fixed else (max(used) + 1 if used else 0)
            if width < (max(used) + 1 if used else 0):
                out.append(f"width {width} does not cover qubit {max(used)}")
            if not fixed and width != (max(used) + 1 if used else 0):
                out.append(f"width {width} of a circuit without a fixed number of qubits differs from the highest used qubit + 1 = {max(used) + 1 if used else 0}")
            if fixed and width != fixed and width < fixed:
                out.append(f"width {width} below the fixed number of qubits {fixed}")
            if fixed is not None and fixed and used and max(used) >= fixed:
                out.append(f"fixed number of qubits {fixed} does not cover qubit {max(used)} (copy / inverse / repetition will be refused)")
            if size != len(c.fields["_gates"]):
                out.append(f"size {size} != {len(c.fields['_gates'])} gates")
            if dict(call(c, "counts")) != counts:
                out.append(f"counts {dict(call(c, 'counts'))} != recomputed {counts}")
            if dict(call(c, "counts_n_qubit")) != arity:
                out.append(f"per-arity counts {dict(call(c, 'counts_n_qubit'))} != recomputed {arity}")
            var = [g for g in c.fields["_gates"] if g.fields["is_variational"]]
            vv = c.fields["_variational_gates"]
            if len(vv) != len(var) or any(a is not b for a, b in zip(vv, var)):
                out.append("the variational view does not hold the variational gate objects of the gate list, in order")
            if bool(call(c, "is_variational")) != bool(var):
                out.append("variational flag differs from the gate list")
            if bool(call(c, "is_mixed_state")) != any(n in counts for n in ("MEASURE", "CMEASURE")):
                out.append("mixed-state flag differs from the gate list")
            if not used <= set(c.fields["_qubit_indices"]):
                out.append(f"qubit index set {sorted(c.fields['_qubit_indices'])} misses used qubits {sorted(used)}")
        except Raised as e:
            out.append(f"reading a summary raises {e.exc_type}")
        return out

    def sig(c: Rec):
        return [(g.fields["name"], tuple(g.fields["target"]), tuple(g.fields["control"] or ()), g.fields["parameter"], g.fields["is_variational"]) for g in c.fields["_gates"]], \
            c.fields["_qubits_simulated"], tuple(sorted(c.fields["_qubit_indices"]))

    G = mk_gate
    starts = {
        "two qubits": lambda: mk_circ([G("H", 0), G("CNOT", 1, 0), G("RZ", 1, parameter=0.3)]),
        "gap in the indices": lambda: mk_circ([G("X", 0), G("CNOT", 3, 0), G("RY", 5, parameter=0.2, is_variational=True)]),
        "fixed number of qubits larger than used": lambda: mk_circ([G("H", 1), G("RZ", 1, parameter=0.1, is_variational=True), G("CNOT", 2, 1)], n_qubits=5),
        "unentangled parts": lambda: mk_circ([G("X", 0), G("X", 0), G("H", 2), G("CNOT", 3, 2), G("RZ", 2, parameter=1e-5)]),
        "with a measurement": lambda: mk_circ([G("H", 0), G("MEASURE", 0), G("X", 1)]),
        "empty, fixed": lambda: mk_circ([], n_qubits=2),
    }
    ops = {
        "add_gate": lambda c: (call(c, "add_gate", G("CRZ", 1, 0, 0.4, True)), c)[1],
        "c + c": lambda c: folder().binop(ast.Add(), c, c, None),
        "c * 2": lambda c: folder().binop(ast.Mult(), c, 2, None),
        "copy": lambda c: call(c, "copy"),
        "inverse": lambda c: call(c, "inverse"),
        "trim_qubits": lambda c: (call(c, "trim_qubits"), c)[1],
        "reindex_qubits (shifted up)": lambda c: (call(c, "reindex_qubits", [q + 2 for q in range(len(c.fields["_qubit_indices"]))]), c)[1],
        "reindex_qubits (moved beyond the old register)": lambda c: (call(c, "reindex_qubits", [q + len(c.fields["_qubit_indices"]) + 1 for q in range(len(c.fields["_qubit_indices"]))]), c)[1],
        "reindex_qubits (reversed)": lambda c: (call(c, "reindex_qubits", list(range(len(c.fields["_qubit_indices"])))[::-1]), c)[1],
        "split": lambda c: call(c, "split"),
        "split(trim_qubits=False)": lambda c: call(c, "split", trim_qubits=False),
        "stack(c, c)": lambda c: func("stack", c, c),
        "remove_small_rotations": lambda c: (call(c, "remove_small_rotations"), c)[1],
        "remove_redundant_gates": lambda c: (call(c, "remove_redundant_gates"), c)[1],
        "merge_rotations": lambda c: (call(c, "merge_rotations"), c)[1],
        "remove_small_rotations(remove_qubits=True)": lambda c: (call(c, "remove_small_rotations", remove_qubits=True), c)[1],
    }
    readers = {
        "copy": lambda c: call(c, "copy"), "inverse": lambda c: call(c, "inverse"), "c + c": lambda c: folder().binop(ast.Add(), c, c, None),
        "c * 2": lambda c: folder().binop(ast.Mult(), c, 2, None), "depth": lambda c: call(c, "depth"), "split": lambda c: call(c, "split"),
        "stack(c, c)": lambda c: func("stack", c, c),
    }
    n = 0
    for sname, start in starts.items():
        for oname, op in ops.items():
            if sname == "with a measurement" and oname in ("inverse",):
                continue                                         # measurements are not invertible: refusal is the documented behaviour
            label = f"{sname}: {oname}"
            try:
                c0 = start()
                bad = violations(c0)
                if bad:
                    n += 1
                    rep.violation(rule, (CIRCUIT, "Circuit"), None, text=f"{sname}: construction from a gate list",
                                  what="a circuit built from a gate list reports the summaries of that list", reason="; ".join(sorted(set(bad))[:3]))
                    break
                try:
                    out = op(c0)
                except Raised as e:
                    n += 1
                    rep.violation(rule, (CIRCUIT, "Circuit"), None, text=label, what="every operation applies to every well-formed circuit", reason=f"raises {e.exc_type}")
                    continue
                results = out if isinstance(out, list) else [out]
                problems = []
                for r in results + ([c0] if c0 not in results else []):
                    problems += violations(r)
                # reading operations on the result: must not raise, must not change it, and their own result must satisfy the invariant
                for r in results:
                    for rname, rd in readers.items():
                        if any(g.fields["name"] in ("MEASURE", "CMEASURE") for g in r.fields["_gates"]) and rname == "inverse":
                            continue
                        before = sig(r)
                        try:
                            rr = rd(r)
                        except Raised as e:
                            problems.append(f"then {rname} raises {e.exc_type}")
                            continue
                        if sig(r) != before:
                            problems.append(f"then {rname} changes the circuit it reads")
                        for x in (rr if isinstance(rr, list) else [rr]):
                            if isinstance(x, Rec):
                                problems += [f"then {rname}: {p}" for p in violations(x)]
            except Undecidable as e:
                raise AnalysisError(f"class-invariant fold not possible for {label}: {e}")
            n += 1
            uniq = sorted(set(problems))
            rep.decide(not uniq, rule, (CIRCUIT, "Circuit"), None, text=label,
                       what="after the operation, and after any reading operation on its result, width / size / counts / flags equal the values recomputed from the gate list, "
                            "the variational view holds the gate objects of the list, a fixed number of qubits covers every gate, and reading operations neither raise nor modify",
                       reason="; ".join(uniq[:3]))
    if not rep.has_unlisted_violations():
        rep.floor("class-invariant histories folded", n, 60)


def check_reindex_validation(idx: Index, rep: Report):
    """reindex_qubits writes the caller's labels into the gates of the circuit: labels that Gate itself would reject (negative, not an integer, the same label
    for two qubits) must be refused here too, and a refused call must leave the circuit as it was.  Folded with the repository's Circuit and Gate classes."""
    import math
    from ..consteval import FuncVal, Raised, Undecidable
    from ..rules import circuitsem as cs
    rule = "K6.gate-validation"
    Circ = cs.module_resolver(idx, CIRCUIT)("Circuit")
    GateCls = cs.module_resolver(idx, GATE)("Gate")
    if Circ is None or GateCls is None:
        raise AnalysisError("Circuit / Gate classes not resolvable")
    f = idx.function(f"{CIRCUIT}::Circuit.reindex_qubits")

    def folder():
        fo = cs.make_folder(idx, CIRCUIT, ctors={"Gate": None})
        fo.env["np.pi"] = math.pi
        fo.env["pi"] = math.pi
        return fo

    def G(name, target, control=None):
        fo = cs.make_folder(idx, GATE, ctors={"Gate": None})
        fo.env["pi"] = math.pi
        return fo.instantiate(GateCls, [name, target], {"control": control, "parameter": "", "is_variational": False})

    def sig(c):
        return [(g.fields["name"], tuple(g.fields["target"]), tuple(g.fields["control"] or ())) for g in c.fields["_gates"]], sorted(c.fields["_qubit_indices"], key=repr)
    cases = [("the same label twice", [0, 0, 1]), ("a negative label", [0, -1, 2]), ("a fractional label", [0, 2.5, 1]), ("a string label", [0, "1", 2]), ("too few labels", [0, 1]),
             ("a valid permutation", [2, 0, 1]), ("valid labels with a gap", [4, 0, 7])]
    n = 0
    for nq in (None, 3):
        for label, new in cases:
            c = folder().instantiate(Circ, [[G("H", 0), G("CNOT", 1, 0), G("X", 2)]], {"n_qubits": nq})
            before = sig(c)
            cv = c.cls_val
            try:
                folder().call_funcval(FuncVal(cv.methods["reindex_qubits"], bound_self=c, home=cv.method_home.get("reindex_qubits", cv.home)), [list(new)], {})
                refused = False
            except Raised:
                refused = True
            except Undecidable as e:
                raise AnalysisError(f"reindex_qubits not foldable for {new}: {e}")
            valid = label.startswith("valid") or label.startswith("a valid")
            n += 1
            if valid:
                want = [("H", (new[0],), ()), ("CNOT", (new[1],), (new[0],)), ("X", (new[2],), ())]
                rep.decide(not refused and sig(c)[0] == want, rule, f, f.node, text=f"reindex_qubits({new}){' on a fixed 3-qubit register' if nq else ''}: {label}",
                           what="distinct non-negative integer labels are applied, qubit k of the circuit getting the k-th label", reason="refused" if refused else f"gates become {sig(c)[0]}")
            else:
                rep.decide(refused and sig(c) == before, rule, f, f.node, text=f"reindex_qubits({new}){' on a fixed 3-qubit register' if nq else ''}: {label}",
                           what="labels that a gate may not carry (negative, not an integer, shared by two qubits) are refused and the circuit is left as it was",
                           reason="accepted: the circuit now holds " + str(sig(c)[0]) if not refused else "refused, but the circuit was modified before the refusal")
    rep.floor("reindex_qubits label lists folded", n, 14)
