"""C18 Measurement grouping and histogram processing conserve information (thin structural part).

C18.a     accumulate-not-overwrite at every lossy re-keying site (Histogram.remove_qubit_indices, the last-n split, the sample
          counters of target_cirq); total bit-order reversal k[::-1] is injective and needs no accumulation
C18.b     remove_qubit_indices keeps exactly the characters whose position is not removed, in order; post_select filters on the
          expected characters and then removes exactly those positions; frequencies = counts / sum(counts)
C18.c K1  histogram operations documented as returning new objects do not mutate their inputs; Histogram.__init__ copies the
          outcome dictionary it is given
C18.d     exp_value_from_measurement_bases visits every (basis, term) once with its own coefficient and histogram; the grouping
          wrapper only ever returns a partition produced by the grouping routine (smallest of the repeats)
"""
from __future__ import annotations

import ast
from typing import List

import sympy as sp

from ..alias import Analyzer
from ..index import AnalysisError, FunctionInfo, Index, full, norm, own_nodes
from ..report import Report
from ..rules.purity import check_purity
from .. import symx

HIST = "tangelo/toolboxes/post_processing/histogram.py"
POST = "tangelo/toolboxes/post_processing/post_selection.py"
GROUP = "tangelo/toolboxes/measurements/qubit_terms_grouping.py"
TCIRQ = "tangelo/linq/target/target_cirq.py"
BOOT = "tangelo/toolboxes/post_processing/bootstrapping.py"


def run(idx: Index, rep: Report, tier: str):
    rep.explain("C18 thin structural part: accumulation at every re-keying site, positional selection in marginalisation and "
                "post-selection, normalisation of frequencies, may-mutate analysis of the out-of-place histogram operations, and the "
                "loop structure of the per-basis expectation assembly.")
    rep.trust("CPython ast", "sa.alias library summary tables")
    rep.assume("the partition property of openfermion's grouping routine, rounding in Histogram.__init__ and resampling statistics are not decided")
    check_accumulation(idx, rep)
    check_positional_selection(idx, rep)
    an = Analyzer(idx, max_depth=5)
    check_hist_purity(idx, rep, an)
    check_assembly(idx, rep)
    from ..rules.chunks import check_chunk_sum
    check_chunk_sum(rep, "K9.shot-conservation", idx.function(f"{BOOT}::get_resampled_frequencies"), "ncount")


def _is_accumulate(assign: ast.Assign) -> bool:
    t = assign.targets[0]
    if not isinstance(t, ast.Subscript):
        return False
    d, k = norm(t.value), norm(t.slice)
    try:
        prev = sp.Symbol("prev")

        def unk(n):
            if isinstance(n, ast.Call) and norm(n.func) == f"{d}.get" and len(n.args) == 2 and norm(n.args[0]) == k and \
                    isinstance(n.args[1], ast.Constant) and n.args[1].value == 0:
                return prev
            if isinstance(n, ast.Subscript) and norm(n) == f"{d}[{k}]":
                return prev
            return None
        v = symx.to_sympy(assign.value, on_unknown=unk)
        rest = sp.simplify(v - prev)
        return prev not in rest.free_symbols and rest != 0
    except symx.Untranslatable:
        return False


def check_accumulation(idx: Index, rep: Report):
    rule = "K9.accumulate"
    sites = []
    f = idx.function(f"{HIST}::Histogram.remove_qubit_indices")
    sites += [(f, n) for n in own_nodes(f.node) if isinstance(n, ast.Assign) and isinstance(n.targets[0], ast.Subscript) and norm(n.targets[0].value) == "new_counts"]
    g = idx.function(f"{TCIRQ}::CirqSimulator.simulate_circuit")
    sites += [(g, n) for n in own_nodes(g.node) if isinstance(n, ast.Assign) and isinstance(n.targets[0], ast.Subscript) and norm(n.targets[0].value) == "samples"]
    for fn, n in sites:
        rep.decide(_is_accumulate(n), rule, fn, n, text=f"{norm(n.targets[0])} accumulates",
                   what="outcomes that coincide after re-keying have their counts added (never overwritten)", reason=f"update is {norm(n.value)}")
    rep.floor("accumulation sites", len(sites), 4)
    # dict comprehensions that re-key must be injective: only the full reversal k[::-1] is accepted
    for rel, qn in ((HIST, "Histogram.__init__"),):
        h = idx.function(f"{rel}::{qn}")
        for n in own_nodes(h.node):
            if isinstance(n, ast.DictComp) and norm(n.key) != norm(n.generators[0].target.elts[0] if isinstance(n.generators[0].target, ast.Tuple) else n.generators[0].target):
                ok = norm(n.key).endswith("[::-1]")
                rep.decide(ok, rule, h, n, text=f"re-keying {norm(n.key)} is injective", what="re-keying by a dict comprehension must be one-to-one (full reversal)",
                           reason=f"keys rewritten as {norm(n.key)}: distinct outcomes may collide and overwrite each other")


def _eq(a, b) -> bool:
    """dict equality with symbolic values"""
    if not isinstance(a, dict) or not isinstance(b, dict) or set(a) != set(b):
        return False
    return all(sp.simplify(sp.sympify(a[k]) - sp.sympify(b[k])) == 0 for k in a)


def check_positional_selection(idx: Index, rep: Report):
    """Histogram and post-selection functions folded on histograms whose bitstrings are made of *distinct marker characters* and whose
    counts are positive symbols: the result shows exactly which positions are kept, in which order, and how counts combine - for every
    histogram of that shape, independent of concrete bits and counts."""
    rule = "K9.positions"
    from ..consteval import Folder, FuncVal, Raised, Undecidable
    from ..rules import circuitsem as cs
    c1, c2, c3 = sp.symbols("c1 c2 c3", positive=True)
    tot = c1 + c2 + c3

    def hist(fo, outcomes, **kw):
        return fo.instantiate(fo.resolver("Histogram"), [dict(outcomes)], kw)

    def method(fo, h, name, *args):
        cv = h.cls_val
        return fo.call_funcval(FuncVal(cv.methods[name], bound_self=h, home=cv.home), list(args), {})

    def prop(fo, h, name):
        cv = h.cls_val
        return fo.call_funcval(FuncVal(cv.properties[name], bound_self=h, home=cv.home), [], {})
    base = {"abcde": c1, "abXde": c2, "pqcst": c3}
    hf = idx.function(f"{HIST}::Histogram.remove_qubit_indices")
    try:
        fo = cs.make_folder(idx, HIST)
        h = hist(fo, base)
        method(fo, h, "remove_qubit_indices", 2)
        rep.decide(_eq(h.fields["counts"], {"abde": c1 + c2, "pqst": c3}), rule, hf, hf.node, text="remove position 2: 'abcde','abXde','pqcst' -> {'abde': c1+c2, 'pqst': c3}",
                   what="marginalising removes exactly the requested position, keeps the others in order, and adds the counts of outcomes that coincide",
                   reason=f"result {h.fields['counts']}")
        h = hist(fo, base)
        method(fo, h, "remove_qubit_indices", 0, 4)
        rep.decide(_eq(h.fields["counts"], {"bcd": c1, "bXd": c2, "qcs": c3}), rule, hf, hf.node, text="remove positions 0 and 4 -> {'bcd', 'bXd', 'qcs'}",
                   what="several positions are removed at once, the rest keeps its order", reason=f"result {h.fields['counts']}")
        h = hist(fo, base)
        rep.decide(sp.simplify(prop(fo, h, "n_shots") - tot) == 0, rule, hf, hf.node, text="n_shots = sum of counts", what="the total is the sum of all counts",
                   reason=f"n_shots = {prop(fo, h, 'n_shots')}")
        rep.decide(_eq(prop(fo, h, "frequencies"), {k: v / tot for k, v in base.items()}), rule, hf, hf.node, text="frequencies = counts / total",
                   what="frequencies are counts normalised by the total, so they sum to one", reason=f"frequencies = {prop(fo, h, 'frequencies')}")
        ps = idx.function(f"{HIST}::Histogram.post_select")
        h = hist(fo, base)
        method(fo, h, "post_select", {2: "c"})
        rep.decide(_eq(h.fields["counts"], {"abde": c1, "pqst": c3}), rule, ps, ps.node, text="post-select position 2 == 'c' -> {'abde': c1, 'pqst': c3}",
                   what="post-selection keeps exactly the outcomes carrying the expected character and then removes that position", reason=f"result {h.fields['counts']}")
        h = hist(fo, base)
        method(fo, h, "post_select", {0: "a", 2: "X"})
        rep.decide(_eq(h.fields["counts"], {"bde": c2}), rule, ps, ps.node, text="post-select {0: 'a', 2: 'X'} -> {'bde': c2}",
                   what="all expected characters must match; all post-selected positions are removed", reason=f"result {h.fields['counts']}")
        init = idx.function(f"{HIST}::Histogram.__init__")
        h = hist(fo, {"abc": c1, "xyz": c2}, msq_first=True)
        rep.decide(_eq(h.fields["counts"], {"cba": c1, "zyx": c2}), rule, init, init.node, text="msq_first=True reverses every bitstring", what="bit-order conversion is the full reversal of each key, counts unchanged",
                   reason=f"result {h.fields['counts']}")
        h = hist(fo, {"abc": c1, "xyz": c2})
        rep.decide(_eq(h.fields["counts"], {"abc": c1, "xyz": c2}), rule, init, init.node, text="default order keeps the keys", what="without conversion keys and counts are taken as given",
                   reason=f"result {h.fields['counts']}")
        try:
            hist(fo, {"ab": c1, "abc": c2})
            rep.violation(rule, init, init.node, text="inconsistent bitstring lengths refused", what="bitstrings of different lengths are refused", reason="accepted")
        except Raised:
            rep.ok(rule, init, init.node, text="inconsistent bitstring lengths refused", what="bitstrings of different lengths are refused")
        ag = idx.function(f"{HIST}::aggregate_histograms")
        fo3 = cs.make_folder(idx, HIST)
        h1, h2 = hist(fo3, {"abc": c1, "xyz": c2}), hist(fo3, {"abc": c3, "uvw": c2})
        r = fo3.run_function(ag.node, {"hists": (h1, h2)})
        rep.decide(_eq(dict(r.fields["counts"]), {"abc": c1 + c3, "xyz": c2, "uvw": c2}), rule, ag, ag.node, text="aggregate: counts of equal bitstrings add up, others are kept",
                   what="aggregation conserves every count", reason=f"result {r.fields['counts']}")
        ok_in = _eq(h1.fields["counts"], {"abc": c1, "xyz": c2}) and _eq(h2.fields["counts"], {"abc": c3, "uvw": c2})
        rep.decide(ok_in, rule, ag, ag.node, text="aggregate leaves its inputs unchanged", what="the inputs keep their counts", reason="an input histogram was modified")
        fh = idx.function(f"{HIST}::filter_hist")
    except Undecidable as e:
        raise AnalysisError(f"histogram functions not foldable: {e}")
    check_post_selection_functions(idx, rep, rule)
    bs = idx.function(f"{BOOT}::get_resampled_frequencies")
    t = full(bs.node)
    ok = "format_specifier = '0' + str(n_qubits) + 'b'" in t and "xk[i] = int(k, 2)" in t and "v / ncount" in t
    rep.decide(ok, rule, bs, bs.node, text="resampling: int(k, 2) <-> format(k, '0<n>b'), normalised by the number of draws",
               what="resampled outcomes are formatted back to bitstrings of the original length and normalised by the number of draws",
               reason="bitstring <-> integer conversion or normalisation changed")


def check_post_selection_functions(idx: Index, rep: Report, rule: str):
    """folded on marker bitstrings with symbolic frequencies (shared with C10.e)"""
    from ..consteval import Undecidable
    from ..rules import circuitsem as cs
    c1, c2, c3 = sp.symbols("c1 c2 c3", positive=True)
    tot = c1 + c2 + c3
    base = {"abcde": c1, "abXde": c2, "pqcst": c3}
    try:
        sf = idx.function(f"{POST}::split_frequency_dict")
        fo2 = cs.make_folder(idx, POST)
        mid, fin = fo2.run_function(sf.node, {"frequencies": dict(base), "indices": [0, 1], "desired_measurement": None})
        ok = _eq(mid, {"ab": (c1 + c2) / tot, "pq": c3 / tot}) and _eq(fin, {"cde": c1 / tot, "Xde": c2 / tot, "cst": c3 / tot})
        rep.decide(ok, rule, sf, sf.node, text="split at positions [0, 1]: mid-circuit part keeps positions 0-1, final part the rest, both normalised",
                   what="the joint distribution is split into the marginal on the given positions and the marginal on the complement", reason=f"got {mid} / {fin}")
        fo2 = cs.make_folder(idx, POST)
        mid, fin = fo2.run_function(sf.node, {"frequencies": dict(base), "indices": [0, 1], "desired_measurement": "ab"})
        ok = _eq(mid, {"ab": (c1 + c2) / tot, "pq": c3 / tot}) and _eq(fin, {"cde": c1 / (c1 + c2), "Xde": c2 / (c1 + c2)})
        rep.decide(ok, rule, sf, sf.node, text="split with requested outcome 'ab': final part is post-selected on it and renormalised",
                   what="with a requested mid-circuit outcome the final distribution is the renormalised branch distribution", reason=f"got {mid} / {fin}")
        sl = idx.function(f"{POST}::split_frequency_dict_for_last_n_digits")
        fo2 = cs.make_folder(idx, POST)
        f1, f2 = fo2.run_function(sl.node, {"frequencies": {"abcde": c1, "abXde": c2, "pqcde": c3}, "n": 2})
        ok = _eq(f1, {"abc": c1, "abX": c2, "pqc": c3}) and _eq(f2, {"de": tot})
        rep.decide(ok, rule, sl, sl.node, text="last-2 split: heads keep their counts, equal tails accumulate", what="splitting off the last n characters conserves the total on both sides",
                   reason=f"got {f1} / {f2}")
        pf = idx.function(f"{POST}::post_select")
        fo2 = cs.make_folder(idx, POST)
        r = fo2.run_function(pf.node, {"freqs": dict(base), "expected_outcomes": {4: "e"}})
        ok = _eq(r, {"abcd": c1 / (c1 + c2), "abXd": c2 / (c1 + c2)})
        rep.decide(ok, rule, pf, pf.node, text="post_select({4: 'e'}) keeps matching outcomes, removes the position, renormalises", what="post-selected frequencies are renormalised over the kept outcomes",
                   reason=f"got {r}")
        st = idx.function(f"{POST}::strip_post_selection")
        fo2 = cs.make_folder(idx, POST)
        r = fo2.run_function(st.node, {"freqs": dict(base), "qubits": (2,)})
        ok = _eq(r, {"abde": (c1 + c2) / tot, "pqst": c3 / tot})
        rep.decide(ok, rule, st, st.node, text="strip_post_selection(2) marginalises position 2", what="stripping an ancilla aggregates the outcomes that differ only there", reason=f"got {r}")
    except Undecidable as e:
        raise AnalysisError(f"post-selection functions not foldable: {e}")


def check_hist_purity(idx: Index, rep: Report, an: Analyzer):
    rule = "K1.histogram-inputs"
    cases = [(f"{HIST}::aggregate_histograms", ["hists"]), (f"{HIST}::filter_hist", ["hist"]), (f"{HIST}::Histogram.resample", ["self"]),
             (f"{HIST}::Histogram.__add__", ["self", "other"]), (f"{HIST}::Histogram.__eq__", ["self", "other"]),
             (f"{HIST}::Histogram.get_expectation_value", ["self"]), (f"{HIST}::Histogram.__init__", ["outcomes"]),
             (f"{POST}::post_select", ["freqs", "expected_outcomes"]), (f"{POST}::strip_post_selection", ["freqs"]),
             (f"{POST}::split_frequency_dict", ["frequencies", "indices"]), (f"{POST}::split_frequency_dict_for_last_n_digits", ["frequencies"]),
             (f"{BOOT}::get_resampled_frequencies", ["freq_dict"]), (f"{GROUP}::exp_value_from_measurement_bases", ["sub_ops", "histograms"]),
             (f"{GROUP}::group_qwc", ["qb_ham"]), (f"{GROUP}::map_measurements_qwc", ["qwc_group_map"])]
    for ref, params in cases:
        f = idx.function(ref)
        check_purity(idx, rep, an, f, params, rule=rule, self_class=f.cls, what="the operation returns new data and leaves its inputs unchanged")
    # Histogram keeps its own copy of the outcomes
    init = idx.function(f"{HIST}::Histogram.__init__")
    st = [n for n in own_nodes(init.node) if isinstance(n, ast.Assign) and norm(n.targets[0]) == "self.counts" and "outcomes" in norm(n.value)]
    ok = bool(st) and all(norm(x.value) in ("outcomes.copy()", "dict(outcomes)") for x in st)
    rep.decide(ok, rule, init, st[0] if st else init.node, text="Histogram stores a copy of the outcomes", what="a Histogram never shares its counts with the dictionary it was built from",
               reason=f"counts stored as {norm(st[0].value) if st else '?'}")


def check_assembly(idx: Index, rep: Report):
    rule = "K9.assembly"
    f = idx.function(f"{GROUP}::exp_value_from_measurement_bases")
    t = full(f.node)
    ok = "for basis, freqs in histograms.items(): for term, coef in sub_ops[basis].terms.items(): exp_value += get_expectation_value_from_frequencies_oneterm(term, freqs) * coef" in t
    rep.decide(ok, rule, f, f.node, text="sum over bases, sum over the basis' own terms: <term>_hist(basis) * coef",
               what="each term is evaluated once, on the histogram of its own basis, with its own coefficient", reason="assembly loop changed")
    g = idx.function(f"{GROUP}::group_qwc")
    t = full(g.node)
    ok = "res = group_into_tensor_product_basis_sets(qb_ham, seed)" in t and "if len(res2) < len(res): res = res2" in t and t.rstrip().endswith("return res")
    rep.decide(ok, rule, g, g.node, text="returns one complete grouping (the smallest of the repeats)", what="the wrapper returns a grouping produced for the whole operator, never a mix of two runs",
               reason="wrapper logic changed")
    c = idx.function(f"{GROUP}::check_bases_commute_qwc")
    t = full(c.node)
    ok = "for i in set(b1_dict) & set(b2_dict): if b1_dict[i] != b2_dict[i]: return False" in t and t.rstrip().endswith("return True")
    rep.decide(ok, rule, c, c.node, text="qubit-wise commutation: equal letters on every shared qubit", what="two bases are compatible iff they agree on every qubit both act on",
               reason="compatibility test changed")
