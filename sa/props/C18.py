"""C18 Measurement grouping and histogram processing conserve information (thin structural part).

C18.a     accumulate-not-overwrite at every lossy re-keying site (Histogram.remove_qubit_indices, the last-n split, the sample
          counters of target_cirq); total bit-order reversal k[::-1] is injective and needs no accumulation
C18.b     remove_qubit_indices keeps exactly the characters whose position is not removed, in order; post_select filters on the
          expected characters and then removes exactly those positions; frequencies = counts / sum(counts)
C18.c K1  histogram operations documented as returning new objects do not mutate their inputs; Histogram.__init__ copies the
          outcome dictionary it is given
C18.d     exp_value_from_measurement_bases visits every (basis, term) once with its own coefficient and histogram; the grouping
          wrapper only ever returns a partition produced by the grouping routine (smallest of the repeats)
"""
from __future__ import annotations

import ast
import itertools
from typing import List

import sympy as sp

from ..alias import Analyzer
from ..consteval import Opaque, Raised, Undecidable
from ..index import AnalysisError, FunctionInfo, Index, full, norm, own_nodes
from ..report import Report
from ..rules.purity import check_purity
from .. import symx

HIST = "tangelo/toolboxes/post_processing/histogram.py"
POST = "tangelo/toolboxes/post_processing/post_selection.py"
GROUP = "tangelo/toolboxes/measurements/qubit_terms_grouping.py"
TCIRQ = "tangelo/linq/target/target_cirq.py"
BOOT = "tangelo/toolboxes/post_processing/bootstrapping.py"


def run(idx: Index, rep: Report, tier: str):
    rep.explain("C18 thin structural part: accumulation at every re-keying site, positional selection in marginalisation and "
                "post-selection, normalisation of frequencies, may-mutate analysis of the out-of-place histogram operations, and the "
                "loop structure of the per-basis expectation assembly.")
    rep.trust("CPython ast", "sa.alias library summary tables")
    rep.assume("the partition property of openfermion's grouping routine, rounding in Histogram.__init__ and resampling statistics are not decided")
    check_accumulation(idx, rep)
    check_positional_selection(idx, rep)
    an = Analyzer(idx, max_depth=5)
    check_hist_purity(idx, rep, an)
    check_assembly(idx, rep)
    from ..rules.chunks import check_chunk_sum
    check_chunk_sum(rep, "K9.shot-conservation", idx.function(f"{BOOT}::get_resampled_frequencies"), "ncount")
    from .C01 import check_sampled_keys
    check_sampled_keys(idx, rep)


def _is_accumulate(assign: ast.Assign) -> bool:
    t = assign.targets[0]
    if not isinstance(t, ast.Subscript):
        return False
    d, k = norm(t.value), norm(t.slice)
    try:
        prev = sp.Symbol("prev")

        def unk(n):
            if isinstance(n, ast.Call) and norm(n.func) == f"{d}.get" and len(n.args) == 2 and norm(n.args[0]) == k and \
                    isinstance(n.args[1], ast.Constant) and n.args[1].value == 0:
                return prev
            if isinstance(n, ast.Subscript) and norm(n) == f"{d}[{k}]":
                return prev
            return None
        v = symx.to_sympy(assign.value, on_unknown=unk)
        rest = sp.simplify(v - prev)
        return prev not in rest.free_symbols and rest != 0
    except symx.Untranslatable:
        return False


def check_accumulation(idx: Index, rep: Report):
    rule = "K9.accumulate"
    sites = []
    f = idx.function(f"{HIST}::Histogram.remove_qubit_indices")
    sites += [(f, n) for n in own_nodes(f.node) if isinstance(n, ast.Assign) and isinstance(n.targets[0], ast.Subscript) and norm(n.targets[0].value) == "new_counts"]
    g = idx.function(f"{TCIRQ}::CirqSimulator.simulate_circuit")
    sites += [(g, n) for n in own_nodes(g.node) if isinstance(n, ast.Assign) and isinstance(n.targets[0], ast.Subscript) and norm(n.targets[0].value) == "samples"]
    for fn, n in sites:
        rep.decide(_is_accumulate(n), rule, fn, n, text=f"{norm(n.targets[0])} accumulates",
                   what="outcomes that coincide after re-keying have their counts added (never overwritten)", reason=f"update is {norm(n.value)}")
    rep.floor("accumulation sites", len(sites), 4)
    # dict comprehensions that re-key must be injective: only the full reversal k[::-1] is accepted
    for rel, qn in ((HIST, "Histogram.__init__"),):
        h = idx.function(f"{rel}::{qn}")
        for n in own_nodes(h.node):
            if isinstance(n, ast.DictComp) and norm(n.key) != norm(n.generators[0].target.elts[0] if isinstance(n.generators[0].target, ast.Tuple) else n.generators[0].target):
                ok = norm(n.key).endswith("[::-1]")
                rep.decide(ok, rule, h, n, text=f"re-keying {norm(n.key)} is injective", what="re-keying by a dict comprehension must be one-to-one (full reversal)",
                           reason=f"keys rewritten as {norm(n.key)}: distinct outcomes may collide and overwrite each other")


def _eq(a, b) -> bool:
    """dict equality with symbolic values"""
    if not isinstance(a, dict) or not isinstance(b, dict) or set(a) != set(b):
        return False
    return all(sp.simplify(sp.sympify(a[k]) - sp.sympify(b[k])) == 0 for k in a)


def check_positional_selection(idx: Index, rep: Report):
    """Histogram and post-selection functions folded on histograms whose bitstrings are made of *distinct marker characters* and whose
    counts are positive symbols: the result shows exactly which positions are kept, in which order, and how counts combine - for every
    histogram of that shape, independent of concrete bits and counts."""
    rule = "K9.positions"
    from ..consteval import Folder, FuncVal, Raised, Undecidable
    from ..rules import circuitsem as cs
    c1, c2, c3 = sp.symbols("c1 c2 c3", positive=True)
    tot = c1 + c2 + c3

    def hist(fo, outcomes, **kw):
        return fo.instantiate(fo.resolver("Histogram"), [dict(outcomes)], kw)

    def method(fo, h, name, *args):
        cv = h.cls_val
        return fo.call_funcval(FuncVal(cv.methods[name], bound_self=h, home=cv.home), list(args), {})

    def prop(fo, h, name):
        cv = h.cls_val
        return fo.call_funcval(FuncVal(cv.properties[name], bound_self=h, home=cv.home), [], {})
    base = {"abcde": c1, "abXde": c2, "pqcst": c3}
    hf = idx.function(f"{HIST}::Histogram.remove_qubit_indices")
    try:
        fo = cs.make_folder(idx, HIST)
        h = hist(fo, base)
        method(fo, h, "remove_qubit_indices", 2)
        rep.decide(_eq(h.fields["counts"], {"abde": c1 + c2, "pqst": c3}), rule, hf, hf.node, text="remove position 2: 'abcde','abXde','pqcst' -> {'abde': c1+c2, 'pqst': c3}",
                   what="marginalising removes exactly the requested position, keeps the others in order, and adds the counts of outcomes that coincide",
                   reason=f"result {h.fields['counts']}")
        h = hist(fo, base)
        method(fo, h, "remove_qubit_indices", 0, 4)
        rep.decide(_eq(h.fields["counts"], {"bcd": c1, "bXd": c2, "qcs": c3}), rule, hf, hf.node, text="remove positions 0 and 4 -> {'bcd', 'bXd', 'qcs'}",
                   what="several positions are removed at once, the rest keeps its order", reason=f"result {h.fields['counts']}")
        h = hist(fo, base)
        rep.decide(sp.simplify(prop(fo, h, "n_shots") - tot) == 0, rule, hf, hf.node, text="n_shots = sum of counts", what="the total is the sum of all counts",
                   reason=f"n_shots = {prop(fo, h, 'n_shots')}")
        rep.decide(_eq(prop(fo, h, "frequencies"), {k: v / tot for k, v in base.items()}), rule, hf, hf.node, text="frequencies = counts / total",
                   what="frequencies are counts normalised by the total, so they sum to one", reason=f"frequencies = {prop(fo, h, 'frequencies')}")
        ps = idx.function(f"{HIST}::Histogram.post_select")
        h = hist(fo, base)
        method(fo, h, "post_select", {2: "c"})
        rep.decide(_eq(h.fields["counts"], {"abde": c1, "pqst": c3}), rule, ps, ps.node, text="post-select position 2 == 'c' -> {'abde': c1, 'pqst': c3}",
                   what="post-selection keeps exactly the outcomes carrying the expected character and then removes that position", reason=f"result {h.fields['counts']}")
        h = hist(fo, base)
        method(fo, h, "post_select", {0: "a", 2: "X"})
        rep.decide(_eq(h.fields["counts"], {"bde": c2}), rule, ps, ps.node, text="post-select {0: 'a', 2: 'X'} -> {'bde': c2}",
                   what="all expected characters must match; all post-selected positions are removed", reason=f"result {h.fields['counts']}")
        init = idx.function(f"{HIST}::Histogram.__init__")
        h = hist(fo, {"abc": c1, "xyz": c2}, msq_first=True)
        rep.decide(_eq(h.fields["counts"], {"cba": c1, "zyx": c2}), rule, init, init.node, text="msq_first=True reverses every bitstring", what="bit-order conversion is the full reversal of each key, counts unchanged",
                   reason=f"result {h.fields['counts']}")
        h = hist(fo, {"abc": c1, "xyz": c2})
        rep.decide(_eq(h.fields["counts"], {"abc": c1, "xyz": c2}), rule, init, init.node, text="default order keeps the keys", what="without conversion keys and counts are taken as given",
                   reason=f"result {h.fields['counts']}")
        try:
            hist(fo, {"ab": c1, "abc": c2})
            rep.violation(rule, init, init.node, text="inconsistent bitstring lengths refused", what="bitstrings of different lengths are refused", reason="accepted")
        except Raised:
            rep.ok(rule, init, init.node, text="inconsistent bitstring lengths refused", what="bitstrings of different lengths are refused")
        ag = idx.function(f"{HIST}::aggregate_histograms")
        fo3 = cs.make_folder(idx, HIST)
        h1, h2 = hist(fo3, {"abc": c1, "xyz": c2}), hist(fo3, {"abc": c3, "uvw": c2})
        r = fo3.run_function(ag.node, {"hists": (h1, h2)})
        rep.decide(_eq(dict(r.fields["counts"]), {"abc": c1 + c3, "xyz": c2, "uvw": c2}), rule, ag, ag.node, text="aggregate: counts of equal bitstrings add up, others are kept",
                   what="aggregation conserves every count", reason=f"result {r.fields['counts']}")
        ok_in = _eq(h1.fields["counts"], {"abc": c1, "xyz": c2}) and _eq(h2.fields["counts"], {"abc": c3, "uvw": c2})
        rep.decide(ok_in, rule, ag, ag.node, text="aggregate leaves its inputs unchanged", what="the inputs keep their counts", reason="an input histogram was modified")
        fh = idx.function(f"{HIST}::filter_hist")
    except Undecidable as e:
        raise AnalysisError(f"histogram functions not foldable: {e}")
    check_post_selection_functions(idx, rep, rule)
    check_resampling(idx, rep, rule)


class _Samples:
    _sa_model = True

    def __init__(self, outcome, size):
        self.outcome, self.size = outcome, size


class _Bag:
    """stand-in for collections.Counter over sample batches"""
    _sa_model = True

    def __init__(self, samples=None):
        self.c = {}
        if samples is not None and samples.size:
            self.c[samples.outcome] = samples.size

    def __add__(self, o):
        r = _Bag()
        r.c = dict(self.c)
        for k, v in o.c.items():
            r.c[k] = r.c.get(k, 0) + v
        return r
    __iadd__ = __add__

    def items(self):
        return list(self.c.items())


class _Distr:
    """stand-in for scipy's discrete distribution: every draw is the first listed outcome (a legitimate sample of any size)"""
    _sa_model = True

    def __init__(self, values):
        self.xk, self.pk = values

    def rvs(self, size=1):
        if not isinstance(size, int) or size < 0:
            raise Undecidable(f"rvs(size={size!r})")
        return _Samples(self.xk[0], size)


def check_resampling(idx: Index, rep: Report, rule: str):
    """get_resampled_frequencies folded with the sampler replaced by a stand-in whose draws are all the first outcome: the result must be
    {that outcome, formatted back to the original bitstring: 1}, for shot counts below, at and above the chunk size."""
    from ..rules import circuitsem as cs
    bs = idx.function(f"{BOOT}::get_resampled_frequencies")
    for first, others in (("0101", ["1111", "0000"]), ("0", ["1"]), ("10000000000", ["00000000001"]), ("0001", [])):
        for ncount in (1, 7, 10 ** 7, 10 ** 7 + 5, 25 * 10 ** 6):
            fd = {first: sp.Rational(1, 2)}
            for o in others:
                fd[o] = sp.Rational(1, 2) / len(others)
            fo = cs.make_folder(idx, BOOT, ctors={"stats.rv_discrete": lambda args, kwargs: _Distr(kwargs["values"]), "Counter": lambda args, kwargs: _Bag(*args)})
            try:
                got = fo.run_function(bs.node, {"freq_dict": fd, "ncount": ncount})
            except (Undecidable, Raised) as e:
                raise AnalysisError(f"get_resampled_frequencies not foldable: {e}")
            ok = isinstance(got, dict) and list(got.keys()) == [first] and sp.nsimplify(got[first]) == 1
            rep.decide(ok, rule, bs, bs.node, text=f"resampling {ncount} draws, every draw '{first}'",
                       what="outcomes are converted to integers and back to bitstrings of the original length, every requested draw is made (chunk sizes add up) and "
                            "counts are normalised by the number of draws",
                       reason=f"with every draw equal to '{first}' the result is {got} instead of {{'{first}': 1}}")


def check_post_selection_functions(idx: Index, rep: Report, rule: str):
    """folded on marker bitstrings with symbolic frequencies (shared with C10.e)"""
    from ..consteval import Undecidable
    from ..rules import circuitsem as cs
    c1, c2, c3 = sp.symbols("c1 c2 c3", positive=True)
    tot = c1 + c2 + c3
    base = {"abcde": c1, "abXde": c2, "pqcst": c3}
    try:
        sf = idx.function(f"{POST}::split_frequency_dict")
        fo2 = cs.make_folder(idx, POST)
        mid, fin = fo2.run_function(sf.node, {"frequencies": dict(base), "indices": [0, 1], "desired_measurement": None})
        ok = _eq(mid, {"ab": (c1 + c2) / tot, "pq": c3 / tot}) and _eq(fin, {"cde": c1 / tot, "Xde": c2 / tot, "cst": c3 / tot})
        rep.decide(ok, rule, sf, sf.node, text="split at positions [0, 1]: mid-circuit part keeps positions 0-1, final part the rest, both normalised",
                   what="the joint distribution is split into the marginal on the given positions and the marginal on the complement", reason=f"got {mid} / {fin}")
        for ind, want_mid, want_fin in (([1, 3], {"bd": (c1 + c2) / tot, "qs": c3 / tot}, {"ace": c1 / tot, "aXe": c2 / tot, "pct": c3 / tot}),
                                        ([4], {"e": (c1 + c2) / tot, "t": c3 / tot}, {"abcd": c1 / tot, "abXd": c2 / tot, "pqcs": c3 / tot}),
                                        ([2], {"c": (c1 + c3) / tot, "X": c2 / tot}, {"abde": (c1 + c2) / tot, "pqst": c3 / tot})):
            fo2 = cs.make_folder(idx, POST)
            mid, fin = fo2.run_function(sf.node, {"frequencies": dict(base), "indices": list(ind), "desired_measurement": None})
            rep.decide(_eq(mid, want_mid) and _eq(fin, want_fin), rule, sf, sf.node, text=f"split at positions {ind} (not a prefix): selected positions on one side, all the others on the other",
                       what="the joint distribution is split into the marginal on the given positions and the marginal on the complement, wherever the positions are",
                       reason=f"got {mid} / {fin}")
        fo2 = cs.make_folder(idx, POST)
        mid, fin = fo2.run_function(sf.node, {"frequencies": dict(base), "indices": [0, 1], "desired_measurement": "ab"})
        ok = _eq(mid, {"ab": (c1 + c2) / tot, "pq": c3 / tot}) and _eq(fin, {"cde": c1 / (c1 + c2), "Xde": c2 / (c1 + c2)})
        rep.decide(ok, rule, sf, sf.node, text="split with requested outcome 'ab': final part is post-selected on it and renormalised",
                   what="with a requested mid-circuit outcome the final distribution is the renormalised branch distribution", reason=f"got {mid} / {fin}")
        sl = idx.function(f"{POST}::split_frequency_dict_for_last_n_digits")
        fo2 = cs.make_folder(idx, POST)
        f1, f2 = fo2.run_function(sl.node, {"frequencies": {"abcde": c1, "abXde": c2, "pqcde": c3}, "n": 2})
        ok = _eq(f1, {"abc": c1, "abX": c2, "pqc": c3}) and _eq(f2, {"de": tot})
        rep.decide(ok, rule, sl, sl.node, text="last-2 split: heads keep their counts, equal tails accumulate", what="splitting off the last n characters conserves the total on both sides",
                   reason=f"got {f1} / {f2}")
        fo2 = cs.make_folder(idx, POST)
        f1, f2 = fo2.run_function(sl.node, {"frequencies": {"abcde": c1, "abcXY": c2, "pqcde": c3}, "n": 2})
        ok = _eq(f1, {"abc": c1 + c2, "pqc": c3}) and _eq(f2, {"de": c1 + c3, "XY": c2})
        rep.decide(ok, rule, sl, sl.node, text="last-2 split: equal heads accumulate too", what="records that differ only in the last n characters add up on the head side",
                   reason=f"got {f1} / {f2}")
        pf = idx.function(f"{POST}::post_select")
        fo2 = cs.make_folder(idx, POST)
        r = fo2.run_function(pf.node, {"freqs": dict(base), "expected_outcomes": {4: "e"}})
        ok = _eq(r, {"abcd": c1 / (c1 + c2), "abXd": c2 / (c1 + c2)})
        rep.decide(ok, rule, pf, pf.node, text="post_select({4: 'e'}) keeps matching outcomes, removes the position, renormalises", what="post-selected frequencies are renormalised over the kept outcomes",
                   reason=f"got {r}")
        c4 = sp.Symbol("c4", positive=True)
        fo2 = cs.make_folder(idx, POST)
        r = fo2.run_function(pf.node, {"freqs": {"abcde": c1, "abXde": c2, "pqcde": c3, "abcdZ": c4}, "expected_outcomes": {0: "a", 4: "e"}})
        ok = _eq(r, {"bcd": c1 / (c1 + c2), "bXd": c2 / (c1 + c2)})
        rep.decide(ok, rule, pf, pf.node, text="post_select({0: 'a', 4: 'e'}) keeps only outcomes matching every requested position",
                   what="post-selection on several positions keeps the outcomes that match all of them (the requested branch), removes those positions and renormalises",
                   reason=f"got {r}")
        fo2 = cs.make_folder(idx, POST)
        mid, fin = fo2.run_function(sf.node, {"frequencies": {"abcde": c1, "aYcdP": c2, "WbcdQ": c3, "WYXdR": c1}, "indices": [0, 1], "desired_measurement": "ab"})
        ok = _eq(fin, {"cde": sp.Integer(1)})
        rep.decide(ok, rule, sf, sf.node, text="split with requested outcome 'ab' over two positions: only the branch matching both positions remains",
                   what="with a requested mid-circuit outcome string the final distribution is that of the branch matching the whole string", reason=f"got {fin}")
        st = idx.function(f"{POST}::strip_post_selection")
        fo2 = cs.make_folder(idx, POST)
        r = fo2.run_function(st.node, {"freqs": dict(base), "qubits": (2,)})
        ok = _eq(r, {"abde": (c1 + c2) / tot, "pqst": c3 / tot})
        rep.decide(ok, rule, st, st.node, text="strip_post_selection(2) marginalises position 2", what="stripping an ancilla aggregates the outcomes that differ only there", reason=f"got {r}")
    except Undecidable as e:
        raise AnalysisError(f"post-selection functions not foldable: {e}")


def check_hist_purity(idx: Index, rep: Report, an: Analyzer):
    rule = "K1.histogram-inputs"
    cases = [(f"{HIST}::aggregate_histograms", ["hists"]), (f"{HIST}::filter_hist", ["hist"]), (f"{HIST}::Histogram.resample", ["self"]),
             (f"{HIST}::Histogram.__add__", ["self", "other"]), (f"{HIST}::Histogram.__eq__", ["self", "other"]),
             (f"{HIST}::Histogram.get_expectation_value", ["self"]), (f"{HIST}::Histogram.__init__", ["outcomes"]),
             (f"{POST}::post_select", ["freqs", "expected_outcomes"]), (f"{POST}::strip_post_selection", ["freqs"]),
             (f"{POST}::split_frequency_dict", ["frequencies", "indices"]), (f"{POST}::split_frequency_dict_for_last_n_digits", ["frequencies"]),
             (f"{BOOT}::get_resampled_frequencies", ["freq_dict"]), (f"{GROUP}::exp_value_from_measurement_bases", ["sub_ops", "histograms"]),
             (f"{GROUP}::group_qwc", ["qb_ham"]), (f"{GROUP}::map_measurements_qwc", ["qwc_group_map"])]
    for ref, params in cases:
        f = idx.function(ref)
        check_purity(idx, rep, an, f, params, rule=rule, self_class=f.cls, what="the operation returns new data and leaves its inputs unchanged")
    # Histogram keeps its own copy of the outcomes
    init = idx.function(f"{HIST}::Histogram.__init__")
    st = [n for n in own_nodes(init.node) if isinstance(n, ast.Assign) and norm(n.targets[0]) == "self.counts" and "outcomes" in norm(n.value)]
    ok = bool(st) and all(norm(x.value) in ("outcomes.copy()", "dict(outcomes)") for x in st)
    rep.decide(ok, rule, init, st[0] if st else init.node, text="Histogram stores a copy of the outcomes", what="a Histogram never shares its counts with the dictionary it was built from",
               reason=f"counts stored as {norm(st[0].value) if st else '?'}")


def check_assembly(idx: Index, rep: Report):
    rule = "K9.assembly"
    from ..rules import circuitsem as cs
    from .C14 import _QOp
    f = idx.function(f"{GROUP}::exp_value_from_measurement_bases")
    b1, b2 = ((0, "X"), (1, "Z")), ((0, "Z"),)
    o1, o2 = _QOp(), _QOp()
    ca, cb, cc = sp.symbols("ca cb cc")
    o1.terms = {((0, "X"),): ca, ((0, "X"), (1, "Z")): cb}
    o2.terms = {((0, "Z"),): cc, (): ca}

    def probe(args, kwargs):
        return sp.Symbol(f"E[{args[0]}|{args[1]}]")
    fo = cs.make_folder(idx, GROUP, ctors={"get_expectation_value_from_frequencies_oneterm": probe})
    fo.env["warnings"] = Opaque("warnings")
    try:
        got = fo.run_function(f.node, {"sub_ops": {b1: o1, b2: o2}, "histograms": {b2: "H2", b1: "H1"}})
    except (Undecidable, Raised) as e:
        raise AnalysisError(f"exp_value_from_measurement_bases not foldable: {e}")
    want = ca * probe([((0, "X"),), "H1"], {}) + cb * probe([((0, "X"), (1, "Z")), "H1"], {}) + cc * probe([((0, "Z"),), "H2"], {}) + ca * probe([(), "H2"], {})
    rep.decide(sp.simplify(sp.nsimplify(got) - want) == 0, rule, f, f.node, text="sum over bases, sum over the basis' own terms: <term>_hist(basis) * coef",
               what="each term is evaluated once, on the histogram of its own basis, with its own coefficient", reason=f"folds to {got}")
    g = idx.function(f"{GROUP}::group_qwc")
    for sizes in ((3, 2, 4), (2, 3, 3), (4, 4, 1), (3,)):
        outs = [{f"run{j}-basis{i}": f"op{j}.{i}" for i in range(n)} for j, n in enumerate(sizes)]
        calls = []

        def grouping(args, kwargs, outs=outs, calls=calls):
            calls.append(args)
            return dict(outs[len(calls) - 1])
        fo = cs.make_folder(idx, GROUP, ctors={"group_into_tensor_product_basis_sets": grouping})
        try:
            got = fo.run_function(g.node, {"qb_ham": Opaque("qb_ham"), "seed": 11, "n_repeat": len(sizes)})
        except (Undecidable, Raised, IndexError) as e:
            raise AnalysisError(f"group_qwc not foldable: {e}")
        ok = got in outs and len(got) == min(sizes) and len(calls) == len(sizes) and all(c and c[0] == Opaque("qb_ham") for c in calls) and calls[0][1:] == [11]
        rep.decide(ok, rule, g, g.node, text=f"{len(sizes)} grouping run(s) of sizes {sizes}: one complete, smallest grouping is returned",
                   what="the wrapper returns a grouping produced for the whole operator (never a mix of two runs), the smallest of the repeats, the first run seeded as asked",
                   reason=f"returned {got}; grouping calls {calls}")
    c = idx.function(f"{GROUP}::check_bases_commute_qwc")
    letters = [None, "X", "Y", "Z"]
    bases = [tuple((q, l) for q, l in enumerate(ls) if l) for ls in itertools.product(letters, repeat=2)]
    bad = []
    for x in bases:
        for y in bases:
            fo = cs.make_folder(idx, GROUP)
            try:
                got = fo.run_function(c.node, {"b1": x, "b2": y})
            except (Undecidable, Raised) as e:
                raise AnalysisError(f"check_bases_commute_qwc not foldable: {e}")
            dx, dy = dict(x), dict(y)
            want_c = all(dx[q] == dy[q] for q in set(dx) & set(dy))
            if bool(got) != want_c:
                bad.append((x, y, got))
    rep.decide(not bad, rule, c, c.node, text=f"qubit-wise commutation over all {len(bases) ** 2} pairs of two-qubit bases", what="two bases are compatible iff they agree on every qubit both act on",
               reason=f"e.g. {bad[:1]}")
    # which measured bases may be pooled for a Pauli word (used when expectation values are assembled from experimental histograms): the word has to be
    # diagonal in the basis - on every qubit it acts on, the basis measures that very letter (an unrotated qubit, 'I' in the basis string, is read in Z)
    MB = "tangelo/linq/helpers/circuits/measurement_basis.py"
    gcb = idx.function(f"{MB}::get_compatible_bases")
    words = ["".join(w) for w in itertools.product("IXYZ", repeat=2)]
    bad = []
    for op in words:
        fo = cs.make_folder(idx, MB)
        try:
            got = fo.run_function(gcb.node, {"op": op, "basis_list": list(words)})
        except (Undecidable, Raised) as e:
            raise AnalysisError(f"get_compatible_bases not foldable: {e}")
        diagonal = {b for b in words if all(o == "I" or o == p_ or (o == "Z" and p_ == "I") for o, p_ in zip(op, b))}
        needed = {b for b in words if all(o == "I" or o == p_ for o, p_ in zip(op, b))}
        extra, missing = set(got) - diagonal, needed - set(got)
        if extra or missing or len(got) != len(set(got)):
            bad.append(f"{op}: " + (f"accepts {sorted(extra)[:3]} in which it is not diagonal" if extra else f"rejects {sorted(missing)[:3]}"))
    rep.decide(not bad, rule, gcb, gcb.node, text=f"bases compatible with a Pauli word, for all {len(words)} two-qubit words against all {len(words)} bases",
               what="a histogram is pooled for a word only if the word is diagonal in the measured basis (same letter on every qubit the word acts on), and every basis that "
                    "measures the word's letters is accepted", reason="; ".join(bad[:3]))
