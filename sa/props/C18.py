"""C18 Measurement grouping and histogram processing conserve information (thin structural part).

C18.a     accumulate-not-overwrite at every lossy re-keying site (Histogram.remove_qubit_indices, the last-n split, the sample
          counters of target_cirq); total bit-order reversal k[::-1] is injective and needs no accumulation
C18.b     remove_qubit_indices keeps exactly the characters whose position is not removed, in order; post_select filters on the
          expected characters and then removes exactly those positions; frequencies = counts / sum(counts)
C18.c K1  histogram operations documented as returning new objects do not mutate their inputs; Histogram.__init__ copies the
          outcome dictionary it is given
C18.d     exp_value_from_measurement_bases visits every (basis, term) once with its own coefficient and histogram; the grouping
          wrapper only ever returns a partition produced by the grouping routine (smallest of the repeats)
"""
from __future__ import annotations

import ast
from typing import List

import sympy as sp

from ..alias import Analyzer
from ..index import AnalysisError, FunctionInfo, Index, full, norm, own_nodes
from ..report import Report
from ..rules.purity import check_purity
from .. import symx

HIST = "tangelo/toolboxes/post_processing/histogram.py"
POST = "tangelo/toolboxes/post_processing/post_selection.py"
GROUP = "tangelo/toolboxes/measurements/qubit_terms_grouping.py"
TCIRQ = "tangelo/linq/target/target_cirq.py"
BOOT = "tangelo/toolboxes/post_processing/bootstrapping.py"


def run(idx: Index, rep: Report, tier: str):
    rep.explain("C18 thin structural part: accumulation at every re-keying site, positional selection in marginalisation and "
                "post-selection, normalisation of frequencies, may-mutate analysis of the out-of-place histogram operations, and the "
                "loop structure of the per-basis expectation assembly.")
    rep.trust("CPython ast", "sa.alias library summary tables")
    rep.assume("the partition property of openfermion's grouping routine, rounding in Histogram.__init__ and resampling statistics are not decided")
    check_accumulation(idx, rep)
    check_positional_selection(idx, rep)
    an = Analyzer(idx, max_depth=5)
    check_hist_purity(idx, rep, an)
    check_assembly(idx, rep)


def _is_accumulate(assign: ast.Assign) -> bool:
    t = assign.targets[0]
    if not isinstance(t, ast.Subscript):
        return False
    d, k = norm(t.value), norm(t.slice)
    try:
        prev = sp.Symbol("prev")

        def unk(n):
            if isinstance(n, ast.Call) and norm(n.func) == f"{d}.get" and len(n.args) == 2 and norm(n.args[0]) == k and \
                    isinstance(n.args[1], ast.Constant) and n.args[1].value == 0:
                return prev
            if isinstance(n, ast.Subscript) and norm(n) == f"{d}[{k}]":
                return prev
            return None
        v = symx.to_sympy(assign.value, on_unknown=unk)
        rest = sp.simplify(v - prev)
        return prev not in rest.free_symbols and rest != 0
    except symx.Untranslatable:
        return False


def check_accumulation(idx: Index, rep: Report):
    rule = "K9.accumulate"
    sites = []
    f = idx.function(f"{HIST}::Histogram.remove_qubit_indices")
    sites += [(f, n) for n in own_nodes(f.node) if isinstance(n, ast.Assign) and isinstance(n.targets[0], ast.Subscript) and norm(n.targets[0].value) == "new_counts"]
    g = idx.function(f"{TCIRQ}::CirqSimulator.simulate_circuit")
    sites += [(g, n) for n in own_nodes(g.node) if isinstance(n, ast.Assign) and isinstance(n.targets[0], ast.Subscript) and norm(n.targets[0].value) == "samples"]
    for fn, n in sites:
        rep.decide(_is_accumulate(n), rule, fn, n, text=f"{norm(n.targets[0])} accumulates",
                   what="outcomes that coincide after re-keying have their counts added (never overwritten)", reason=f"update is {norm(n.value)}")
    rep.floor("accumulation sites", len(sites), 4)
    # dict comprehensions that re-key must be injective: only the full reversal k[::-1] is accepted
    for rel, qn in ((HIST, "Histogram.__init__"),):
        h = idx.function(f"{rel}::{qn}")
        for n in own_nodes(h.node):
            if isinstance(n, ast.DictComp) and norm(n.key) != norm(n.generators[0].target.elts[0] if isinstance(n.generators[0].target, ast.Tuple) else n.generators[0].target):
                ok = norm(n.key).endswith("[::-1]")
                rep.decide(ok, rule, h, n, text=f"re-keying {norm(n.key)} is injective", what="re-keying by a dict comprehension must be one-to-one (full reversal)",
                           reason=f"keys rewritten as {norm(n.key)}: distinct outcomes may collide and overwrite each other")


def check_positional_selection(idx: Index, rep: Report):
    rule = "K9.positions"
    f = idx.function(f"{HIST}::Histogram.remove_qubit_indices")
    nb = [n for n in own_nodes(f.node) if isinstance(n, ast.Assign) and norm(n.targets[0]) == "new_bitstring"]
    ok = bool(nb) and norm(nb[0].value) == "''.join([bitstring[qubit_i] for qubit_i in range(len(bitstring)) if qubit_i not in indices])"
    rep.decide(ok, rule, f, nb[0] if nb else f.node, text="kept characters: positions not in indices, in order",
               what="marginalising removes exactly the requested positions and keeps the others in order", reason=f"new bitstring {norm(nb[0].value) if nb else '?'}")
    ok = any(isinstance(n, ast.Assign) and norm(n.targets[0]) == "self.counts" and norm(n.value) == "new_counts" for n in own_nodes(f.node))
    rep.decide(ok, rule, f, f.node, text="counts replaced by the re-keyed counts", what="the marginal counts replace the old ones", reason="result not stored")
    p = idx.function(f"{HIST}::Histogram.post_select")
    txt = full(p.node)
    inner = idx.function(f"{HIST}::Histogram.post_select.f_post_select")
    itxt = full(inner.node)
    ok = "for qubit_i, expected_bit in expected_outcomes.items()" in itxt and "if bitstring[qubit_i] != expected_bit: return False" in itxt and itxt.rstrip().endswith("return True")
    rep.decide(ok, rule, inner, inner.node, text="keep a bitstring iff every expected position carries the expected character",
               what="post-selection keeps exactly the outcomes matching all expected characters", reason="predicate changed")
    ok = "new_hist = filter_hist(self, f_post_select)" in txt and "self.remove_qubit_indices(*list(expected_outcomes.keys()))" in txt and \
        txt.index("filter_hist") < txt.index("self.remove_qubit_indices")
    rep.decide(ok, rule, p, p.node, text="filter, then remove exactly the post-selected positions", what="the post-selected positions (and only those) are removed after filtering",
               reason="order or arguments of filter / removal changed")
    fr = idx.function(f"{HIST}::Histogram.frequencies")
    ok = "counts / self.n_shots" in full(fr.node)
    ns = idx.function(f"{HIST}::Histogram.n_shots")
    ok = ok and "return sum(self.counts.values())" in full(ns.node)
    rep.decide(ok, rule, fr, fr.node, text="frequencies = counts / sum(counts)", what="frequencies are normalised by the total count, so they sum to one",
               reason="normalisation changed")
    fh = idx.function(f"{HIST}::filter_hist")
    ok = "{bitstring: counts for bitstring, counts in hist.counts.items() if function(bitstring, *args, **kwargs)}" in full(fh.node)
    rep.decide(ok, rule, fh, fh.node, text="filter keeps entries unchanged", what="filtering keeps the selected entries with their counts", reason="filter comprehension changed")
    ag = idx.function(f"{HIST}::aggregate_histograms")
    ok = "sum([Counter({k: v for k, v in h.counts.items()}) for h in hists], Counter())" in full(ag.node)
    rep.decide(ok, rule, ag, ag.node, text="aggregation = sum of Counters over all inputs", what="aggregating adds the counts of equal bitstrings over all histograms",
               reason="aggregation expression changed")
    bs = idx.function(f"{BOOT}::get_resampled_frequencies")
    t = full(bs.node)
    ok = "format_specifier = '0' + str(n_qubits) + 'b'" in t and "xk[i] = int(k, 2)" in t and "v / ncount" in t
    rep.decide(ok, rule, bs, bs.node, text="resampling: int(k, 2) <-> format(k, '0<n>b'), normalised by the number of draws",
               what="resampled outcomes are formatted back to bitstrings of the original length and normalised by the number of draws",
               reason="bitstring <-> integer conversion or normalisation changed")


def check_hist_purity(idx: Index, rep: Report, an: Analyzer):
    rule = "K1.histogram-inputs"
    cases = [(f"{HIST}::aggregate_histograms", ["hists"]), (f"{HIST}::filter_hist", ["hist"]), (f"{HIST}::Histogram.resample", ["self"]),
             (f"{HIST}::Histogram.__add__", ["self", "other"]), (f"{HIST}::Histogram.__eq__", ["self", "other"]),
             (f"{HIST}::Histogram.get_expectation_value", ["self"]), (f"{HIST}::Histogram.__init__", ["outcomes"]),
             (f"{POST}::post_select", ["freqs", "expected_outcomes"]), (f"{POST}::strip_post_selection", ["freqs"]),
             (f"{POST}::split_frequency_dict", ["frequencies", "indices"]), (f"{POST}::split_frequency_dict_for_last_n_digits", ["frequencies"]),
             (f"{BOOT}::get_resampled_frequencies", ["freq_dict"]), (f"{GROUP}::exp_value_from_measurement_bases", ["sub_ops", "histograms"]),
             (f"{GROUP}::group_qwc", ["qb_ham"]), (f"{GROUP}::map_measurements_qwc", ["qwc_group_map"])]
    for ref, params in cases:
        f = idx.function(ref)
        check_purity(idx, rep, an, f, params, rule=rule, self_class=f.cls, what="the operation returns new data and leaves its inputs unchanged")
    # Histogram keeps its own copy of the outcomes
    init = idx.function(f"{HIST}::Histogram.__init__")
    st = [n for n in own_nodes(init.node) if isinstance(n, ast.Assign) and norm(n.targets[0]) == "self.counts" and "outcomes" in norm(n.value)]
    ok = bool(st) and all(norm(x.value) in ("outcomes.copy()", "dict(outcomes)") for x in st)
    rep.decide(ok, rule, init, st[0] if st else init.node, text="Histogram stores a copy of the outcomes", what="a Histogram never shares its counts with the dictionary it was built from",
               reason=f"counts stored as {norm(st[0].value) if st else '?'}")


def check_assembly(idx: Index, rep: Report):
    rule = "K9.assembly"
    f = idx.function(f"{GROUP}::exp_value_from_measurement_bases")
    t = full(f.node)
    ok = "for basis, freqs in histograms.items(): for term, coef in sub_ops[basis].terms.items(): exp_value += get_expectation_value_from_frequencies_oneterm(term, freqs) * coef" in t
    rep.decide(ok, rule, f, f.node, text="sum over bases, sum over the basis' own terms: <term>_hist(basis) * coef",
               what="each term is evaluated once, on the histogram of its own basis, with its own coefficient", reason="assembly loop changed")
    g = idx.function(f"{GROUP}::group_qwc")
    t = full(g.node)
    ok = "res = group_into_tensor_product_basis_sets(qb_ham, seed)" in t and "if len(res2) < len(res): res = res2" in t and t.rstrip().endswith("return res")
    rep.decide(ok, rule, g, g.node, text="returns one complete grouping (the smallest of the repeats)", what="the wrapper returns a grouping produced for the whole operator, never a mix of two runs",
               reason="wrapper logic changed")
    c = idx.function(f"{GROUP}::check_bases_commute_qwc")
    t = full(c.node)
    ok = "for i in set(b1_dict) & set(b2_dict): if b1_dict[i] != b2_dict[i]: return False" in t and t.rstrip().endswith("return True")
    rep.decide(ok, rule, c, c.node, text="qubit-wise commutation: equal letters on every shared qubit", what="two bases are compatible iff they agree on every qubit both act on",
               reason="compatibility test changed")
