"""C10 Mid-circuit measurement and classical control follow the Born rule (thin structural part).

C10.a K7  Backend.simulate hands every state/measurement selecting argument to simulate_circuit on the mid-circuit path and
          validates the length of the requested outcome string before simulating
C10.b     every probability returned by a collapse / measurement in the piecewise simulation of target_cirq is multiplied into
          the running success probability, which is stored under the outcome string after the pieces have been simulated
C10.c K9  collapse_statevector_to_desired_measurement: reshape extents are mirror images under the order flag and multiply to
          2^(n-1); the zeroed slice is the complement of the requested result; the probability returned is the square of the
          norm used for renormalisation; perform_measurement picks outcome 0 with probability p0
C10.d K8  the duplicated control loop (generate_applied_gates vs the CMEASURE branch of CirqSimulator.simulate_circuit) has the
          same statement skeleton once simulation statements are removed
C10.a2 K7 the record splitter is chosen by the presence of CMEASURE (test folded on a grid of gate counts); K10 the cirq all-shots path assembles
          shot strings in the numeric order of the record keys (folded on a 12-column result)
C10.e     splitting joint frequencies: complementary index sets; the last-n split accumulates instead of overwriting
"""
from __future__ import annotations

import ast
import itertools
from typing import Dict, List, Optional, Set

import sympy as sp

from ..consteval import Folder, Raised, Undecidable
from ..index import AnalysisError, FunctionInfo, Index, full, norm, own_nodes, resolve_local
from ..report import Report
from ..rules import siblings as sib
from .. import symx

BACKEND = "tangelo/linq/target/backend.py"
TCIRQ = "tangelo/linq/target/target_cirq.py"
CIRCUIT = "tangelo/linq/circuit.py"
POST = "tangelo/toolboxes/post_processing/post_selection.py"


def check_per_shot_products(idx: Index, rep: Report):
    """The probability recorded for an outcome is the product of the branch probabilities met in ONE run through the circuit.  In every loop of the simulate
    functions, a name that is multiplied up inside the loop (`v *= p`) and whose value is recorded inside the same loop (stored into a container or an
    attribute) is set afresh inside that loop: a product that starts before the loop carries the previous shot's factors into this shot's record."""
    rule = "K8.per-shot-product"
    n = 0
    for rel in (TCIRQ, BACKEND):
        m = idx.module_by_relpath(rel)
        for f in m.functions.values():
            for loop in own_nodes(f.node):
                if not isinstance(loop, (ast.For, ast.While)):
                    continue
                body = ast.Module(body=loop.body, type_ignores=[])
                prods = {}
                for x in ast.walk(body):
                    if isinstance(x, ast.AugAssign) and isinstance(x.op, ast.Mult) and isinstance(x.target, ast.Name):
                        prods.setdefault(x.target.id, x)
                for v, aug in prods.items():
                    carriers = {v}                  # locals that hand the product on inside the loop
                    for _round in range(3):
                        for x in ast.walk(body):
                            if isinstance(x, ast.Assign) and len(x.targets) == 1 and isinstance(x.targets[0], ast.Name) and x.targets[0].id != v and \
                                    any(isinstance(y, ast.Name) and y.id in carriers for y in ast.walk(x.value)):
                                carriers.add(x.targets[0].id)
                    recorded = [x for x in ast.walk(body) if isinstance(x, ast.Assign) and any(isinstance(t, (ast.Subscript, ast.Attribute)) for t in x.targets)
                                and any(isinstance(y, ast.Name) and y.id in carriers for y in ast.walk(x.value))]
                    if not recorded:
                        continue
                    # the innermost loop that contains both the product and the record is the one that has to reset it
                    inner = [l2 for l2 in ast.walk(body) if isinstance(l2, (ast.For, ast.While)) and any(z is aug for z in ast.walk(l2)) and any(z is recorded[0] for z in ast.walk(l2))]
                    if inner:
                        continue
                    reset = [x for x in ast.walk(body) if isinstance(x, ast.Assign) and any(isinstance(t, ast.Name) and t.id == v for t in x.targets)]
                    n += 1
                    rep.decide(bool(reset), rule, f, aug, text=f"{f.qualname}: `{v}` multiplied up and recorded ({norm(recorded[0])[:50]}) in the loop at line {loop.lineno}",
                               what="a probability multiplied up and recorded inside a loop over shots starts from its initial value in every iteration",
                               reason=f"`{v}` is not assigned inside the loop: the factors of the previous iterations stay in the product, so the probability recorded for an "
                                      f"outcome after k shots is the product over k shots (recorded probabilities no longer sum to one)")
    rep.floor("probabilities multiplied up and recorded inside a loop", n, 1)


def run(idx: Index, rep: Report, tier: str):
    rep.explain("C10 thin structural part: argument forwarding on the mid-circuit path, dataflow of branch probabilities into the stored "
                "success probability, symbolic shape/slice/probability obligations of the collapse routine, sibling agreement of the "
                "duplicated classical-control loop, and complement/accumulation obligations of the frequency splitters.")
    rep.trust("CPython ast", "sympy simplify")
    rep.assume("Born-rule numerics, probabilities summing to one and sampling statistics are not decided")
    check_simulate_forwarding(idx, rep)
    check_probability_flow(idx, rep)
    check_collapse(idx, rep)
    check_control_loop_clone(idx, rep)
    check_nested_control_replay(idx, rep)
    check_frequency_split(idx, rep)
    check_cirq_record_assembly(idx, rep)
    check_collapse_numeric(idx, rep)
    from .C01 import check_cirq_initial_state
    check_cirq_initial_state(idx, rep)          # the unconditioned distribution and its branches start from the same supplied state on every cirq path
    check_per_shot_products(idx, rep)


def check_simulate_forwarding(idx: Index, rep: Report):
    rule = "K7.midcircuit-forwarding"
    f = idx.function(f"{BACKEND}::Backend.simulate")
    calls = [c for c in own_nodes(f.node) if isinstance(c, ast.Call) and norm(c.func) == "self.simulate_circuit"]
    rep.floor("simulate_circuit calls in Backend.simulate", len(calls), 2)
    from ..props.C19 import _enclosing_tests
    for c in calls:
        kws = {k.arg: norm(k.value) for k in c.keywords}
        tests = _enclosing_tests(f, c)
        mid = "save_mid_circuit_meas" in tests
        need = ["return_statevector", "initial_statevector"] + (["desired_meas_result", "save_mid_circuit_meas"] if mid else [])
        for q in need:
            rep.decide(kws.get(q) == q, rule, f, c, text=f"simulate_circuit({'mid-circuit' if mid else 'plain'}): {q}={kws.get(q)}",
                       what=f"{q} reaches the backend's simulate_circuit on the {'mid-circuit' if mid else 'plain'} path",
                       reason=f"{q} is not forwarded: the backend simulates as if it had not been given")
        ok = c.args and norm(c.args[0]) == "source_circuit"
        rep.decide(bool(ok), rule, f, c, text="simulate_circuit(source_circuit, ...)", what="the circuit simulated is the one given", reason="another circuit is simulated")
    # outcome string validated before simulation: length equals the number of MEASURE gates (without CMEASURE)
    guards = [n for n in own_nodes(f.node) if isinstance(n, ast.If) and "len(desired_meas_result) != n_meas" in norm(n.test) and
              n.body and isinstance(n.body[0], ast.Raise)]
    first_call = min(c.lineno for c in calls) if calls else 0
    ok = bool(guards) and guards[0].lineno < first_call and "isinstance(desired_meas_result, str)" in norm(guards[0].test)
    rep.decide(ok, rule, f, guards[0] if guards else f.node, text="desired outcome string validated (type and length) before simulating",
               what="a requested outcome string of the wrong length or type is refused", reason="validation of desired_meas_result missing or after the simulation")
    # mixed-state circuits need shots unless an outcome string or saved measurements are requested
    g2 = [n for n in ast.walk(f.node) if isinstance(n, ast.If) and "source_circuit.is_mixed_state and (not self.n_shots)" in norm(n.test).replace("not self.n_shots", "(not self.n_shots)")]
    ok = any(isinstance(n, ast.If) and "is_mixed_state" in norm(n.test) and "n_shots" in norm(n.test) and n.body and isinstance(n.body[0], ast.Raise) for n in ast.walk(f.node))
    rep.decide(ok, rule, f, f.node, text="mixed-state circuit without shots is refused", what="a circuit with measurements and no outcome request cannot be simulated exactly",
               reason="guard for mixed-state circuits without shots is missing")
    # splitting uses the measurement positions 0..n_meas-1 and the requested outcome
    sp_calls = [c for c in own_nodes(f.node) if isinstance(c, ast.Call) and norm(c.func) == "split_frequency_dict"]
    ok = bool(sp_calls) and norm(sp_calls[0].args[0]) == "all_frequencies" and norm(sp_calls[0].args[1]) == "list(range(n_meas))" and \
        any(k.arg == "desired_measurement" and norm(k.value) == "desired_meas_result" for k in sp_calls[0].keywords)
    rep.decide(ok, rule, f, sp_calls[0] if sp_calls else f.node, text="split_frequency_dict(all_frequencies, range(n_meas), desired_measurement=desired_meas_result)",
               what="the leading n_meas characters are the mid-circuit outcomes; the final distribution is post-selected on the requested string",
               reason="joint frequencies are split with other indices / without the requested outcome")
    check_record_split_dispatch(idx, rep)


def check_record_split_dispatch(idx: Index, rep: Report):
    """which splitter post-processes the saved record: the fixed-length split on the leading n_meas characters is right exactly when the circuit has
    no CMEASURE (a classically controlled measurement makes the record length vary from shot to shot, and the engine then returns record + final
    bits, or the final bits alone); decided from the *value* of the dispatching test on a grid of gate counts"""
    from ..consteval import Folder, Raised, Undecidable
    rule = "K7.record-split"
    f = idx.function(f"{BACKEND}::Backend.simulate")

    def calls_in(stmts, name):
        return any(isinstance(n, ast.Call) and norm(n.func) == name for s_ in stmts for n in ast.walk(s_))
    disp = [n for n in own_nodes(f.node) if isinstance(n, ast.If) and n.orelse and not (calls_in(n.body, "split_frequency_dict") and calls_in(n.body, "split_frequency_dict_for_last_n_digits")) and
            {calls_in(n.body, "split_frequency_dict"), calls_in(n.orelse, "split_frequency_dict")} == {True, False} and
            (calls_in(n.body, "split_frequency_dict_for_last_n_digits") or calls_in(n.orelse, "split_frequency_dict_for_last_n_digits"))]
    if len(disp) != 1:
        raise AnalysisError("Backend.simulate: the if/else choosing between split_frequency_dict and split_frequency_dict_for_last_n_digits was not found")
    d = disp[0]
    fixed_in_body = calls_in(d.body, "split_frequency_dict")
    bad = []
    for n_meas, n_cmeas in itertools.product(range(3), range(3)):
        fo = Folder(env={"n_meas": n_meas, "n_cmeas": n_cmeas, "desired_meas_result": None, "save_mid_circuit_meas": True})
        try:
            t = bool(fo.truth(fo.expr(d.test), d.test))
        except (Undecidable, Raised) as e:
            raise AnalysisError(f"Backend.simulate: dispatch test `{norm(d.test)}` not foldable: {e}")
        fixed = t if fixed_in_body else not t
        if (n_meas, n_cmeas) != (0, 0) and fixed != (n_cmeas == 0):        # with nothing measured the record is empty and both splitters agree
            bad.append(f"{n_meas} MEASURE + {n_cmeas} CMEASURE -> {'fixed-length split on the first n_meas characters' if fixed else 'split on the last n_qubits characters'}")
    rep.decide(not bad, rule, f, d, text=f"record split dispatch `{norm(d.test)}` on 8 (MEASURE, CMEASURE) count pairs",
               what="the saved record is split at a fixed n_meas characters exactly when the circuit has no classically controlled measurement, and on the last "
                    "n_qubits characters otherwise", reason="; ".join(bad[:3]))


def check_cirq_record_assembly(idx: Index, rep: Report):
    """the all-shots-at-once path of the cirq target: measurement records come back as one column per key (keys are the decimal strings of the record
    position: saved mid-circuit measurements first, then qubit i under n_meas + i); the statements that assemble the per-shot strings are folded on a
    12-key result with pairwise different columns, so that any other column order - e.g. the lexicographic order of the keys, which differs from the
    numeric one from ten keys on - changes at least one string"""
    import numpy as np
    from ..consteval import Raised, Rec, Undecidable
    from ..rules import circuitsem as cs
    rule = "K10.record-order"
    cls = idx.cls(f"{TCIRQ}::CirqSimulator")
    f = cls.methods["simulate_circuit"]

    def is_run(s_):
        return isinstance(s_, ast.Assign) and isinstance(s_.value, ast.Call) and isinstance(s_.value.func, ast.Attribute) and s_.value.func.attr == "run"
    brs = [n for n in ast.walk(f.node) if isinstance(n, ast.If) and any(is_run(s_) for s_ in n.body)]
    if len(brs) != 1:
        raise AnalysisError("CirqSimulator.simulate_circuit: the branch that runs all shots at once (`... = cirq_simulator.run(...)`) was not found")
    b = brs[0]
    i0 = [i for i, s_ in enumerate(b.body) if is_run(s_)][0]
    res_name = norm(b.body[i0].targets[0])
    keys = [n for s_ in b.body[:i0] for n in ast.walk(s_) if isinstance(n, ast.keyword) and n.arg == "key"]
    if not keys or norm(keys[0].value) not in ("str(i + n_meas)", "str(n_meas + i)"):
        raise AnalysisError(f"CirqSimulator.simulate_circuit: final measurements are expected under key str(i + n_meas), found {[norm(k.value) for k in keys]}")
    for n_meas, width in ((2, 10), (0, 11), (11, 1), (1, 2)):
        ncol = n_meas + width
        shots = 4
        rows = [[((k + 1) >> j) & 1 for k in range(ncol)] for j in range(shots)]           # column k spells k + 1 in binary: pairwise different columns
        meas = {str(k): np.array([[rows[j][k]] for j in range(shots)], dtype=np.int8) for k in range(ncol)}
        fo = cs.make_folder(idx, TCIRQ)
        me = Rec("CirqSimulator", {"n_shots": shots})
        fo.env.update({"self": me, "source_circuit": Rec("Circuit", {"width": width}), "n_meas": n_meas, res_name: Rec("Result", {"measurements": meas})})
        try:
            fo.block(b.body[i0 + 1:])
        except (Raised, Undecidable) as e:
            raise AnalysisError(f"CirqSimulator.simulate_circuit: record assembly not foldable ({type(e).__name__}: {e})")
        got = me.fields.get("all_frequencies")
        want = {}
        for r in rows:
            k = "".join(map(str, r))
            want[k] = want.get(k, 0) + sp.Rational(1, shots)
        try:
            ok = isinstance(got, dict) and set(got) == set(want) and all(abs(float(got[k]) - float(want[k])) < 1e-12 for k in want)
        except TypeError:
            ok = False
        rep.decide(ok, rule, f, b.body[i0], text=f"{n_meas} saved measurements + {width} qubits, {shots} shots: per-shot strings from the {ncol} record columns",
                   what="character p of a shot string is the record stored under key str(p): saved mid-circuit outcomes first, then qubit i at position n_meas + i",
                   reason=f"assembled strings {sorted(got) if isinstance(got, dict) else got!r}, expected {sorted(want)}")


def _innermost_loop(f: FunctionInfo, node: ast.AST):
    best = None
    for n in ast.walk(f.node):
        if isinstance(n, (ast.For, ast.While)) and any(x is node for b in n.body for x in ast.walk(b)):
            if best is None or n.lineno > best.lineno:
                best = n
    return best


def check_probability_flow(idx: Index, rep: Report):
    rule = "K6.probability-product"
    f = idx.function(f"{TCIRQ}::CirqSimulator.simulate_circuit")
    # every tuple-unpacking of perform_measurement / collapse binds a probability variable that is multiplied into success_probability
    sites = []
    for n in own_nodes(f.node):
        if isinstance(n, ast.Assign) and isinstance(n.value, ast.Call) and norm(n.value.func) in ("self.perform_measurement", "self.collapse_statevector_to_desired_measurement") \
                and isinstance(n.targets[0], ast.Tuple):
            sites.append(n)
    rep.floor("measurement/collapse sites in CirqSimulator.simulate_circuit", len(sites), 3)
    muls = [n for n in own_nodes(f.node) if isinstance(n, ast.AugAssign) and isinstance(n.op, ast.Mult) and norm(n.target) == "success_probability"]
    for s in sites:
        pvar = norm(s.targets[0].elts[-1])
        loop = _innermost_loop(f, s)
        later = [m for m in muls if norm(m.value) == pvar and m.lineno >= s.lineno and _innermost_loop(f, m) is loop]
        rep.decide(bool(later), rule, f, s, text=f"{norm(s.value.func).split('.')[-1]} -> {pvar} multiplied into success_probability",
                   what="the probability of each measurement outcome enters the probability of the whole outcome string",
                   reason=f"probability {pvar} returned at line {s.lineno} is never multiplied into success_probability")
        # collapsed state is carried forward
        svar = norm(s.targets[0].elts[-2])
        rep.decide(svar == "sv", rule, f, s, text=f"collapsed state bound to {svar}", what="the normalised post-measurement state is the input of the next piece",
                   reason=f"collapsed state bound to {svar}, not carried into the next piece")
    stores = [n for n in own_nodes(f.node) if isinstance(n, ast.Assign) and isinstance(n.targets[0], ast.Subscript) and "_probabilities" in norm(n.targets[0])]
    rep.floor("probability stores", len(stores), 2)
    for st in stores:
        key = norm(st.targets[0].slice)
        ok = norm(resolve_local(f.node, st.value)) == "success_probability" and key in ("measurements", "desired_meas_result")
        rep.decide(ok, rule, f, st, text=f"_probabilities[{key}] = {norm(st.value)}", what="the branch probability is recorded under its outcome string",
                   reason=f"stored {norm(st.value)} under {key}")
    inits = [n for n in own_nodes(f.node) if isinstance(n, ast.Assign) and norm(n.targets[0]) == "success_probability"]
    def _is_one(e) -> bool:
        try:
            return Folder().expr(e) == 1
        except (Undecidable, Raised):
            raise AnalysisError(f"initial value of success_probability not foldable: {norm(e)}")
    ok = bool(inits) and all(_is_one(n.value) for n in inits)
    rep.decide(ok, rule, f, inits[0] if inits else f.node, text="success_probability starts at 1", what="the running product starts at one for every shot / request",
               reason="running product not initialised to 1")
    # requested outcome characters are consumed in order
    uses = [n for n in own_nodes(f.node) if isinstance(n, ast.Call) and "int(desired_meas_result[i])" in norm(n)
            and norm(n.func).endswith("collapse_statevector_to_desired_measurement")]
    ok = bool(uses) and all("qubits[i]" in norm(u) for u in uses)
    rep.decide(ok, rule, f, uses[0] if uses else f.node, text="i-th requested outcome applies to the i-th measured qubit",
               what="outcome characters are matched with measurement gates in order of appearance", reason="outcome characters and measured qubits are paired differently")


def check_collapse(idx: Index, rep: Report):
    rule = "K9.collapse"
    f = idx.function(f"{BACKEND}::collapse_statevector_to_desired_measurement")
    asg = {norm(n.targets[0]): n for n in own_nodes(f.node) if isinstance(n, ast.Assign) and len(n.targets) == 1}
    n_, q = sp.Symbol("n_qubits", integer=True, positive=True), sp.Symbol("qubit", integer=True, nonnegative=True)
    for var in ("before_index_length", "after_index_length"):
        if var not in asg or not isinstance(asg[var].value, ast.IfExp):
            raise AnalysisError(f"collapse: {var} idiom not recognised")
    try:
        b, a = asg["before_index_length"].value, asg["after_index_length"].value
        cond_b, cond_a = norm(b.test), norm(a.test)
        b1, b2 = symx.to_sympy(b.body), symx.to_sympy(b.orelse)
        a1, a2 = symx.to_sympy(a.body), symx.to_sympy(a.orelse)
    except symx.Untranslatable as e:
        raise AnalysisError(f"collapse extents not translatable: {e}")
    n_s, q_s = sp.Symbol("n_qubits", real=True), sp.Symbol("qubit", real=True)
    same_cond = cond_a == cond_b == "order == 'lsq_first'"
    ok1 = symx.equal(b1, 2 ** q_s) and symx.equal(a1, 2 ** (n_s - 1 - q_s))
    ok2 = symx.equal(b2, 2 ** (n_s - 1 - q_s)) and symx.equal(a2, 2 ** q_s)
    rep.decide(same_cond and ok1, rule, f, asg["before_index_length"], text="lsq_first: (2^q, 2, 2^(n-1-q))",
               what="with qubit 0 as the most significant index bit, qubit q splits the vector into 2^q blocks of 2 x 2^(n-1-q)",
               reason=f"extents {norm(b.body)}, {norm(a.body)} under {cond_b}")
    rep.decide(same_cond and ok2, rule, f, asg["after_index_length"], text="msq_first: (2^(n-1-q), 2, 2^q)",
               what="the two extents are exchanged for the other index order", reason=f"extents {norm(b.orelse)}, {norm(a.orelse)}")
    resh = [c for c in own_nodes(f.node) if isinstance(c, ast.Call) and (norm(c.func) == "np.reshape" or (isinstance(c.func, ast.Attribute) and c.func.attr == "reshape"))]
    ok = False
    why = "no reshape of the vector found"
    if resh:
        dims = resh[0].args[1] if norm(resh[0].func) == "np.reshape" else (resh[0].args[0] if len(resh[0].args) == 1 else ast.Tuple(elts=list(resh[0].args), ctx=ast.Load()))
        if isinstance(dims, (ast.Tuple, ast.List)) and len(dims.elts) == 3:
            for br, (wb, wa) in ((True, (2 ** q_s, 2 ** (n_s - 1 - q_s))), (False, (2 ** (n_s - 1 - q_s), 2 ** q_s))):
                envd = {"before_index_length": b1 if br else b2, "after_index_length": a1 if br else a2}
                try:
                    got3 = [symx.to_sympy(x, envd) for x in dims.elts]
                except symx.Untranslatable as e:
                    raise AnalysisError(f"collapse: reshape extents not translatable: {e}")
                ok = symx.equal(got3[0], wb) and symx.equal(got3[1], 2) and symx.equal(got3[2], wa)
                why = f"reshape extents {got3}"
                if not ok:
                    break
    rep.decide(ok, rule, f, resh[0] if resh else f.node, text="reshape to (before, 2, after)", what="the vector is viewed as (before, 2, after) with the measured qubit as the middle axis",
               reason=why)
    zero = [n for n in own_nodes(f.node) if isinstance(n, ast.Assign) and isinstance(n.targets[0], ast.Subscript) and norm(n.targets[0].value) == "sv_selected"]
    ok = False
    if zero:
        sl = zero[0].targets[0].slice
        if isinstance(sl, ast.Tuple) and len(sl.elts) == 3:
            mid = sl.elts[1]
            try:
                r = sp.Symbol("result", real=True)
                ex = symx.to_sympy(mid)
                ok = all(sp.simplify(ex.subs(r, v) - (1 - v)) == 0 for v in (0, 1)) and norm(zero[0].value) == "0" and \
                    isinstance(sl.elts[0], ast.Slice) and isinstance(sl.elts[2], ast.Slice)
            except symx.Untranslatable:
                ok = False
    rep.decide(ok, rule, f, zero[0] if zero else f.node, text="amplitudes of the other outcome are zeroed",
               what="exactly the slice of the complementary outcome (1 - result) is set to zero", reason=f"zeroing statement {norm(zero[0]) if zero else '?'}")
    # renormalisation, symbolically: S = projected vector, N = its norm; the last return is (S / N, N^2), every return reports N^2
    S, N = sp.Symbol("S", real=True), sp.Symbol("N", positive=True)
    envr: Dict[str, sp.Expr] = {}
    seen_proj = False
    returns = []

    def _first(n):
        if isinstance(n, ast.Call) and norm(n.func) in ("np.linalg.norm", "numpy.linalg.norm", "norm") and len(n.args) == 1:
            try:
                if symx.to_sympy(n.args[0], envr) == S:
                    return N
            except symx.Untranslatable:
                return None
        if isinstance(n, ast.Call) and norm(n.func) in ("np.sqrt", "math.sqrt") and len(n.args) == 1 and isinstance(n.args[0], ast.Call) and \
                norm(n.args[0].func) in ("np.vdot", "np.dot") and len({norm(x) for x in n.args[0].args}) == 1 and envr.get(norm(n.args[0].args[0])) == S:
            return N
        return None

    def _scan(stmts):
        nonlocal seen_proj
        for st in stmts:
            if isinstance(st, ast.Assign) and norm(st.targets[0]) == "sv_selected" and isinstance(st.value, ast.Call) and norm(st.value.func).endswith(".flatten"):
                seen_proj = True
                envr["sv_selected"] = S
                continue
            if not seen_proj:
                continue
            if isinstance(st, ast.Assign) and isinstance(st.targets[0], ast.Name):
                try:
                    envr[st.targets[0].id] = symx.to_sympy(st.value, envr, first=_first)
                except symx.Untranslatable as e:
                    raise AnalysisError(f"collapse: statement {norm(st)} after the projection not understood: {e}")
            elif isinstance(st, ast.AugAssign) and isinstance(st.target, ast.Name) and isinstance(st.op, ast.Div):
                envr[st.target.id] = envr[st.target.id] / symx.to_sympy(st.value, envr, first=_first)
            elif isinstance(st, ast.If):
                saved = dict(envr)
                _scan(st.body)
                envr.clear()
                envr.update(saved)
                _scan(st.orelse)
                envr.clear()
                envr.update(saved)
            elif isinstance(st, ast.Return):
                if not isinstance(st.value, ast.Tuple) or len(st.value.elts) != 2:
                    raise AnalysisError(f"collapse: return {norm(st)} is not a (state, probability) pair")
                returns.append((st, [symx.to_sympy(x, envr, first=_first) for x in st.value.elts]))
    _scan(f.node.body)
    if not returns:
        raise AnalysisError("collapse: no return after the projection")
    last = returns[-1]
    ok = symx.equal(last[1][0], S / N) and all(symx.equal(r[1][1], N ** 2) for r in returns)
    rep.decide(ok, rule, f, last[0], text="returns (state / norm, norm^2)",
               what="the state is renormalised by its norm and the reported probability is that norm squared",
               reason=f"returns {[tuple(r[1]) for r in returns]} with S the projected vector and N its norm")
    from ..rules.guards import decide_refusals
    base = {"statevector": [0] * 8, "qubit": 1, "result": 1, "order": "lsq_first", "ignore_zero_prob": False}
    cases = [(f"qubit {q} of 3", dict(base, qubit=q), q > 2) for q in range(0, 5)]
    cases += [(f"result {r!r}", dict(base, result=r), r not in (0, 1)) for r in (0, 1, 2, -1, "1")]
    cases += [(f"order {o!r}", dict(base, order=o), o not in ("lsq_first", "msq_first")) for o in ("lsq_first", "msq_first", "lsb", "")]
    cases += [("statevector of length 6", dict(base, statevector=[0] * 6), True), ("statevector of length 1, qubit 0", dict(base, statevector=[0], qubit=0), True)]
    decide_refusals(idx, rep, rule, f, cases, what="qubit indices beyond the register, results other than 0/1, unknown index orders and vectors whose length is not a power of two are refused",
                    may_skip=("sqrt_probability",))
    # Backend method passes the backend's own declared order
    m = idx.function(f"{BACKEND}::Backend.collapse_statevector_to_desired_measurement")
    rets = [n for n in own_nodes(m.node) if isinstance(n, ast.Return)]
    ok = bool(rets) and isinstance(rets[0].value, ast.Call) and [norm(a) for a in rets[0].value.args] == \
        ["statevector", "qubit", "result", "self.backend_info()['statevector_order']", "ignore_zero_prob"]
    rep.decide(ok, rule, m, rets[0] if rets else m.node, text="collapse uses the backend's advertised statevector order",
               what="the collapse is performed in the index order the backend advertises", reason="order argument changed")
    # perform_measurement: outcome 0 with probability p0
    pm = idx.function(f"{BACKEND}::Backend.perform_measurement")
    ifs = [n for n in ast.walk(pm.node) if isinstance(n, ast.If) and "np.random.random()" in norm(n.test)]
    ok = False
    if ifs:
        t = norm(ifs[0].test)
        one = any(isinstance(r, ast.Return) and norm(r.value).startswith("('1'") for r in ast.walk(ast.Module(body=ifs[0].body, type_ignores=[])))
        zero_ = any(isinstance(r, ast.Return) and norm(r.value).startswith("('0'") for r in ast.walk(ast.Module(body=ifs[0].orelse, type_ignores=[])))
        ok = t in ("prob < np.random.random()", "np.random.random() > prob") and one and zero_
    rep.decide(ok, rule, pm, ifs[0] if ifs else pm.node, text="outcome 1 iff uniform random > p0",
               what="an unconstrained measurement returns 0 with probability p0 and 1 otherwise, with the matching collapsed state",
               reason="sampling of the measurement outcome changed")
    first = [n for n in ast.walk(pm.node) if isinstance(n, ast.Assign) and "collapse_statevector_to_desired_measurement(statevector, qubit, 0" in norm(n.value)]
    rep.decide(bool(first), rule, pm, pm.node, text="p0 from collapsing onto outcome 0", what="p0 is the probability of outcome 0 of the measured qubit",
               reason="probability of outcome 0 is not computed from the collapse onto 0")


SIM_CALLS = ("translate_c", "simulate", "perform_measurement", "collapse_statevector_to_desired_measurement")


def _bookkeeping(loop: ast.While, fnode: ast.AST) -> List[str]:
    """the classical-control bookkeeping of a `while len(unitary_circuits) > 1` loop, as text that does not depend on what the locals are called and leaves out
    everything that belongs to the simulation (calls of the translator / simulator / measurement routines and whatever is computed from their results -
    state vectors, probabilities).  The measured outcome itself is bookkeeping input: the statement that defines it is left out on both sides (one side
    measures, the other reads the requested string), its uses stay."""
    import copy
    outcome = None
    for n in ast.walk(loop):
        if isinstance(n, ast.AugAssign) and isinstance(n.op, ast.Add) and isinstance(n.target, ast.Name) and "meas" in n.target.id and isinstance(n.value, ast.Name):
            outcome = n.value.id
    if outcome is None:
        raise AnalysisError("control loop: the accumulation of the measured outcome was not found")

    def has_sim_call(x) -> bool:
        return any(isinstance(c, ast.Call) and norm(c.func).split(".")[-1] in SIM_CALLS for c in ast.walk(x))
    tainted: Set[str] = set()
    for _round in range(4):
        for st in ast.walk(loop):
            if isinstance(st, (ast.Assign, ast.AugAssign)):
                val = st.value
                uses = {y.id for y in ast.walk(val) if isinstance(y, ast.Name)}
                if has_sim_call(val) or (uses & tainted):
                    tgts = st.targets if isinstance(st, ast.Assign) else [st.target]
                    for t in tgts:
                        for y in ast.walk(t):
                            if isinstance(y, ast.Name) and y.id != outcome:
                                tainted.add(y.id)

    def dropped(st) -> bool:
        if isinstance(st, (ast.Assign, ast.AugAssign)):
            tg = st.targets if isinstance(st, ast.Assign) else [st.target]
            names = {y.id for t in tg for y in ast.walk(t) if isinstance(y, ast.Name)}
            if outcome in names and not isinstance(st, ast.AugAssign):
                return True                                     # where the outcome comes from differs by design
            if names and names <= tainted:
                return True
            if has_sim_call(st.value):
                return True
        if isinstance(st, ast.Expr) and has_sim_call(st.value):
            return True
        if isinstance(st, ast.If) and not st.orelse and all(dropped(x) for x in st.body):
            return True                                         # a guard around simulation steps only
        return False
    # a local that only feeds the simulation steps (the outcome requested from the measurement routine) belongs to them
    feeders: Set[str] = set()
    simple = [st for st in ast.walk(loop) if isinstance(st, ast.Assign) and len(st.targets) == 1 and isinstance(st.targets[0], ast.Name)]
    for st in simple:
        v = st.targets[0].id
        if v == outcome:
            continue
        uses = [u for u in ast.walk(loop) if isinstance(u, ast.Name) and u.id == v and isinstance(u.ctx, ast.Load)]
        if uses and all(any(any(z is u for z in ast.walk(d)) for d in ast.walk(loop) if isinstance(d, (ast.Assign, ast.AugAssign, ast.Expr)) and dropped(d)) for u in uses):
            feeders.add(v)
    _dropped0 = dropped

    def dropped(st) -> bool:          # noqa: F811 - the final predicate
        if isinstance(st, ast.Assign) and len(st.targets) == 1 and isinstance(st.targets[0], ast.Name) and st.targets[0].id in feeders:
            return True
        return _dropped0(st)
    assigned = {y.id for n in ast.walk(fnode) for y in ast.walk(n) if isinstance(y, ast.Name) and isinstance(y.ctx, ast.Store)} | {a_.arg for a_ in fnode.args.args}
    canon: Dict[str, str] = {}

    def rename(node):
        node = copy.deepcopy(node)
        for y in ast.walk(node):
            if isinstance(y, ast.Name) and y.id in assigned and y.id != "self":
                y.id = canon.setdefault(y.id, f"v{len(canon)}")
        return node

    def walk(stmts, depth) -> List[str]:
        out = []
        for st in stmts:
            if dropped(st):
                continue
            pad = "  " * depth
            if isinstance(st, ast.If):
                out.append(pad + "if " + norm(rename(st.test)))
                out += walk(st.body, depth + 1)
                if st.orelse:
                    out.append(pad + "else")
                    out += walk(st.orelse, depth + 1)
            elif isinstance(st, ast.While):
                out.append(pad + "while " + norm(rename(st.test)))
                out += walk(st.body, depth + 1)
            elif isinstance(st, ast.For):
                out.append(pad + "for " + norm(rename(st.target)) + " in " + norm(rename(st.iter)))
                out += walk(st.body, depth + 1)
            else:
                out.append(pad + norm(rename(st)))
        return out
    return walk(loop.body, 0)


def check_control_loop_clone(idx: Index, rep: Report):
    rule = "K8.control-loop-clone"
    a = idx.function(f"{CIRCUIT}::generate_applied_gates")
    b = idx.function(f"{TCIRQ}::CirqSimulator.simulate_circuit")
    wa = [n for n in ast.walk(a.node) if isinstance(n, ast.While) and "len(" in norm(n.test) and "> 1" in norm(n.test)]
    wb = [n for n in ast.walk(b.node) if isinstance(n, ast.While) and "len(" in norm(n.test) and "> 1" in norm(n.test)]
    if not wa or not wb:
        raise AnalysisError("control loop `while len(...) > 1` not found in both siblings")
    ska = _bookkeeping(wa[0], a.node)
    skb = _bookkeeping(wb[0], b.node)
    diff = [x for x in ska if x not in skb] + [x for x in skb if x not in ska]
    rep.decide(not diff, rule, a, wa[0], text="classical-control bookkeeping identical in generate_applied_gates and the cirq CMEASURE loop",
               what="the resource estimator replays exactly the gate-selection logic of the simulator (same queue handling for nested controls), whatever the locals are "
                    "called and however the simulation steps in between are written",
               reason=f"bookkeeping differs in {len(diff)} statement(s): {diff[:3]}")
    rep.stats["control_loop_statements"] = len(ska)
    rep.floor("control loop bookkeeping statements", len(ska), 12)


def check_frequency_split(idx: Index, rep: Report):
    from .C18 import check_post_selection_functions
    check_post_selection_functions(idx, rep, "K9.frequency-split")


# ---------------------------------------------------------------------------------------------------
# nested classical control: the bookkeeping loop folded against a direct recursive reading of the circuit
class _CircM:
    """stand-in for a linq Circuit in the control-flow bookkeeping: a gate list, `+`, iteration, gate counts, copy()"""
    _sa_model = True

    def __init__(self, gates=None, n_qubits=None, **_kw):
        self._gates = list(gates or [])
        self.width = n_qubits if n_qubits is not None else 1 + max([max(g.fields["target"]) for g in self._gates] or [-1])
        self.size = len(self._gates)
        self.counts = {}
        for g in self._gates:
            self.counts[g.fields["name"]] = self.counts.get(g.fields["name"], 0) + 1

    def __add__(self, o):
        return _CircM(self._gates + o._gates, n_qubits=max(self.width, o.width))

    def __iter__(self):
        return iter(self._gates)

    def copy(self):
        return _CircM(self._gates, n_qubits=self.width)

    def finalize_cmeasure_control(self):
        return None


def _replay(gates, outcomes: List[str], out: List[tuple]):
    """what a circuit with (nested) dictionary controls means: gates run in order; a measurement takes the next outcome; a controlled
    measurement then runs the gate list its dictionary selects for that outcome, in place, before anything that follows it"""
    for g in gates:
        nm = g.fields["name"]
        if nm == "MEASURE":
            out.append(("MEASURE", tuple(g.fields["target"]), outcomes.pop(0)))
        elif nm == "CMEASURE":
            m = outcomes.pop(0)
            out.append(("CMEASURE", tuple(g.fields["target"]), m))
            _replay(g.fields["parameter"][m], outcomes, out)
        else:
            out.append((nm, tuple(g.fields["target"]), g.fields["parameter"]))


def check_nested_control_replay(idx: Index, rep: Report):
    rule = "K9.nested-control-replay"
    from ..consteval import Folder, Raised, Undecidable, make_gate
    from ..rules.circuitsem import make_folder
    f = idx.function(f"{CIRCUIT}::generate_applied_gates")

    def L(k):
        return make_gate(["RZ", [0]], {"parameter": float(k)})

    def M(q):
        return make_gate(["MEASURE", [q]], {})

    def CM(q, d):
        return make_gate(["CMEASURE", [q]], {"parameter": d})
    inner = {"0": [], "1": [L(7), M(3), L(8)]}
    outer = {"0": [L(4)], "1": [L(5), CM(1, inner), L(6)]}
    c1 = [L(1), CM(0, outer), L(2), M(2), L(3)]
    a2 = {"0": [L(17)], "1": [M(3), M(3), L(18)]}
    aa = {"0": [L(13), M(2)], "1": [M(2), L(14)]}
    bb = {"1": [CM(2, a2), L(15)], "0": [L(16)]}
    c2 = [CM(0, aa), L(11), CM(1, bb), L(12)]
    dd = {"0": [CM(1, {"0": [L(21)], "1": [CM(2, {"0": [], "1": [L(22)]}), L(23)]}), L(24)], "1": []}
    c3 = [CM(0, dd), M(1), CM(2, {"0": [L(25)], "1": [L(26)]}), M(3), L(27)]
    n = 0
    for label, gates in (("tail after a nested measurement, later outer measurement", c1), ("two controls, each nested", c2), ("three levels, tails at two levels", c3)):
        bad = []
        for bits in itertools.product("01", repeat=7):
            want: List[tuple] = []
            _replay(gates, list(bits), want)
            fo = make_folder(idx, CIRCUIT, ctors={"Circuit": lambda a, k: _CircM(*a, **k)})
            try:
                got = fo.run_function(f.node, {"source_circuit": _CircM(gates, n_qubits=4), "desired_meas_result": "".join(bits)})
            except Undecidable as e:
                raise AnalysisError(f"generate_applied_gates not foldable: {e}")
            except Raised as e:
                bad.append(("".join(bits), f"raises {e.exc_type}"))
                continue
            sig = [(g.fields["name"], tuple(g.fields["target"]) if isinstance(g.fields["target"], (list, tuple)) else (g.fields["target"],), g.fields["parameter"]) for g in got]
            if sig != want:
                k = next((i for i, (x, y) in enumerate(zip(sig, want)) if x != y), min(len(sig), len(want)))
                bad.append(("".join(bits), f"gate {k}: {sig[k] if k < len(sig) else 'missing'} instead of {want[k] if k < len(want) else 'nothing'}"))
            n += 1
        rep.decide(not bad, rule, f, f.node, text=f"{label}: all 128 outcome strings",
                   what="the gates applied for an outcome string are exactly those the nested dictionary controls select, each control's gates running in place "
                        "(its tail right after its own nested measurements, before anything that follows the control)",
                   reason=f"{len(bad)} outcome string(s) replay differently, e.g. outcomes {bad[0][0]}: {bad[0][1]}" if bad else "")
    rep.floor("nested-control replays folded", n, 300)


def check_collapse_numeric(idx: Index, rep: Report):
    """collapse_statevector_to_desired_measurement folded on concrete amplitude vectors (numpy evaluates the reshape / slice / norm primitives): for every qubit,
    outcome and bit order the result is the projection of the vector on that outcome, normalised, and the probability returned is the squared norm of the
    projection - also for outcomes as unlikely as 1e-15 or 1e-20, which double precision represents without difficulty; an outcome of probability exactly zero is
    refused (or reported with probability 0 when asked to ignore it)."""
    import math
    import numpy as np
    from ..consteval import Raised, Undecidable
    from ..rules import circuitsem as cs
    rule = "K9.collapse-values"
    f = idx.function(f"{BACKEND}::collapse_statevector_to_desired_measurement")

    def fold(vec, qubit, result, order, ignore=False):
        fo = cs.make_folder(idx, BACKEND)
        fo.real_arrays = True
        return fo.run_function(f.node, {"statevector": np.array(vec, dtype=complex), "qubit": qubit, "result": result, "order": order, "ignore_zero_prob": ignore})
    vectors = [[0.6, 0.8j], [0.5, -0.5, 0.5j, 0.5], [1 / math.sqrt(2), 0, 0, 1j / math.sqrt(2)], [0.1 * (k + 1) * (1j ** k) for k in range(8)],
               [math.sqrt(1 - 2.5e-15), math.sqrt(2.5e-15)], [math.sqrt(1 - 1e-20), 0, 0, 1e-10j]]
    bad = []
    n = 0
    for vec in vectors:
        v = np.array(vec, dtype=complex)
        v = v / np.linalg.norm(v)
        nq = int(round(math.log2(len(v))))
        for order in ("lsq_first", "msq_first", "LSQ_FIRST", "Msq_First"):          # the order name is validated case-insensitively: every accepted spelling means the same order
            for q in range(nq):
                for res in (0, 1):
                    bit = [(i >> (nq - 1 - q if order.lower() == "lsq_first" else q)) & 1 for i in range(len(v))]
                    proj = np.array([a if b == res else 0 for a, b in zip(v, bit)])
                    p = float(np.sum(np.abs(proj) ** 2))
                    label = f"{len(v)} amplitudes, qubit {q} -> {res}, {order}, probability {p:.3g}"
                    try:
                        got = fold(v, q, res, order)
                    except Undecidable as e:
                        raise AnalysisError(f"collapse_statevector_to_desired_measurement not foldable: {e}")
                    except Raised as e:
                        n += 1
                        if p > 1e-27:
                            bad.append(f"{label}: refused ({e.exc_type}) although the outcome is possible")
                        continue
                    n += 1
                    if p == 0:
                        bad.append(f"{label}: accepted although the outcome is impossible")
                        continue
                    sv, prob = got
                    if abs(float(prob) - p) > 1e-9 * max(p, 1e-300) + 1e-30 or float(np.max(np.abs(np.array(sv) - proj / math.sqrt(p)))) > 1e-9:
                        bad.append(f"{label}: returns probability {float(prob):.3g} and a state of norm {float(np.linalg.norm(sv)):.6g}")
    rep.decide(not bad, rule, f, f.node, text=f"collapse on {n} (vector, qubit, outcome, order) cases, branch probabilities down to 1e-20",
               what="the collapsed state is the normalised projection on the requested outcome and the probability returned is the squared norm of the projection, for every "
                    "outcome of non-zero probability; impossible outcomes are refused",
               reason="; ".join(bad[:3]))
    rep.floor("collapse cases folded", n, 40)
