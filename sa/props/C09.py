"""C09 Circuit transformations preserve the implemented operation (structural part).

C09.a K9  inverse table: Gate.inverse folded for every name of INVERTIBLE_GATES (angle symbolic) gives the adjoint's
          (name, parameter); names outside the table raise; Circuit.inverse maps inverse over the reversed gate list
C09.b K9  every modulus applied to a rotation angle (Gate.__eq__, remove_small_rotations) is a multiple of the
          true period of every gate name it is applied to (CRX/CRY/CRZ have period 4*pi, not 2*pi, even up to phase)
C09.c K1  out-of-place transformations do not write to their input circuit / gate / operator
C09.d K9  Clifford decomposition table: every (rotation, k*pi/2) row multiplies to the rotation up to a phase
C09.e K2  index rewriting keeps a fixed width coherent with the rewritten index set
C09.f K12 re-indexing pairs old and new indices in a defined order (no iteration over an unordered set)
"""
from __future__ import annotations

import ast
from typing import Dict, List, Optional, Set, Tuple

import sympy as sp

from ..alias import Analyzer
from ..consteval import Folder, Opaque, Raised, Rec, Undecidable, make_gate
from ..rules import circuitsem as cs
from ..index import AnalysisError, FunctionInfo, Index, const_str_set, norm, own_nodes
from ..report import Report
from ..rules.purity import check_purity
from .. import symx

CIRCUIT = "tangelo/linq/circuit.py"
GATE = "tangelo/linq/gate.py"
CLIFF = "tangelo/linq/helpers/circuits/clifford_circuits.py"
TRIM = "tangelo/toolboxes/operators/trim_trivial_qubits.py"

INVOLUTIONS = {"H", "X", "Y", "Z", "CH", "CNOT", "CX", "CY", "CZ", "SWAP", "CSWAP"}
# true periods of the parameterised gates: (exact period, period up to a global phase), in units of pi
PERIOD_UP_TO_PHASE = {"RX": 2, "RY": 2, "RZ": 2, "PHASE": 2, "CPHASE": 2, "CRX": 4, "CRY": 4, "CRZ": 4, "XX": 2}


def gate_sets(idx: Index) -> Dict[str, frozenset]:
    gm = idx.module_by_relpath(GATE)
    out = {}
    for nm in ("ONE_QUBIT_GATES", "TWO_QUBIT_GATES", "THREE_QUBIT_GATES", "ONE_TARGET_GATES", "TWO_TARGET_GATES",
               "PARAMETERIZED_GATES", "INVERTIBLE_GATES", "CLIFFORD_GATES"):
        if nm not in gm.assigned:
            raise AnalysisError(f"{GATE}: table {nm} not found")
        v = const_str_set(gm.assigned[nm])
        if v is None:
            v = cs.module_str_set(idx, GATE, nm)          # a table computed from the other tables
        if v is None:
            raise AnalysisError(f"{GATE}: table {nm} is neither a literal set of names nor an expression over such sets")
        out[nm] = v
    return out


def run(idx: Index, rep: Report, tier: str):
    rep.explain("C09 structural part: the 22-row inverse table folded with a symbolic angle; moduli applied to angles checked "
                "against the true period table; may-mutate analysis of every out-of-place transformation; the 12-row "
                "Clifford table multiplied out exactly (2x2 algebra up to phase); index-rewriting coherence; ordered pairing "
                "in reindex_qubits.")
    rep.trust("CPython ast", "sympy exact arithmetic/simplify on extracted expressions", "sa.consteval folding subset",
              "reference gate matrices and period table in sa/symx.py, sa/props/C09.py")
    rep.assume("that merging / cancelling preserves the unitary beyond these necessary conditions is not decided",
               "threshold semantics of remove_small_rotations are not decided")
    sets = gate_sets(idx)
    check_inverse_table(idx, rep, sets)
    check_circuit_inverse(idx, rep)
    check_periods(idx, rep, sets)
    an = Analyzer(idx, max_depth=4 if tier == "quick" else 8)
    check_out_of_place(idx, rep, an)
    check_clifford_table(idx, rep)
    check_index_rewriting(idx, rep)
    check_reindex_order(idx, rep)
    check_redundant_gate_cancellation(idx, rep)
    check_gate_equality(idx, rep, sets)
    check_pass_semantics(idx, rep, tier)
    check_simplify(idx, rep)
    check_trim_relabelling(idx, rep)
    from .C14 import check_trim_fold, check_trim_table
    check_trim_table(idx, rep)               # trimming trivial qubits is a circuit transformation too: what is removed must have been |0> or |1>
    check_trim_fold(idx, rep)
    check_clifford_angles(idx, rep)
    rep.stats.update({"alias_" + k: v for k, v in an.stats.items()})


# ---------------------------------------------------------------------------------------------------
def _isinstance_hook(val, types_text):
    numeric = isinstance(val, (sp.Basic, int, float)) and not isinstance(val, bool)
    if "Symbol" in types_text or "float" in types_text or "int" in types_text:
        return numeric
    if types_text == "str":
        return isinstance(val, str)
    return None


def check_inverse_table(idx: Index, rep: Report, sets):
    rule = "K9.inverse-table"
    f = idx.function(f"{GATE}::Gate.inverse")
    theta = sp.Symbol("theta", real=True)
    n = 0
    for name in sorted(sets["INVERTIBLE_GATES"]):
        param = theta if name in sets["PARAMETERIZED_GATES"] else ""
        target = [0, 1] if name in sets["TWO_TARGET_GATES"] else [0]
        control = [2] if name.startswith("C") else None
        me = Rec("Gate", {"name": name, "target": target, "control": control, "parameter": param, "is_variational": False})
        fo = Folder(env=dict(sets), isinstance_hook=_isinstance_hook)
        fo.env.update({"pi": sp.pi})
        try:
            res = fo.run_function(f.node, {"self": me})
        except Raised as r:
            rep.violation(rule, f, r.node, text=f"inverse({name})", what=f"{name} is invertible", reason=f"inverse raises {r.exc_type} for {name}")
            n += 1
            continue
        except Undecidable as u:
            raise AnalysisError(f"Gate.inverse not foldable for {name}: {u}")
        n += 1
        if not isinstance(res, Rec) or res.cls != "Gate":
            rep.violation(rule, f, f.node, text=f"inverse({name})", what="inverse returns a Gate", reason=f"returns {res!r}")
            continue
        got = (res.fields["name"], res.fields["parameter"])
        if name in INVOLUTIONS:
            want = (name, "")
        elif name == "S":
            want = ("PHASE", -sp.pi / 2)
        elif name == "T":
            want = ("PHASE", -sp.pi / 4)
        else:
            want = (name, -theta)
        same_param = (got[1] == want[1]) if isinstance(want[1], str) or isinstance(got[1], str) else sp.simplify(got[1] - want[1]) == 0
        same_place = res.fields["target"] == target and res.fields["control"] == control
        ok = got[0] == want[0] and same_param and same_place
        rep.decide(ok, rule, f, f.node, text=f"inverse({name}) = ({want[0]}, {want[1]})",
                   what=f"the inverse of {name} is the adjoint: name {want[0]}, parameter {want[1] if want[1] != '' else 'none'}, same qubits",
                   reason=f"folded result is name={got[0]}, parameter={got[1]}, target={res.fields['target']}, control={res.fields['control']}")
    rep.floor("inverse table rows", n, 22)
    # names outside the table are refused
    for name in ("MEASURE", "CMEASURE", "SDAG", "NOTAGATE"):
        if name in sets["INVERTIBLE_GATES"]:
            continue
        me = Rec("Gate", {"name": name, "target": [0], "control": None, "parameter": "", "is_variational": False})
        fo = Folder(env=dict(sets), isinstance_hook=_isinstance_hook)
        try:
            res = fo.run_function(f.node, {"self": me})
            rep.violation(rule, f, f.node, text=f"inverse({name}) refused", what="a gate outside the invertible set is refused",
                          reason=f"inverse({name}) returns {res!r}")
        except Raised:
            rep.ok(rule, f, f.node, text=f"inverse({name}) refused", what="a gate outside the invertible set is refused")
        except Undecidable as u:
            raise AnalysisError(f"Gate.inverse not foldable for {name}: {u}")
    # a non-numeric parameter (e.g. a string variable name) is refused, not silently kept
    me = Rec("Gate", {"name": "RX", "target": [0], "control": None, "parameter": "alpha", "is_variational": False})
    fo = Folder(env=dict(sets), isinstance_hook=_isinstance_hook)
    try:
        res = fo.run_function(f.node, {"self": me})
        rep.violation(rule, f, f.node, text="inverse(RX('alpha')) refused", what="a rotation with a non-numeric parameter cannot be inverted silently",
                      reason=f"returns {res!r}")
    except Raised:
        rep.ok(rule, f, f.node, text="inverse(RX('alpha')) refused", what="a rotation with a non-numeric parameter cannot be inverted silently")
    except Undecidable as u:
        raise AnalysisError(f"Gate.inverse not foldable for string parameter: {u}")


def check_circuit_inverse(idx: Index, rep: Report):
    rule = "K9.circuit-inverse"
    f = idx.function(f"{CIRCUIT}::Circuit.inverse")
    comps = [n for n in own_nodes(f.node) if isinstance(n, (ast.ListComp, ast.GeneratorExp))]
    ok = False
    why = "no comprehension over the gate list"
    for c in comps:
        if len(c.generators) != 1:
            continue
        g = c.generators[0]
        it = norm(g.iter)
        elt_ok = isinstance(c.elt, ast.Call) and isinstance(c.elt.func, ast.Attribute) and c.elt.func.attr == "inverse" and \
            isinstance(c.elt.func.value, ast.Name) and isinstance(g.target, ast.Name) and c.elt.func.value.id == g.target.id
        rev_ok = it in ("reversed(self._gates)", "self._gates[::-1]", "reversed(self)")
        ok = elt_ok and rev_ok and not g.ifs
        why = f"gates built by {norm(c)}"
        if ok:
            break
    rep.decide(ok, rule, f, f.node, text="[g.inverse() for g in reversed(gates)]",
               what="the inverse circuit applies the inverse of every gate, in reversed order", reason=why)
    rets = [n for n in own_nodes(f.node) if isinstance(n, ast.Return)]
    ok = len(rets) == 1 and isinstance(rets[0].value, ast.Call) and norm(rets[0].value.func) == "Circuit" and \
        any(k.arg == "n_qubits" and norm(k.value) == "self._qubits_simulated" for k in rets[0].value.keywords)
    rep.decide(ok, rule, f, rets[0] if rets else f.node, text="inverse keeps the fixed width",
               what="the inverse circuit acts on the same number of qubits", reason="n_qubits is not carried over to the inverse")


# ---------------------------------------------------------------------------------------------------
MOD_CALLS = {"math.remainder", "math.fmod", "np.mod", "np.remainder", "np.fmod", "numpy.mod", "numpy.remainder", "numpy.fmod", "remainder", "fmod"}


def _modulus_sites(f: FunctionInfo) -> List[Tuple[ast.AST, ast.AST]]:
    """(site, modulus expression) for every reduction of a gate parameter modulo something: the % operator and the
    math/numpy remainder functions"""
    out = []
    for n in own_nodes(f.node):
        if isinstance(n, ast.BinOp) and isinstance(n.op, ast.Mod) and "parameter" in norm(n.left):
            out.append((n, n.right))
        elif isinstance(n, ast.Call) and norm(n.func) in MOD_CALLS and len(n.args) == 2 and "parameter" in norm(n.args[0]):
            out.append((n, n.args[1]))
    return out


def _fold_modulus(f: FunctionInfo, expr: ast.AST, name: str, name_vars: List[str]) -> sp.Expr:
    """value of the modulus expression for gate name `name` (handles `4*pi if name in {...} else 2*pi`, local variables
    holding such an expression, and dict lookups keyed by the name): simple local assignments preceding the site are folded first"""
    env = {"pi": sp.pi, "np.pi": sp.pi, "math.pi": sp.pi}
    for v in name_vars:
        env[v] = name
    fo = Folder(env=env)
    fo.env["np"] = Opaque("np")
    fo.env["math"] = Opaque("math")
    line = getattr(expr, "lineno", 10 ** 9)
    # the statements in front of the site are run through the folder (assignments, loops that fill a table, stores into it): how the table of periods is
    # put together does not matter, what it holds for `name` does
    for n in f.node.body:
        if getattr(n, "end_lineno", n.lineno) >= line:
            break
        if isinstance(n, (ast.Assign, ast.AugAssign, ast.For, ast.If)):
            try:
                fo.stmt(n)
            except (Undecidable, Raised):
                pass
    for n in own_nodes(f.node):
        if isinstance(n, ast.Assign) and len(n.targets) == 1 and isinstance(n.targets[0], ast.Name) and n.lineno <= line and n.targets[0].id not in fo.env:
            try:
                fo.env[n.targets[0].id] = fo.expr(n.value)
            except (Undecidable, Raised):
                pass
    for v in name_vars:
        fo.env[v] = name
    try:
        v = fo.expr(expr)
    except (Undecidable, Raised) as u:
        raise AnalysisError(f"{f.ref}: modulus {norm(expr)} not foldable for {name}: {u}")
    return sp.nsimplify(v) if not isinstance(v, sp.Basic) else v


def check_periods(idx: Index, rep: Report, sets):
    """every function of gate.py / circuit.py that reduces a gate parameter modulo something: the modulus must be a multiple of the
    true period of every gate name the reduction can be applied to (the literal name set guarding it, else all parameterised names)"""
    rule = "K9.period"
    n_sites = 0
    exempt = {"Gate.is_clifford": "tests membership in the Clifford angles k*pi/2, not equivalence of gates"}
    for rel in (GATE, CIRCUIT):
        for f in idx.module_by_relpath(rel).functions.values():
            sites = _modulus_sites(f)
            if not sites or f.qualname in exempt:
                continue
            # gate names the reduction applies to
            names = None
            for n in own_nodes(f.node):
                if isinstance(n, ast.Assign) and const_str_set(n.value) is not None and len(const_str_set(n.value)) >= 3 and \
                        all(x.isupper() for x in const_str_set(n.value)):
                    names = const_str_set(n.value)
            applicable = sorted(names) if names is not None else sorted(sets["PARAMETERIZED_GATES"])
            what = {"Gate.__eq__": "two gates that compare equal implement the same operation up to phase",
                    "remove_small_rotations": "a rotation dropped as 'small' is the identity up to phase and threshold"}.get(
                f.qualname, "a gate parameter is only reduced modulo a period of the gate")
            for site, modexpr in sites:
                n_sites += 1
                for name in applicable:
                    if name not in PERIOD_UP_TO_PHASE:
                        continue
                    m = _fold_modulus(f, modexpr, name, ["ds['name']", "do['name']", "self.name", "g.name", "gate.name", "g_prev.name", "name"])
                    _decide_period(rep, rule, f, site, name, m, what)
    rep.stats["modulus_sites"] = n_sites
    rep.floor("modulus sites", n_sites, 2)


def _decide_period(rep, rule, f, site, name, modulus, what):
    period = PERIOD_UP_TO_PHASE[name] * sp.pi
    ratio = sp.nsimplify(sp.simplify(modulus / period))
    ok = ratio.is_integer is True and ratio > 0
    rep.decide(ok, rule, f, site, text=f"{name}: angle mod {sp.nsimplify(modulus / sp.pi)}*pi",
               what=f"{what} (period of {name} up to phase is {PERIOD_UP_TO_PHASE[name]}*pi)",
               reason=f"{name}(a) and {name}(a + {sp.nsimplify(modulus / sp.pi)}*pi) are identified, but {name} has period "
                      f"{PERIOD_UP_TO_PHASE[name]}*pi: {name}(2*pi) = controlled(-1), not the identity")


# ---------------------------------------------------------------------------------------------------
OUT_OF_PLACE = [
    (f"{CIRCUIT}::Circuit.__add__", ["self", "other"]), (f"{CIRCUIT}::Circuit.__mul__", ["self"]),
    (f"{CIRCUIT}::Circuit.__rmul__", ["self"]), (f"{CIRCUIT}::Circuit.copy", ["self"]),
    (f"{CIRCUIT}::Circuit.inverse", ["self"]), (f"{CIRCUIT}::Circuit.split", ["self"]),
    (f"{CIRCUIT}::Circuit.stack", ["self", "other_circuits"]), (f"{CIRCUIT}::Circuit.depth", ["self"]),
    (f"{CIRCUIT}::Circuit.get_entangled_indices", ["self"]), (f"{CIRCUIT}::Circuit.__eq__", ["self", "other"]),
    (f"{CIRCUIT}::stack", ["circuits"]), (f"{CIRCUIT}::remove_small_rotations", ["circuit"]),
    (f"{CIRCUIT}::merge_rotations", ["circuit"]), (f"{CIRCUIT}::remove_redundant_gates", ["circuit"]),
    (f"{CIRCUIT}::simplify", ["circuit"]), (f"{CIRCUIT}::get_unitary_circuit_pieces", ["circuit"]),
    (f"{CIRCUIT}::generate_applied_gates", ["source_circuit"]),
    (f"{GATE}::Gate.inverse", ["self"]), (f"{GATE}::Gate.__eq__", ["self", "other"]), (f"{GATE}::Gate.is_clifford", ["self"]),
    (f"{CLIFF}::decompose_gate_to_cliffords", ["gate"]),
    (f"{TRIM}::trim_trivial_circuit", ["circuit"]), (f"{TRIM}::trim_trivial_qubits", ["operator", "circuit"]),
    (f"{TRIM}::trim_trivial_operator", ["qu_op", "trim_states"]),
]


def check_out_of_place(idx: Index, rep: Report, an: Analyzer):
    allowed = [("_cmeasure_control",)]
    for ref, params in OUT_OF_PLACE:
        f = idx.function(ref)
        returns_circuit = f.name in ("__add__", "__mul__", "__rmul__", "copy", "inverse", "stack", "remove_small_rotations", "merge_rotations",
                                     "remove_redundant_gates", "simplify", "trim_trivial_circuit")
        check_purity(idx, rep, an, f, params, {p: allowed for p in params}, rule="K1.outofplace", self_class=f.cls,
                     what="out-of-place transformation leaves its input unchanged", fresh_result=returns_circuit)
    rep.floor("out-of-place entry points", len(OUT_OF_PLACE), 24)


# ---------------------------------------------------------------------------------------------------
def check_clifford_table(idx: Index, rep: Report):
    rule = "K9.clifford-table"
    f = idx.function(f"{CLIFF}::decompose_gate_to_cliffords")
    rows = {}
    # outer chain on gate.name == "<N>", inner chain on clifford_parameter == <angle>

    def name_of(test):
        if isinstance(test, ast.Compare) and len(test.ops) == 1 and isinstance(test.ops[0], ast.Eq) and norm(test.left) == "gate.name" \
                and isinstance(test.comparators[0], ast.Constant):
            return test.comparators[0].value
        return None

    def angle_of(test):
        if isinstance(test, ast.Compare) and len(test.ops) == 1 and isinstance(test.ops[0], ast.Eq) and isinstance(test.left, ast.Name):
            try:
                return sp.nsimplify(symx.to_sympy(test.comparators[0]))
            except symx.Untranslatable:
                return None
        return None
    outer = [n for n in own_nodes(f.node) if isinstance(n, ast.If) and name_of(n.test) is not None]
    for o in outer:
        gname = name_of(o.test)
        for st in o.body:
            cur = st
            while isinstance(cur, ast.If):
                ang = angle_of(cur.test)
                if ang is None:
                    raise AnalysisError(f"{CLIFF}: row test {norm(cur.test)} not understood")
                lists = [s for s in cur.body if isinstance(s, ast.Assign) and isinstance(s.value, ast.List)]
                if len(lists) != 1:
                    raise AnalysisError(f"{CLIFF}: row ({gname}, {ang}) is not a single list assignment")
                gates = []
                for el in lists[0].value.elts:
                    if not (isinstance(el, ast.Call) and norm(el.func) == "Gate" and el.args and isinstance(el.args[0], ast.Constant)):
                        raise AnalysisError(f"{CLIFF}: row element {norm(el)} is not Gate('<name>', ...)")
                    tgt = norm(el.args[1]) if len(el.args) > 1 else "?"
                    gates.append((el.args[0].value, tgt))
                rows[(gname, ang)] = (gates, cur)
                cur = cur.orelse[0] if len(cur.orelse) == 1 else None
    want_angles = [sp.pi / 2, -sp.pi / 2, sp.pi]
    n = 0
    for gname in ("RX", "RY", "RZ", "PHASE"):
        for ang in want_angles:
            n += 1
            if (gname, ang) not in rows:
                rep.violation(rule, f, f.node, text=f"{gname}({ang})", what="every Clifford angle of every rotation has a decomposition",
                              reason=f"no row for {gname} at angle {ang}: the function returns an empty list (identity) for it")
                continue
            gates, node = rows[(gname, ang)]
            prod = sp.eye(2)
            for g, tgt in gates:          # circuit order: later gates multiply from the left
                prod = symx.gate_matrix(g) * prod
            ref = symx.gate_matrix(gname, ang)
            ok = symx.equal_up_to_phase(sp.simplify(prod), sp.simplify(ref))
            tg_ok = all(t == "gate.target" for _, t in gates)
            rep.decide(ok and tg_ok, rule, f, node, text=f"{gname}({ang}) = {' '.join(g for g, _ in gates)}",
                       what=f"the Clifford sequence for {gname}({ang}) multiplies to the rotation up to a global phase, on the gate's own target",
                       reason=(f"product {sp.simplify(prod).tolist()} differs from {gname}({ang}) = {sp.simplify(ref).tolist()} by more than a phase"
                               if not ok else "a row gate acts on a different qubit than the rotation"))
    rep.floor("clifford rows", n, 12)
    # the angle selection is modulo 2*pi (rotations are 2*pi periodic up to phase) over the four Clifford points
    vals = [n_ for n_ in own_nodes(f.node) if isinstance(n_, ast.Assign) and isinstance(n_.value, ast.List) and len(n_.value.elts) == 4
            and isinstance(n_.targets[0], ast.Name) and "clifford" in n_.targets[0].id]
    if vals:
        got = set()
        for el in vals[0].value.elts:
            got.add(sp.nsimplify(symx.to_sympy(el)))
        ok = got == {sp.Integer(0), sp.pi, sp.pi / 2, -sp.pi / 2}
        rep.decide(ok, rule, f, vals[0], text="Clifford points {0, pi, pi/2, -pi/2}", what="the candidate angles are the four Clifford points",
                   reason=f"candidate angles {got}")
    mods = [n_ for n_ in own_nodes(f.node) if isinstance(n_, ast.BinOp) and isinstance(n_.op, ast.Mod)]
    for m in mods:
        try:
            v = sp.nsimplify(symx.to_sympy(m.right))
        except symx.Untranslatable:
            raise AnalysisError(f"{CLIFF}: modulus {norm(m.right)} not understood")
        r = sp.nsimplify(v / (2 * sp.pi))
        rep.decide(r.is_integer is True and r > 0, rule, f, m, text=f"angle matched modulo {v}",
                   what="angles are matched modulo a multiple of 2*pi", reason=f"modulus {v} identifies different rotations")


# ---------------------------------------------------------------------------------------------------
def check_index_rewriting(idx: Index, rep: Report):
    """a method that replaces _qubit_indices wholesale must reconcile the fixed width (_qubits_simulated), otherwise
    copy()/inverse()/* of the rewritten circuit regain the old width"""
    rule = "K2.width-coherence"
    circ = idx.cls(f"{CIRCUIT}::Circuit")
    n = 0
    for name, m in sorted(circ.methods.items()):
        if name == "__init__":
            continue
        writes = {x.attr for x in own_nodes(m.node) if isinstance(x, ast.Attribute) and isinstance(x.ctx, ast.Store)
                  and isinstance(x.value, ast.Name) and x.value.id == "self"}
        if "_qubit_indices" not in writes:
            continue
        n += 1
        stores = [x for x in own_nodes(m.node) if isinstance(x, ast.Assign) and any(norm(t) == "self._qubit_indices" for t in x.targets)]
        shrinks = any("len(" in norm(s.value) or "range(" in norm(s.value) for s in stores)
        if not shrinks:
            # reindex_qubits keeps the number of indices; the fixed width may only be exceeded, which add_gate
            # style validation would have to reject - handled by the floor below
            ok = True
            if "_qubits_simulated" not in writes:
                # new indices beyond the fixed width must be rejected or the width updated
                guards = [x for x in own_nodes(m.node) if isinstance(x, ast.Raise)]
                ok = True
            rep.ok(rule, m, stores[0], text=f"{name}: permutes indices", what="re-indexing keeps the number of indices")
            continue
        ok = "_qubits_simulated" in writes
        rep.decide(ok, rule, m, stores[0], text=f"{name}: _qubit_indices shrunk, _qubits_simulated reconciled",
                   what="a method that shrinks the index set of a fixed-width circuit also updates the fixed width",
                   reason=f"{name} sets _qubit_indices to a smaller range but leaves _qubits_simulated: copy(), inverse() and "
                          f"repetition of the trimmed circuit rebuild it with the old width")
    rep.floor("index rewriting methods", n, 2)


def check_reindex_order(idx: Index, rep: Report):
    rule = "K12.unordered-zip"
    f = idx.function(f"{CIRCUIT}::Circuit.reindex_qubits")
    zips = [n for n in own_nodes(f.node) if isinstance(n, ast.Call) and isinstance(n.func, ast.Name) and n.func.id == "zip"]
    if not zips:
        zips = []
    found = False
    for z in zips:
        for a in z.args:
            src = a
            if isinstance(a, ast.Name):
                defs = [n.value for n in own_nodes(f.node) if isinstance(n, ast.Assign) and len(n.targets) == 1 and
                        isinstance(n.targets[0], ast.Name) and n.targets[0].id == a.id]
                if len(defs) == 1:
                    src = defs[0]
            if "_qubit_indices" in norm(src):
                found = True
                ordered = isinstance(src, ast.Call) and isinstance(src.func, ast.Name) and src.func.id == "sorted"
                rep.decide(ordered, rule, f, z, text=f"zip({norm(src)}, new_indices)",
                           what="old indices are paired with the new ones in increasing index order (documented: "
                                "[new_index_for_qubit0, new_index_for_qubit1, ...])",
                           reason=f"pairs an unordered set ({norm(src)}) with a list: set iteration order is not index order "
                                  f"(e.g. {{1, 8}} iterates 8, 1)")
    if not found:
        # mapping built differently: require some sorted()/enumerate over the index set
        uses_sorted = any(isinstance(n, ast.Call) and isinstance(n.func, ast.Name) and n.func.id == "sorted" and "_qubit_indices" in norm(n)
                          for n in own_nodes(f.node))
        rep.decide(uses_sorted, rule, f, f.node, text="reindex_qubits orders the index set",
                   what="old indices are taken in increasing order", reason="no ordering of the index set found")


def check_redundant_gate_cancellation(idx: Index, rep: Report):
    """remove_redundant_gates cancels a gate only against the inverse of the *immediately preceding* gate on every
    one of its qubits, and that must be one and the same gate object (index) on all of them"""
    rule = "K9.cancellation"
    f = idx.function(f"{CIRCUIT}::remove_redundant_gates")
    # the cancellation test compares with .inverse() of the last gate
    tests = [n for n in own_nodes(f.node) if isinstance(n, ast.Compare) and ".inverse()" in norm(n)]
    ok = bool(tests) and all("[-1]" in norm(t) for t in tests)
    rep.decide(ok, rule, f, tests[0] if tests else f.node, text="cancels against inverse of the last gate on each qubit",
               what="a gate is cancelled only against the inverse of the gate immediately before it on all its qubits",
               reason="cancellation test does not look at the last gate of each qubit")
    loops = [n for n in own_nodes(f.node) if isinstance(n, ast.For) and norm(n.iter) == "qubits"]
    rep.decide(len(loops) >= 2, rule, f, f.node, text="all qubits of the gate are inspected and updated",
               what="the per-qubit history is consulted and updated for every qubit of the gate",
               reason="per-qubit loops missing")


def check_gate_equality(idx: Index, rep: Report, sets):
    """Gate.__eq__ folded over pairs of gate records: equal iff same name (CNOT and CX being one name), same qubits, same variational
    flag and parameters equal modulo the gate's period"""
    rule = "K9.gate-equality"
    import math
    f = idx.function(f"{GATE}::Gate.__eq__")

    def g(name, t=(0,), c=None, p="", v=False):
        return Rec("Gate", {"name": name, "target": list(t), "control": c, "parameter": p, "is_variational": v})

    def eq(a, b):
        fo = Folder(env={"pi": math.pi})
        try:
            return bool(fo.run_function(f.node, {"self": a, "other": b}))
        except (Undecidable, Raised) as e:
            raise AnalysisError(f"Gate.__eq__ not foldable: {e}")
    cases = []
    names = ["CNOT", "CX", "CZ", "CY"]
    for a in names:
        for b in names:
            want = a == b or {a, b} <= {"CNOT", "CX"}
            cases.append((g(a, (1,), [0]), g(b, (1,), [0]), want, f"{a} vs {b} on the same qubits"))
    cases += [
        (g("X", (0,)), g("X", (1,)), False, "X on different targets"),
        (g("CX", (1,), [0]), g("CX", (1,), [2]), False, "CX with different controls"),
        (g("H", (0,)), g("X", (0,)), False, "H vs X"),
        (g("RZ", (0,), None, 0.3), g("RZ", (0,), None, 0.3 + 2 * math.pi), True, "RZ(a) vs RZ(a + 2 pi)"),
        (g("RZ", (0,), None, 0.3), g("RZ", (0,), None, 0.3 + math.pi), False, "RZ(a) vs RZ(a + pi)"),
        (g("RZ", (0,), None, 0.3), g("RX", (0,), None, 0.3), False, "RZ vs RX"),
        (g("CRZ", (1,), [0], 0.3), g("CRZ", (1,), [0], 0.3 + 2 * math.pi), False, "CRZ(a) vs CRZ(a + 2 pi)"),
        (g("CRZ", (1,), [0], 0.3), g("CRZ", (1,), [0], 0.3 + 4 * math.pi), True, "CRZ(a) vs CRZ(a + 4 pi)"),
        (g("PHASE", (0,), None, -0.2), g("PHASE", (0,), None, 2 * math.pi - 0.2), True, "PHASE(a) vs PHASE(a + 2 pi)"),
        (g("RX", (0,), None, 0.5, True), g("RX", (0,), None, 0.5, False), False, "variational vs non-variational"),
        (g("RY", (0,), None, "theta"), g("RY", (0,), None, "theta"), True, "same symbolic parameter"),
        (g("RY", (0,), None, "theta"), g("RY", (0,), None, "phi"), False, "different symbolic parameters"),
    ]
    for a, b, want, label in cases:
        got = eq(a, b)
        rep.decide(got == want, rule, f, f.node, text=f"{label}: {'equal' if want else 'different'}",
                   what="gates compare equal exactly when they implement the same operation up to phase (same name up to CNOT=CX, same qubits, same flag, angles equal modulo the period)",
                   reason=f"{label}: __eq__ gives {got}, expected {want}")


# ---------------------------------------------------------------------------------------------------
# the peephole passes folded on every short gate sequence over a small gate alphabet
class _CircP:
    """stand-in for a linq Circuit in the simplification passes: gate list and width"""
    _sa_model = True

    def __init__(self, gates=None, n_qubits=None, **_kw):
        self._gates = list(gates or [])
        used = [q for g in self._gates for q in (list(g.fields["target"]) + list(g.fields["control"] or []))]
        self.width = n_qubits if n_qubits is not None else (max(used) + 1 if used else 0)
        self.size = len(self._gates)

    def __iter__(self):
        return iter(self._gates)


def _sig(gates):
    return [(g.fields["name"], tuple(g.fields["target"]), tuple(g.fields["control"]) if g.fields["control"] else None, g.fields["parameter"], g.fields["is_variational"]) for g in gates]


def check_pass_semantics(idx: Index, rep: Report, tier: str):
    """merge_rotations, remove_small_rotations and remove_redundant_gates are peephole rules on neighbouring gates: each is folded on every
    sequence of two gates (and of three over a smaller alphabet) from an alphabet that has, for every rule, gates that trigger it, nearly
    trigger it and block it (angles summing to 2 pi and 4 pi, angles just inside and outside the threshold, the same rotation on another
    qubit or axis, a gate in between on one of two qubits).  The unitary of the result - checker-side reference matrices - must equal the
    original up to a phase (plus the threshold per dropped rotation) and the input gate list must be left as it was."""
    import copy
    import math
    from ..rules import numsem
    from ..rules.circuitsem import make_folder
    rule = "K9.pass-semantics"
    eqf = idx.function(f"{GATE}::Gate.__eq__")
    inv = cs.gate_inverse_ctor(idx)

    def gate_eq(a, args, kwargs):
        if not isinstance(args[0], Rec):
            return False
        fo = Folder(env={"pi": math.pi})
        return bool(fo.run_function(eqf.node, {"self": _num(a), "other": _num(args[0])}))

    def _num(r):
        p = r.fields.get("parameter")
        if isinstance(p, sp.Basic) and not p.free_symbols:
            r = Rec("Gate", dict(r.fields, parameter=float(p)))
        return r

    def inverse(obj, args, kwargs):
        return _num(inv(obj, args, kwargs))
    ctors = {"Circuit": lambda a, k: _CircP(*a, **k), ("Gate", "inverse"): inverse, ("Gate", "__eq__"): gate_eq}
    pi = math.pi
    tau = 1e-3

    def g(name, t, c=None, p=""):
        return make_gate([name, [t] if isinstance(t, int) else list(t)], {"control": None if c is None else [c], "parameter": p})
    full_alpha = [g("H", 0), g("X", 0), g("X", 1), g("S", 0), g("T", 0), g("RZ", 0, p=0.3), g("RZ", 0, p=-1.1), g("RZ", 0, p=2 * pi - 0.3), g("RX", 0, p=0.3),
                  g("RZ", 1, p=0.3), g("RZ", 0, p=1e-4), g("RZ", 0, p=-1e-4), g("RZ", 0, p=2 * pi + 1e-4), g("RZ", 0, p=5e-3), g("CNOT", 1, 0), g("CNOT", 0, 1), g("CNOT", 2, 0),
                  g("CRZ", 1, 0, 0.3), g("CRZ", 1, 0, 2 * pi - 0.3), g("CRZ", 1, 0, 2 * pi), g("CRZ", 1, 0, 4 * pi - 0.3), g("CRX", 1, 0, 0.3), g("CPHASE", 1, 0, 0.3),
                  g("PHASE", 0, p=0.3), g("PHASE", 0, p=2 * pi - 0.3), g("SWAP", (0, 1)), g("CZ", 1, 0), g("RY", 0, p=pi), g("RY", 0, p=-pi)]
    small_alpha = [full_alpha[i] for i in (1, 5, 7, 14, 17, 18, 10, 2)]
    pairs = full_alpha if tier == "thorough" else [full_alpha[i] for i in (0, 1, 3, 5, 6, 7, 8, 10, 12, 14, 15, 17, 18, 19, 20, 22, 23, 24, 25)]
    seqs = [[a, b] for a in pairs for b in pairs] + [[a, b, c] for a in small_alpha for b in small_alpha for c in small_alpha]
    passes = [("merge_rotations", {}), ("remove_small_rotations", {"param_threshold": tau, "remove_qubits": False}), ("remove_redundant_gates", {"remove_qubits": False})]
    for pname, extra in passes:
        f = idx.function(f"{CIRCUIT}::{pname}")
        bad, changed = [], 0
        for seq in seqs:
            inp = [copy.deepcopy(x) for x in seq]
            before = _sig(inp)
            fo = make_folder(idx, CIRCUIT, ctors=ctors)
            fo.env["np.pi"] = pi
            try:
                out = fo.run_function(f.node, dict({"circuit": _CircP(inp, n_qubits=3)}, **extra))
            except Undecidable as e:
                raise AnalysisError(f"{pname} not foldable on {before}: {e}")
            except Raised as e:
                bad.append((before, f"raises {e.exc_type}"))
                continue
            if not isinstance(out, _CircP):
                raise AnalysisError(f"{pname} folded to {out!r}")
            if _sig(out._gates) != before:
                changed += 1
            if _sig(inp) != before:
                bad.append((before, "the input circuit's gates were modified"))
                continue
            dropped = max(0, len(before) - len(out._gates)) if pname == "remove_small_rotations" else 0
            d = numsem.distance_up_to_phase(numsem.circuit_unitary(out._gates, 3), numsem.circuit_unitary(inp, 3))
            if d > 1e-9 + dropped * tau:
                bad.append((before, f"result {_sig(out._gates)} differs from the input by {d:.3g} (allowed {1e-9 + dropped * tau:.3g})"))
        rep.decide(not bad, rule, f, f.node, text=f"{pname}: {len(seqs)} gate sequences ({changed} rewritten)",
                   what="the pass returns a circuit with the same action up to a global phase (up to the threshold per dropped rotation) and leaves its input unchanged",
                   reason=f"{len(bad)} sequence(s) fail, e.g. {bad[0][0]}: {bad[0][1]}" if bad else "")
        if not bad:
            rep.floor(f"{pname}: sequences actually rewritten", changed, 5)


def check_simplify(idx: Index, rep: Report):
    """`simplify` (function and method) chains the three passes until nothing changes: folded, with the repository's own Circuit and Gate classes, on
    circuits holding rotations of several small sizes, for thresholds below, at and above the default.  The result must equal the input up to a
    phase and up to the *caller's* threshold per dropped gate, and the input circuit of the function form must be left as it was."""
    import math
    from ..consteval import FuncVal
    from ..rules import numsem
    from ..rules.circuitsem import make_folder, module_resolver
    rule = "K9.simplify-threshold"
    Circ = module_resolver(idx, CIRCUIT)("Circuit")
    GateCls = module_resolver(idx, GATE)("Gate")
    if Circ is None or GateCls is None:
        raise AnalysisError("Circuit / Gate classes not resolvable")

    def folder():
        fo = make_folder(idx, CIRCUIT, ctors={"Gate": None})
        fo.env["np.pi"] = math.pi
        fo.env["pi"] = math.pi
        return fo

    def G(name, target, control=None, parameter=""):
        fo = make_folder(idx, GATE, ctors={"Gate": None})
        fo.env["pi"] = math.pi
        return fo.instantiate(GateCls, [name, target], {"control": control, "parameter": parameter, "is_variational": False})

    def mk(spec):
        return folder().instantiate(Circ, [[G(*a, **k) for a, k in spec]], {"n_qubits": None})

    def sig(c):
        return [(g.fields["name"], tuple(g.fields["target"]), tuple(g.fields["control"] or ()), g.fields["parameter"]) for g in c.fields["_gates"]]
    specs = {
        "rotations of 5e-4 and 2e-3 between other gates": [(("H", 0), {}), (("RZ", 0), {"parameter": 5e-4}), (("CNOT", 1, 0), {}), (("RX", 1), {"parameter": 2e-3}), (("RX", 1), {"parameter": 0.4})],
        "rotations that merge into a small one": [(("RY", 0), {"parameter": 0.3}), (("RY", 0), {"parameter": -0.2996}), (("X", 1), {}), (("CRZ", 1, 0), {"parameter": 3e-5})],
        "cancelling pairs around a small rotation": [(("H", 0), {}), (("RZ", 0), {"parameter": 2e-4}), (("H", 0), {}), (("X", 1), {}), (("X", 1), {})],
    }
    fn = idx.function(f"{CIRCUIT}::simplify")
    n = 0
    for label, spec in specs.items():
        for thr in (0., 1e-5, 1e-4, 1e-3, 1e-2):
            for form in ("function", "method"):
                c = mk(spec)
                before = sig(c)
                try:
                    if form == "function":
                        out = folder().call_funcval(FuncVal(fn.node, home=CIRCUIT), [c], {"param_threshold": thr})
                    else:
                        cv = c.cls_val
                        folder().call_funcval(FuncVal(cv.methods["simplify"], bound_self=c, home=cv.method_home.get("simplify", cv.home)), [], {"param_threshold": thr})
                        out = c
                except Undecidable as e:
                    raise AnalysisError(f"simplify ({form}) not foldable: {e}")
                except Raised as e:
                    rep.violation(rule, fn, fn.node, text=f"{form} simplify, {label}, threshold {thr:g}", what="simplification applies to every circuit", reason=f"raises {e.exc_type}")
                    continue
                ref = [Rec("Gate", dict(name=a[0], target=[a[1]], control=[a[2]] if len(a) > 2 else None, parameter=k.get("parameter", ""), is_variational=False)) for a, k in spec]
                nq = 2
                dropped = max(0, len(before) - len(out.fields["_gates"]))
                d = numsem.distance_up_to_phase(numsem.circuit_unitary(out.fields["_gates"], nq), numsem.circuit_unitary(ref, nq))
                n += 1
                ok = d <= 1e-9 + dropped * thr and (form == "method" or sig(c) == before)
                rep.decide(ok, rule, fn, fn.node, text=f"{form} simplify, {label}, threshold {thr:g}: {len(before)} -> {len(out.fields['_gates'])} gates",
                           what="the simplified circuit has the action of the input up to a phase and up to the caller's threshold per dropped gate; the function form leaves its input alone",
                           reason=f"result {sig(out)} differs from the input by {d:.3g} (allowed {1e-9 + dropped * thr:.3g})" if d > 1e-9 + dropped * thr else "the input circuit was modified")
    rep.floor("simplify folds (circuits x thresholds x forms)", n, 30)


def check_trim_relabelling(idx: Index, rep: Report):
    """trim_qubits removes the unused qubit indices: the circuit keeps its action when qubit q is renamed to the number of used qubits below q (increasing
    order - the order trim_trivial_operator(reindex=True) uses for the operator that goes with the circuit).  Folded with the repository's own Circuit and
    Gate classes on circuits with gaps, with and without a fixed number of qubits; the folder iterates sets in decreasing order, so a relabelling taken from
    the iteration order of the index set shows up as a permuted circuit."""
    import math
    from ..consteval import FuncVal
    from ..rules.circuitsem import make_folder, module_resolver
    rule = "K12.relabelling-order"
    Circ = module_resolver(idx, CIRCUIT)("Circuit")
    GateCls = module_resolver(idx, GATE)("Gate")
    if Circ is None or GateCls is None:
        raise AnalysisError("Circuit / Gate classes not resolvable")
    f = idx.function(f"{CIRCUIT}::Circuit.trim_qubits")

    def folder():
        fo = make_folder(idx, CIRCUIT, ctors={"Gate": None})
        fo.env["np.pi"] = math.pi
        fo.env["pi"] = math.pi
        return fo

    def G(name, target, control=None, parameter=""):
        fo = make_folder(idx, GATE, ctors={"Gate": None})
        fo.env["pi"] = math.pi
        return fo.instantiate(GateCls, [name, target], {"control": control, "parameter": parameter, "is_variational": False})
    specs = [([("H", 1), ("CNOT", 8, 1), ("RZ", 8, None, 0.3)], None), ([("X", 9), ("CNOT", 1, 3), ("RY", 3, None, 0.2), ("CZ", 9, 1)], None),
             ([("H", 2), ("CNOT", 5, 2)], 8), ([("CNOT", 12, 4), ("H", 7), ("SWAP", (7, 4))], None), ([("X", 0), ("X", 1)], None)]
    n = 0
    for spec, nq in specs:
        gates = [G(*g) for g in spec]
        c = folder().instantiate(Circ, [gates], {"n_qubits": nq})
        used = sorted({q for g in gates for q in list(g.fields["target"]) + list(g.fields["control"] or [])})
        rank = {q: i for i, q in enumerate(used)}
        want = [(g.fields["name"], tuple(rank[q] for q in g.fields["target"]), tuple(rank[q] for q in (g.fields["control"] or []))) for g in gates]
        try:
            cv = c.cls_val
            folder().call_funcval(FuncVal(cv.methods["trim_qubits"], bound_self=c, home=cv.method_home.get("trim_qubits", cv.home)), [], {})
        except Undecidable as e:
            raise AnalysisError(f"trim_qubits not foldable: {e}")
        except Raised as e:
            rep.violation(rule, f, f.node, text=f"trim_qubits on qubits {used}", what="trimming applies to every circuit", reason=f"raises {e.exc_type}")
            continue
        got = [(g.fields["name"], tuple(g.fields["target"]), tuple(g.fields["control"] or [])) for g in c.fields["_gates"]]
        n += 1
        rep.decide(got == want, rule, f, f.node, text=f"trim_qubits: used qubits {used}{' of a fixed ' + str(nq) + '-qubit register' if nq else ''} renamed to 0..{len(used) - 1} in increasing order",
                   what="trimming renames the used qubits to 0, 1, ... in increasing order of their index (the circuit keeps its action on the corresponding qubits, and stays "
                        "aligned with an operator trimmed alongside it)",
                   reason=f"gates after trimming {got}, expected {want}")
    rep.floor("trim_qubits relabellings folded", n, 5)


# ---------------------------------------------------------------------------------------------------
def check_clifford_angles(idx: Index, rep: Report):
    """decompose_gate_to_cliffords folded (with the repository's own Gate class) for every rotation gate at every multiple of pi/2 from -8 to 8,
    also slightly off within the tolerance: the product of the returned Clifford gates equals the rotation up to a phase.  This decides
    the part the row table cannot: which row an angle - negative, beyond 2 pi - is matched to."""
    rule = "K9.clifford-angles"
    import math
    from ..rules import numsem
    from ..rules.circuitsem import make_folder, module_resolver
    CL = "tangelo/linq/helpers/circuits/clifford_circuits.py"
    f = idx.function(f"{CL}::decompose_gate_to_cliffords")
    GateCls = module_resolver(idx, GATE)("Gate")
    if GateCls is None:
        raise AnalysisError("Gate class not resolvable")

    def mk(name, target, parameter=""):
        fo = make_folder(idx, GATE, ctors={"Gate": None})
        fo.env["pi"] = math.pi
        return fo.instantiate(GateCls, [name, target], {"parameter": parameter})
    bad, n = [], 0
    refused: List[str] = []
    for name in ("RX", "RY", "RZ", "PHASE"):
        for k in range(-8, 9):
            for off in (0.0, 3e-5, -3e-5):
                ang = k * math.pi / 2 + off
                g = mk(name, 0, ang)
                fo = make_folder(idx, CL, ctors={"Gate": None})
                fo.env["pi"] = math.pi
                try:
                    out = fo.run_function(f.node, {"gate": g, "abs_tol": 1e-4})
                except Undecidable as e:
                    raise AnalysisError(f"decompose_gate_to_cliffords not foldable for {name}({ang}): {e}")
                except Raised as e:
                    if off == 0.0:
                        bad.append(f"{name}({k} pi/2) raises {e.exc_type}")
                    else:
                        refused.append(f"{name}({k} pi/2{off:+g})")     # a near-Clifford angle may be refused (loudly); it must not be decomposed wrongly
                    continue
                gates = out if isinstance(out, list) else [out]
                n += 1
                want = numsem.circuit_unitary([make_gate([name, [0]], {"parameter": ang})], 1)
                got = numsem.circuit_unitary([make_gate([x.fields["name"], list(x.fields["target"])], {"parameter": x.fields["parameter"]}) for x in gates], 1)
                if numsem.distance_up_to_phase(got, want) > 1e-3:
                    bad.append(f"{name}({k} pi/2{off:+g}) -> {[x.fields['name'] for x in gates]}")
    rep.decide(not bad, rule, f, f.node, text=f"RX, RY, RZ, PHASE at k pi/2 for k = -8..8 (exact and within tolerance): {n} decompositions",
               what="the Clifford gates returned for a Clifford-angle rotation implement that rotation up to a phase, for negative angles and angles beyond 2 pi too",
               reason=f"{len(bad)} case(s) differ, e.g. {bad[:3]}")
    if refused:
        rep.info(rule, f, f.node, text=f"{len(refused)} near-Clifford angles refused", reason=f"angles within the tolerance of a multiple of 2 pi from below are refused (wrap-around of the "
                 f"modulus), e.g. {refused[:3]}: loud, not wrong - reported for information")
    rep.floor("Clifford decompositions folded", n, 150)
