"""C15 Problem-decomposition energies satisfy their defining identities (the clauses that are arithmetic or forwarding facts of the source).

Energies of SCF / CI solvers are runtime numbers and are not decided.  Four clauses of the property are facts about how the source
*combines* such numbers or hands data on, and are decided for every value of those numbers:

C15.a K9  method of increments: `mi_summation` folded with one symbol per fragment energy; carried to full order the sum equals the
          energy of the complete fragment, at any truncation order it is mean field + the Moebius-inverted increments (2-4 centres)
C15.b K9  ONIOM: `simulate` folded with symbolic solver energies: E = E_low[system] + sum(E_high[model] - E_low[model]); hence the two
          limiting identities of the property (identical levels, model = whole system) hold by algebra
C15.c K9  link atoms: `Link.relink` folded on symbolic coordinates for a single capping atom and for a three-atom group under the identity rotation: it (the first group atom) sits at staying + factor * (leaving - staying)
C15.d K8  DMET atom re-ordering (nested fragment lists): the molecule rebuilt for the re-ordered atoms receives every datum the original
          conversion `mol_to_pyscf` put on the molecule from arguments DMET passes (basis, charge, spin, effective core potentials, atoms):
          a necessary condition for invariance under relabelling
"""
from __future__ import annotations

import ast
import itertools
from typing import Dict, List

import sympy as sp

from ..consteval import Folder, FuncVal, Opaque, Raised, Rec, Undecidable
from ..index import AnalysisError, Index, norm, own_nodes
from ..report import Report
from ..rules.circuitsem import make_folder, module_resolver

MI = "tangelo/problem_decomposition/incremental/incremental_helper.py"
ONIOM = "tangelo/problem_decomposition/oniom/oniom_problem_decomposition.py"
HELP = "tangelo/problem_decomposition/oniom/_helpers/helper_classes.py"
DMET = "tangelo/problem_decomposition/dmet/dmet_problem_decomposition.py"
ISP = "tangelo/toolboxes/molecular_computation/integral_solver_pyscf.py"


def run(idx: Index, rep: Report, tier: str):
    rep.explain("C15, four arithmetic / forwarding clauses: the incremental summation as an identity in symbolic fragment energies; the ONIOM "
                "energy formula in symbolic solver energies; the position of a capping atom in symbolic coordinates; agreement between the "
                "molecule DMET rebuilds for re-ordered atoms and the one it was given.")
    rep.trust("CPython ast", "sa.consteval folding subset", "sympy simplify")
    rep.assume("solver energies, exactness of the embedding, convergence of the chemical-potential search and electron counts are numerical and are not decided",
               "capping groups of several atoms (rotation by scipy) are not decided")
    check_mi_summation(idx, rep)
    check_oniom_sum(idx, rep)
    check_fragment_build(idx, rep)
    check_link_placement(idx, rep)
    check_dmet_rebuild(idx, rep)
    check_dmet_electron_split(idx, rep)
    check_fragment_one_body(idx, rep)


# ---------------------------------------------------------------------------------------------------
class _MIModel:
    _sa_model = True

    def __init__(self, n_centres: int, order: int):
        self.e_mf = sp.Symbol("E_mf")
        self.frag_info = {}
        self.frag_info_flattened = {}
        for k in range(1, order + 1):
            self.frag_info[k] = {}
            for s in itertools.combinations(range(n_centres), k):
                d = {"energy_total": sp.Symbol("E_" + "_".join(map(str, s))), "correction": sp.Symbol("K_" + "_".join(map(str, s)))}
                self.frag_info[k][str(s)] = d
                self.frag_info_flattened[str(s)] = d


def check_mi_summation(idx: Index, rep: Report):
    rule = "K9.mi-summation"
    f = idx.function(f"{MI}::MethodOfIncrementsHelper.mi_summation")
    n = 0
    for centres in (2, 3, 4):
        for order in range(1, centres + 1):
            m = _MIModel(centres, order)
            fo = make_folder(idx, MI)
            try:
                got = fo.run_function(f.node, {"self": m, "user_provided_energies": None})
            except (Undecidable, Raised) as e:
                raise AnalysisError(f"mi_summation not foldable ({centres} centres, order {order}): {e}")
            E = lambda s: m.frag_info_flattened[str(s)]["energy_total"]
            eps = {}
            for k in range(1, order + 1):
                for s in itertools.combinations(range(centres), k):
                    eps[s] = sum((-1) ** (len(s) - len(t)) * (E(t) - m.e_mf) for j in range(1, len(s) + 1) for t in itertools.combinations(s, j))
            want = m.e_mf + sum(eps.values())
            ok = sp.simplify(sp.expand(got - want)) == 0
            n += 1
            rep.decide(ok, rule, f, f.node, text=f"{centres} centres, increments up to order {order}: mean field + Moebius-inverted increments",
                       what="each increment is the correlation energy of its fragment minus all lower-order increments it contains; the total is the mean-field energy plus all increments",
                       reason=f"folds to {sp.simplify(got)}")
            if order == centres:
                full = E(tuple(range(centres)))
                rep.decide(sp.simplify(sp.expand(got - full)) == 0, rule, f, f.node, text=f"{centres} centres carried to full order: equals the energy of the complete fragment",
                           what="a summation carried to full order equals the energy of the complete fragment, whatever the fragment energies are",
                           reason=f"full-order sum minus E(complete) = {sp.simplify(sp.expand(got - full))}")
    # user-provided energies replace the stored ones, with the stored correction added
    m = _MIModel(3, 2)
    fo = make_folder(idx, MI)
    u = sp.Symbol("U")
    try:
        got = fo.run_function(f.node, {"self": m, "user_provided_energies": {"(0, 1)": u}})
        base = make_folder(idx, MI).run_function(f.node, {"self": _MIModel(3, 2), "user_provided_energies": None})
    except (Undecidable, Raised) as e:
        raise AnalysisError(f"mi_summation not foldable with user energies: {e}")
    e01, k01 = m.frag_info_flattened["(0, 1)"]["energy_total"], m.frag_info_flattened["(0, 1)"]["correction"]
    ok = sp.simplify(sp.expand(got - base.subs(e01, u + k01))) == 0
    rep.decide(ok, rule, f, f.node, text="a user-provided fragment energy replaces the stored one (plus the fragment's stored correction)",
               what="recomputing with new fragment results uses exactly those results", reason=f"folds to {sp.simplify(got)}")
    rep.floor("mi_summation folds", n, 9)


# ---------------------------------------------------------------------------------------------------
def check_oniom_sum(idx: Index, rep: Report):
    rule = "K9.oniom-sum"
    f = idx.function(f"{ONIOM}::ONIOMProblemDecomposition.simulate")
    res = module_resolver(idx, HELP)
    frag_cls = res("Fragment")
    if frag_cls is None:
        raise AnalysisError("Fragment class not resolvable")

    def energy(args, kwargs):
        mol, solver = args
        return sp.Symbol(f"E[{solver}|{mol}]")

    def frag(mol, low, high):
        r = Rec("Fragment", {"solver_low": low, "solver_high": high, "mol_low": mol, "mol_high": mol, "e_low": None, "e_high": None, "e_fragment": None})
        r.cls_val = frag_cls
        return r

    class _Oniom:
        _sa_model = True

        def __init__(self, fragments):
            self.fragments = fragments
            self.verbose = False
    cases = [
        ("system at low level, one model at (high, low)", [frag("SYS", "LOW", None), frag("M1", "LOW", "HIGH")], lambda E: E("LOW", "SYS") + E("HIGH", "M1") - E("LOW", "M1")),
        ("system at low level, two models", [frag("SYS", "LOW", None), frag("M1", "LOW", "HIGH"), frag("M2", "LOW", "MID")],
         lambda E: E("LOW", "SYS") + E("HIGH", "M1") - E("LOW", "M1") + E("MID", "M2") - E("LOW", "M2")),
        ("model treated at identical levels", [frag("SYS", "LOW", None), frag("M1", "LOW", "LOW")], lambda E: E("LOW", "SYS")),
        ("model is the whole system", [frag("SYS", "LOW", None), frag("SYS", "LOW", "HIGH")], lambda E: E("HIGH", "SYS")),
        ("a fragment with a high level only", [frag("SYS", None, "HIGH")], lambda E: E("HIGH", "SYS")),
    ]
    E = lambda s, m: sp.Symbol(f"E[{s}|{m}]")
    for label, frags, want in cases:
        for rounds in (1, 2):           # a second call must give the same energy (the sign flip of the low-level term is not cumulative)
            fo = make_folder(idx, ONIOM, ctors={"Fragment.get_energy": energy})
            fo.generic_symbols = True
            try:
                got = None
                model = _Oniom(frags)
                for _ in range(rounds):
                    got = fo.run_function(f.node, {"self": model})
            except (Undecidable, Raised) as e:
                raise AnalysisError(f"ONIOM simulate not foldable ({label}): {e}")
            rep.decide(sp.simplify(got - want(E)) == 0, rule, f, f.node, text=f"{label}{' (second call)' if rounds == 2 else ''}",
                       what="E = E_low[system] + sum over models (E_high[model] - E_low[model]), identically in the solver energies; the limiting identities follow",
                       reason=f"folds to {got}")


def check_fragment_build(idx: Index, rep: Report):
    """Fragment.build folded with the molecule constructor and the solver factory replaced by probes: the low-level molecule is built from the
    low level's own basis and frozen orbitals, the high-level molecule from the high level's own - also when both levels share the basis and
    differ only in the frozen orbitals (the 'model is the whole system' identity needs the requested high-level calculation, not a reused one)."""
    rule = "K9.oniom-sum"
    res = module_resolver(idx, HELP)
    frag_cls = res("Fragment")
    bld = idx.function(f"{HELP}::Fragment.build")
    cases = [("different bases", {"basis": "sto-3g"}, {"basis": "6-31g"}),
             ("same basis, high level with frozen orbitals", {"basis": "sto-3g"}, {"basis": "sto-3g", "frozen_orbitals": [0]}),
             ("same basis, different frozen orbitals", {"basis": "sto-3g", "frozen_orbitals": [0, 1]}, {"basis": "sto-3g", "frozen_orbitals": [0]}),
             ("identical options", {"basis": "sto-3g", "frozen_orbitals": None}, {"basis": "sto-3g", "frozen_orbitals": None})]
    for label, lo, hi in cases:
        frag = Rec("Fragment", {"solver_low": "HF", "solver_high": "CCSD", "options_low": dict(lo), "options_high": dict(hi), "mol_low": None, "mol_high": None})
        frag.cls_val = frag_cls

        class _MolProbe:
            _sa_model = True

            def __init__(self, basis, frozen):
                self.basis, self.frozen = basis, frozen

        def get_mol(obj, args, kwargs):
            return _MolProbe(args[0], args[2] if len(args) > 2 else kwargs.get("frozen"))
        fo = make_folder(idx, HELP, ctors={("Fragment", "get_mol"): get_mol, ("Fragment", "get_solver"): lambda obj, a, k: ("solver", a[1]),
                                           "get_default_integral_solver": lambda a, k: (lambda *x: "INTSOLVER")})
        try:
            fo.call_funcval(FuncVal(bld.node, bound_self=frag, home=HELP), [], {"integral_solver": "INTSOLVER"})
        except (Undecidable, Raised) as e:
            raise AnalysisError(f"Fragment.build not foldable ({label}): {e}")
        ml, mh = frag.fields["mol_low"], frag.fields["mol_high"]
        ok = isinstance(ml, _MolProbe) and isinstance(mh, _MolProbe) and (ml.basis, ml.frozen) == (lo["basis"], lo.get("frozen_orbitals")) and \
            (mh.basis, mh.frozen) == (hi["basis"], hi.get("frozen_orbitals"))
        rep.decide(ok, rule, bld, bld.node, text=f"Fragment.build, {label}: each level gets a molecule built from its own basis and frozen orbitals",
                   what="the high-level energy of a fragment is computed on the molecule the high level asked for (its own basis and frozen orbitals)",
                   reason=f"low-level molecule ({getattr(ml, 'basis', ml)}, {getattr(ml, 'frozen', None)}), high-level molecule ({getattr(mh, 'basis', mh)}, {getattr(mh, 'frozen', None)}); "
                          f"requested ({lo['basis']}, {lo.get('frozen_orbitals')}) and ({hi['basis']}, {hi.get('frozen_orbitals')})")


# ---------------------------------------------------------------------------------------------------
class _Vec:
    """a coordinate vector / a stack of them with symbolic entries: +, -, scalar *, row access, broadcasting in-place +"""
    _sa_model = True

    def __init__(self, data):
        self.rows = None
        if data and isinstance(data[0], (list, tuple, _Vec)):
            self.rows = [_Vec(list(r.v) if isinstance(r, _Vec) else list(r)) for r in data]
            self.v = None
        else:
            self.v = [sp.sympify(x) for x in data]

    def _bin(self, o, op):
        if self.rows is not None:
            return _Vec([r._bin(o, op).v for r in self.rows])
        if isinstance(o, _Vec):
            if o.rows is not None or len(o.v) != len(self.v):
                raise Undecidable("vector shapes")
            return _Vec([op(a, b) for a, b in zip(self.v, o.v)])
        return _Vec([op(a, sp.sympify(o)) for a in self.v])

    def __add__(self, o):
        return self._bin(o, lambda a, b: a + b)
    __radd__ = __iadd__ = __add__

    def __sub__(self, o):
        return self._bin(o, lambda a, b: a - b)

    def __rsub__(self, o):
        return self._bin(o, lambda a, b: b - a)

    def __mul__(self, o):
        if isinstance(o, _Vec):
            raise Undecidable("vector * vector")
        return self._bin(o, lambda a, b: a * b)
    __rmul__ = __mul__

    def __getitem__(self, k):
        return self.rows[k] if self.rows is not None else self.v[k]

    def __iter__(self):
        return iter(self.rows if self.rows is not None else self.v)

    def __len__(self):
        return len(self.rows if self.rows is not None else self.v)


def _interp(args, kwargs):
    """numpy.interp for one concrete abscissa, concrete increasing sample points and symbolic sample values: linear between the points, CLAMPED to the end values
    outside them (numpy's definition)"""
    if kwargs or len(args) != 3:
        raise Undecidable("np.interp with options")
    x, xp, fp = args
    try:
        x = float(x)
        xp = [float(v) for v in xp]
    except (TypeError, ValueError):
        raise Undecidable("np.interp on a symbolic abscissa")
    fp = list(fp)
    if len(xp) != len(fp) or len(xp) < 2 or any(b <= a for a, b in zip(xp, xp[1:])):
        raise Undecidable("np.interp sample points")
    if x <= xp[0]:
        return sp.sympify(fp[0])
    if x >= xp[-1]:
        return sp.sympify(fp[-1])
    for (a, b), (fa, fb) in zip(zip(xp, xp[1:]), zip(fp, fp[1:])):
        if a <= x <= b:
            return sp.sympify(fa) + sp.nsimplify((x - a) / (b - a)) * (sp.sympify(fb) - sp.sympify(fa))
    raise Undecidable("np.interp")


class _IdRot:
    """the rotation `align_vectors` returns when the two axes are already parallel: the identity (one admissible orthogonal map; the cap position must
    not depend on which one is returned, so a placement that is wrong under the identity is wrong)"""
    _sa_model = True

    def apply(self, x):
        return x


class _RotFactory:
    _sa_model = True

    def align_vectors(self, a, b, *args, **kwargs):
        return (_IdRot(), 0.0)


def check_link_placement(idx: Index, rep: Report):
    rule = "K9.link-placement"
    f = idx.function(f"{HELP}::Link.relink")
    xs = [[sp.Symbol(f"{c}{i}", real=True) for c in "xyz"] for i in range(4)]
    geometry = [("C", tuple(xs[0])), ("C", tuple(xs[1])), ("O", tuple(xs[2])), ("H", tuple(xs[3]))]

    def vec(a, k):
        try:
            return _Vec(list(a[0]))
        except (sp.SympifyError, TypeError) as e:
            raise Undecidable(f"np.array of {a[0]!r:.60}: {e}")
    # the scale factor: a symbol (any value), then values below, inside and beyond the bond (caps heavier than hydrogen sit beyond the atom that leaves)
    n = 0
    for fac in (sp.Symbol("f", real=True), sp.Rational(709, 1000), sp.Integer(1), sp.Rational(1157, 1000), sp.Rational(3, 2), sp.Rational(-1, 5)):
        for staying, leaving, species in ((0, 1, [("H", (0., 0., 0.))]), (2, 0, [("F", (0., 0., 0.))]), (3, 1, [("X", (9., 9., 9.)), ("Cl", (0., 0., 0.))])):
            link = Rec("Link", {"staying": staying, "leaving": leaving, "factor": fac if fac.is_Symbol else float(fac), "species": species})
            fo = make_folder(idx, HELP, ctors={"np.array": vec, "np.interp": _interp})
            fo.env["warnings"] = Opaque("warnings")
            try:
                got = fo.run_function(f.node, {"self": link, "geometry": list(geometry)})
            except (Undecidable, Raised) as e:
                if fac.is_Symbol:
                    break               # written with an operation that needs a concrete factor: decided on the concrete factors below
                raise AnalysisError(f"Link.relink not foldable: {e}")
            n += 1
            el = [s[0] for s in species if s[0].upper() != "X"][0]
            want = [xs[staying][k] + fac * (xs[leaving][k] - xs[staying][k]) for k in range(3)]
            ok = isinstance(got, list) and len(got) == 1 and got[0][0] == el and all(abs(complex(c)) < 1e-9 for k in range(3)
                                                                                     for c in sp.Poly(sp.expand(sp.sympify(got[0][1][k]) - want[k]), *[v for r in xs for v in r], fac if fac.is_Symbol else sp.Symbol("unused")).coeffs())
            rep.decide(ok, rule, f, f.node, text=f"cap {el} for the bond {staying}-{leaving}, factor {fac}: at staying + factor * (leaving - staying)",
                       what="a single capping atom sits on the broken bond at the requested fraction of its length, measured from the atom that stays - beyond the "
                            "leaving atom when the factor exceeds one",
                       reason=f"folds to {got}")
    # multi-atom cap group (placeholder X, then the group; its first atom is the one bonded to the atom that stays): folded with the identity as the
    # aligning rotation - the first atom of the group lands on the bond point and the others keep their offsets from it
    group = [("X", (0., 0., -1.)), ("C", (0., 0., 0.)), ("H", (1., 0., 0.5)), ("H", (0., 1., 0.5))]
    m = 0
    for fac in (sp.Rational(709, 1000), sp.Rational(3, 2)):
        link = Rec("Link", {"staying": 0, "leaving": 1, "factor": float(fac), "species": list(group)})
        fo = make_folder(idx, HELP, ctors={"np.array": vec, "np.interp": _interp})
        fo.env["warnings"] = Opaque("warnings")
        fo.env["R"] = _RotFactory()
        try:
            got = fo.run_function(f.node, {"self": link, "geometry": list(geometry)})
        except (Undecidable, Raised) as e:
            rep.info(rule, f, f.node, f"multi-atom cap group not foldable ({e}): placement of groups not decided") if hasattr(rep, "info") else None
            break
        m += 1
        want0 = [xs[0][k] + fac * (xs[1][k] - xs[0][k]) for k in range(3)]
        ok = isinstance(got, list) and [g[0] for g in got] == ["C", "H", "H"]
        if ok:
            for j, (_, off) in enumerate(group[1:]):
                for k in range(3):
                    d = sp.expand(sp.sympify(got[j][1][k]) - want0[k] - sp.nsimplify(off[k]))
                    ok = ok and all(abs(complex(c)) < 1e-9 for c in sp.Poly(d, *[v for r in xs for v in r]).coeffs())
        rep.decide(ok, rule, f, f.node, text=f"cap group C,H,H for the bond 0-1, factor {fac}, aligning rotation = identity: first group atom at the bond point, the others at their offsets from it",
                   what="the first atom of a multi-atom cap group sits on the broken bond at the requested fraction and the group is moved rigidly with it",
                   reason=f"folds to {got}")
    rep.floor("link placements folded", n, 15)


def _backward_slice(fnode: ast.AST, start: ast.AST) -> List[ast.AST]:
    """the expressions `start` depends on inside one function, through local names: every right-hand side assigned to a name (or to a subscript / attribute
    of it, or appended to it) that occurs in the slice, transitively"""
    defs: Dict[str, List[ast.AST]] = {}
    for n in ast.walk(fnode):
        if isinstance(n, ast.Assign):
            for t in n.targets:
                for tt in (t.elts if isinstance(t, (ast.Tuple, ast.List)) else [t]):
                    base = tt
                    while isinstance(base, (ast.Subscript, ast.Attribute)):
                        base = base.value
                    if isinstance(base, ast.Name) and base.id != "self":
                        defs.setdefault(base.id, []).append(n.value)
        elif isinstance(n, ast.AugAssign) and isinstance(n.target, ast.Name):
            defs.setdefault(n.target.id, []).append(n.value)
        elif isinstance(n, ast.Call) and isinstance(n.func, ast.Attribute) and n.func.attr in ("append", "extend", "insert") and isinstance(n.func.value, ast.Name):
            defs.setdefault(n.func.value.id, []).extend(n.args)
    seen, out, todo = set(), [], [start]
    while todo:
        e = todo.pop()
        out.append(e)
        for x in ast.walk(e):
            if isinstance(x, ast.Name) and x.id not in seen:
                seen.add(x.id)
                todo.extend(defs.get(x.id, []))
    return out


def check_fragment_one_body(idx: Index, rep: Report):
    """The chemical potential of DMET reaches a fragment solver in exactly one way: the fragment's mean-field object carries a `get_hcore` that returns the
    fragment Fock matrix with the potential subtracted on the fragment orbitals (set in dmet_scf.py).  The classical solvers read it through pyscf; the
    Hamiltonian handed to the quantum solvers has to be built from the same matrix, or fragment electron numbers depend on the solver and cannot add up to
    the total.  Rule: in every Hamiltonian builder of SecondQuantizedDMETFragment the one-body coefficients depend (def-use, within the method) on
    `self.mean_field.get_hcore()`."""
    rule = "K8.fragment-one-body"
    SCF = "tangelo/problem_decomposition/dmet/_helpers/dmet_scf.py"
    FRAG = "tangelo/problem_decomposition/dmet/fragment.py"
    m = idx.module_by_relpath(SCF)
    carriers = [n for f in m.functions.values() for n in ast.walk(f.node) if isinstance(n, ast.Assign) and norm(n.targets[0]).endswith(".get_hcore")]
    if len(carriers) < 2:
        raise AnalysisError("dmet_scf.py: the fragment mean field no longer receives its one-body matrix through get_hcore (premise of K8.fragment-one-body)")
    ci = idx.cls(f"{FRAG}::SecondQuantizedDMETFragment")
    n = 0
    for name, meth in ci.methods.items():
        if not name.startswith("_fermionic_hamiltonian"):
            continue
        # the one-body coefficients: second argument of InteractionOperator
        ctor = [c for c in ast.walk(meth.node) if isinstance(c, ast.Call) and norm(c.func).endswith("InteractionOperator") and len(c.args) >= 2]
        if len(ctor) != 1:
            raise AnalysisError(f"{meth.ref}: InteractionOperator assembly not found")
        sl = _backward_slice(meth.node, ctor[0].args[1])
        # a value obtained through a helper method of the class is what that helper returns (two levels)
        for _level in range(2):
            extra = []
            for e in sl:
                for x in ast.walk(e):
                    if isinstance(x, ast.Call) and isinstance(x.func, ast.Attribute) and norm(x.func.value) == "self" and x.func.attr in ci.methods and x.func.attr != name:
                        helper = ci.methods[x.func.attr]
                        for r in ast.walk(helper.node):
                            if isinstance(r, ast.Return) and r.value is not None:
                                extra += _backward_slice(helper.node, r.value)
            sl = sl + [e for e in extra if e not in sl]
        has = any(isinstance(x, ast.Call) and norm(x.func) == "self.mean_field.get_hcore" for e in sl for x in ast.walk(e))
        n += 1
        rep.decide(has, rule, meth, ctor[0], text=f"{meth.qualname}: one-body coefficients {norm(ctor[0].args[1])} derive from self.mean_field.get_hcore()",
                   what="the Hamiltonian given to a quantum fragment solver is built from the mean field's one-body matrix, the one that carries the chemical potential - as the "
                        "classical fragment solvers read it",
                   reason="the one-body coefficients do not depend on self.mean_field.get_hcore(): the chemical potential is missing from the quantum solvers' Hamiltonian, so the "
                          "fragment electron numbers depend on the solver and no longer add up to the total")
    rep.floor("fragment Hamiltonian builders", n, 2)


# ---------------------------------------------------------------------------------------------------
def check_dmet_rebuild(idx: Index, rep: Report):
    rule = "K8.rebuild-agreement"
    conv = idx.function(f"{ISP}::mol_to_pyscf")
    init = idx.function(f"{DMET}::DMETProblemDecomposition.__init__") if idx.has_function(f"{DMET}::DMETProblemDecomposition.__init__") else None
    if init is None:
        cls = idx.cls(f"{DMET}::DMETProblemDecomposition")
        init = cls.methods.get("__post_init__") or cls.methods.get("__init__")
    # what the conversion puts on the molecule, and from which of its parameters
    mole_var = None
    given: Dict[str, set] = {}
    for n in own_nodes(conv.node):
        if isinstance(n, ast.Assign) and isinstance(n.value, ast.Call) and norm(n.value.func).endswith("Mole") and isinstance(n.targets[0], ast.Name):
            mole_var = n.targets[0].id
            for k in n.value.keywords:
                given[k.arg] = {x.id for x in ast.walk(k.value) if isinstance(x, ast.Name)}
    if mole_var is None:
        raise AnalysisError("mol_to_pyscf: construction of the pyscf molecule not found")
    for n in own_nodes(conv.node):
        if isinstance(n, ast.Assign) and isinstance(n.targets[0], ast.Attribute) and norm(n.targets[0].value) == mole_var:
            given[n.targets[0].attr] = {x.id for x in ast.walk(n.value) if isinstance(x, ast.Name)}
    # the call DMET makes: which parameters of the conversion receive a value
    calls = [c for c in ast.walk(init.node) if isinstance(c, ast.Call) and norm(c.func).endswith("mol_to_pyscf")]
    if len(calls) != 1:
        raise AnalysisError("DMET: call of mol_to_pyscf not found")
    params = conv.params
    passed = set(params[:len(calls[0].args)]) | {k.arg for k in calls[0].keywords}
    required = sorted(a for a, src in given.items() if src & passed)
    rep.floor("molecule data set by mol_to_pyscf from arguments DMET passes", len(required), 4)
    # what the rebuild sets
    new_var = None
    rebuilt = {}
    for n in ast.walk(init.node):
        if isinstance(n, ast.Assign) and isinstance(n.value, ast.Call) and (norm(n.value.func).endswith("Mole") or norm(n.value.func) in ("gto.M", "pyscf.gto.M", "M")) \
                and isinstance(n.targets[0], ast.Name):
            new_var = n.targets[0].id
            for k in n.value.keywords:
                if k.arg:
                    rebuilt[k.arg] = norm(k.value)
    if new_var is None:
        raise AnalysisError("DMET: molecule rebuilt for re-ordered atoms not found")
    for n in ast.walk(init.node):
        if isinstance(n, ast.Assign) and isinstance(n.targets[0], ast.Attribute) and norm(n.targets[0].value) == new_var:
            rebuilt[n.targets[0].attr] = norm(n.value)
    for a in required:
        ok = a in rebuilt and (a == "atom" or rebuilt[a] == f"self.molecule.{a}")
        rep.decide(ok, rule, init, init.node, text=f"re-ordered molecule: {a} carried over",
                   what="the molecule rebuilt for re-ordered atoms carries every datum the original conversion put on it (otherwise the same fragmentation "
                        "written with atom indices gives a different calculation than written with atom counts)",
                   reason=f"mol_to_pyscf sets `{a}` from its arguments, the rebuild {'sets it to ' + rebuilt[a] if a in rebuilt else 'does not set it'}")
    # the re-ordered geometry is the old geometry permuted by the flattened fragment lists, and the fragment sizes are the list lengths
    geo = [n for n in ast.walk(init.node) if isinstance(n, ast.Assign) and norm(n.targets[0]) == "new_geometry"]
    sizes = [n for n in ast.walk(init.node) if isinstance(n, ast.Assign) and norm(n.targets[0]) == "new_fragment_atoms"]
    flat = [n for n in ast.walk(init.node) if isinstance(n, ast.Assign) and norm(n.targets[0]) == "fragment_atoms_flatten"]
    if not (geo and sizes and flat):
        raise AnalysisError("DMET: re-ordering statements not found")

    class _Mol:
        _sa_model = True
        _atom = ["A0", "A1", "A2", "A3", "A4"]
    frs = [[3, 1], [0], [4, 2]]
    fo = Folder(env={"self.fragment_atoms": frs, "self.molecule": _Mol()})
    try:
        for st in (flat[0], sizes[0], geo[0]):
            fo.stmt(st)
    except (Undecidable, Raised) as e:
        raise AnalysisError(f"DMET re-ordering not foldable: {e}")
    ok = fo.env.get("new_geometry") == ["A3", "A1", "A0", "A4", "A2"] and fo.env.get("new_fragment_atoms") == [2, 1, 2]
    rep.decide(ok, rule, init, geo[0], text="fragments [[3, 1], [0], [4, 2]] -> atoms in the order 3, 1, 0, 4, 2 and sizes [2, 1, 2]",
               what="the atoms are permuted so that each fragment is contiguous, in the order given, and the fragment sizes are the lengths of the lists",
               reason=f"geometry {fo.env.get('new_geometry')}, sizes {fo.env.get('new_fragment_atoms')}")


DMETORB = "tangelo/problem_decomposition/dmet/_helpers/dmet_orbitals.py"


def check_dmet_electron_split(idx: Index, rep: Report):
    """the unrestricted DMET set-up splits the electrons of the whole molecule into alpha and beta counts; they fix the low-level density, the bath and
    the spin of every fragment.  The statements of _unrestricted_init that compute the two counts are folded for every electron number up to 10 and every
    admissible spin: n_alpha = (n + s) / 2, n_beta = (n - s) / 2."""
    from ..consteval import Folder
    rule = "K9.alpha-beta"
    f = idx.function(f"{DMETORB}::dmet_orbitals._unrestricted_init")
    body = f.node.body
    tgt = {"self.number_active_electrons_alpha": None, "self.number_active_electrons_beta": None}
    for i, st in enumerate(body):
        if isinstance(st, ast.Assign) and len(st.targets) == 1 and norm(st.targets[0]) in tgt:
            tgt[norm(st.targets[0])] = i
    if None in tgt.values():
        raise AnalysisError("dmet_orbitals._unrestricted_init: assignments of the alpha / beta electron counts not found")
    last = max(tgt.values())
    n_asg = [i for i, st in enumerate(body) if isinstance(st, ast.Assign) and norm(st.targets[0]) == "self.number_active_electrons"]
    if not n_asg or n_asg[0] > min(tgt.values()):
        raise AnalysisError("dmet_orbitals._unrestricted_init: the total electron number is not set before the split")
    bad = []
    n = 0
    for ne in range(1, 11):
        for s in range(ne % 2, ne + 1, 2):
            me = Rec("dmet_orbitals", {"number_active_electrons": ne, "mol_full": Rec("Mole", {"spin": s, "nelectron": ne}), "mf_full": Rec("SCF", {"mol": Rec("Mole", {"spin": s, "nelectron": ne})})})
            fo = Folder(env={"self": me})
            try:
                for st in body[n_asg[0] + 1:last + 1]:
                    fo.stmt(st)
            except (Undecidable, Raised) as e:
                raise AnalysisError(f"dmet_orbitals._unrestricted_init: electron split not foldable: {e}")
            got = (me.fields.get("number_active_electrons_alpha"), me.fields.get("number_active_electrons_beta"))
            n += 1
            if got != ((ne + s) // 2, (ne - s) // 2):
                bad.append(f"{ne} electrons, spin {s}: ({got[0]}, {got[1]}) instead of ({(ne + s) // 2}, {(ne - s) // 2})")
    rep.decide(not bad, rule, f, body[min(tgt.values())], text=f"unrestricted DMET: (n_alpha, n_beta) for {n} (electrons, spin) pairs",
               what="the alpha and beta electron numbers of the embedded molecule are (n + s)/2 and (n - s)/2 for its electron number n and spin s",
               reason="; ".join(bad[:3]))
