"""C06 Pauli-exponential and time-evolution circuits implement exp(-itH) (structural part).

C06.a K9  basis-change table of pauli_op_to_gate folded: the gate U applied before the ladder satisfies U^dagger Z U = P with the
          sign, and inverse=True yields U^dagger
C06.b K9  angle law of exp_pauliword_to_gates: on each branch, angle - 2*coef is an integer multiple of 4*pi (so RZ and the
          4*pi-periodic CRZ both implement exp(-i c Z) on the ladder's last qubit)
C06.c K9  exp_pauliword_to_gates folded for every Pauli word on two qubits and representative words on three (coefficient a
          symbol, positive and negative), without control, with one and with two controls: the product of the emitted gates
          (reference semantics of the documented gate set) equals exp(-i c P), respectively its controlled version, exactly
C06.d K9  identity-term rule: no control -> phase *= exp(-i c); with controls the whole generator is folded (repository Gate constructor
          included) for none / bare index / one-element list / two / three controls with and without qubit 0 among them: product of the
          emitted gates = controlled exp(-i (c0 + c1 Z)), no control choice refused
C06.e K9  Suzuki recursion folded with symbolic coefficients: order 1, order 2 = S1(t/2) S1_rev(t/2), order 4 =
          S2(p t)^2 S2((1-4p) t) S2(p t)^2 with p = 1/(4 - 4^(1/3))
C06.f K8  trotterize: per-step time is time/n_steps in every (operator kind x time kind) branch, the circuit is repeated
          n_steps times and the phase raised to that power
"""
from __future__ import annotations

import ast
import itertools
from typing import Dict, List, Optional

import sympy as sp

from ..consteval import Folder, FuncVal, Raised, Rec, Undecidable
from ..index import AnalysisError, FunctionInfo, Index, full, norm, own_nodes
from ..report import Report
from ..rules import circuitsem as cs
from .. import symx

AU = "tangelo/toolboxes/ansatz_generator/ansatz_utils.py"


def _folder(idx: Index, extra_env=None) -> Folder:
    from .C17 import CTORS
    ctors = dict(CTORS)
    ctors[("Gate", "inverse")] = cs.gate_inverse_ctor(idx)
    fo = Folder(env=dict(extra_env or {}), ctors=ctors, resolver=cs.module_resolver(idx, AU))
    fo.env["np.pi"] = sp.pi
    return fo


def run(idx: Index, rep: Report, tier: str):
    rep.explain("C06 structural part: the generator functions are folded (restricted partial evaluator, coefficient symbolic) into "
                "gate lists whose exact product under the documented gate semantics is compared with exp(-i c P) - all 2-qubit words "
                "and representative 3-qubit words, with 0/1/2 controls; the angle law, the identity-term rule, the Suzuki recursion and "
                "the time/step scaling of trotterize are decided symbolically.")
    rep.trust("CPython ast", "sa.consteval folding subset", "sympy exact matrix algebra / simplify", "reference gate semantics in sa/symx.py, sa/rules/circuitsem.py")
    rep.assume("the product-formula commutator error bound is numerical and is not decided", "fermionic input mapping is covered by C03, not here")
    check_basis_change(idx, rep)
    check_angle_law(idx, rep)
    check_exponential_circuits(idx, rep, tier)
    check_identity_term(idx, rep)
    check_time_dictionary(idx, rep)
    from .C03 import check_single_reordering
    check_single_reordering(idx, rep)            # fermionic input: the operator handed to each encoder (any spelling of the encoding name)
    check_suzuki(idx, rep)
    check_trotterize(idx, rep)


def check_basis_change(idx: Index, rep: Report):
    rule = "K9.basis-change"
    f = idx.function(f"{AU}::pauli_op_to_gate")
    for p in ("X", "Y"):
        us = {}
        for inv in (False, True):
            fo = _folder(idx)
            try:
                g = fo.run_function(f.node, {"index": 1, "op": p, "inverse": inv})
            except (Undecidable, Raised) as e:
                raise AnalysisError(f"pauli_op_to_gate not foldable: {e}")
            if not isinstance(g, Rec):
                rep.violation(rule, f, f.node, text=f"basis change for {p}", what=f"{p} has a basis-change gate", reason=f"returns {g!r}")
                continue
            ok_q = g.fields["target"] in (1, [1]) and g.fields["control"] is None
            us[inv] = (symx.gate_matrix(g.fields["name"], sp.nsimplify(g.fields["parameter"]) if g.fields["parameter"] != "" else None), ok_q, g)
        if len(us) != 2:
            continue
        u, okq, g = us[False]
        lhs = sp.simplify(u.H * symx.Z * u)
        rep.decide(symx.matrix_equal(lhs, symx.PAULI[p]) and okq, rule, f, f.node, text=f"{p}: U = {g.fields['name']}({g.fields['parameter']}), U^dagger Z U = {p}",
                   what=f"the gate applied before the CNOT ladder maps Z onto {p} (with the sign), on the word's own qubit", reason=f"U^dagger Z U = {lhs.tolist()}")
        ui, okqi, gi = us[True]
        rep.decide(symx.matrix_equal(sp.simplify(ui * u), sp.eye(2)) and okqi, rule, f, f.node, text=f"{p}: inverse=True gives U^dagger",
                   what="the gate applied after the ladder undoes the basis change exactly", reason=f"U_inv * U = {sp.simplify(ui * u).tolist()}")


def check_angle_law(idx: Index, rep: Report):
    rule = "K9.angle-law"
    f = idx.function(f"{AU}::exp_pauliword_to_gates")
    asg = [n for n in own_nodes(f.node) if isinstance(n, ast.Assign) and norm(n.targets[0]) == "angle"]
    if len(asg) != 1:
        raise AnalysisError("exp_pauliword_to_gates: single `angle = ...` assignment expected")
    c = sp.Symbol("coef", real=True)
    try:
        ex = symx.to_sympy(asg[0].value, {"coef": c})
    except symx.Untranslatable as e:
        raise AnalysisError(f"angle expression not translatable: {e}")
    pieces = [(ex, True)] if not isinstance(ex, sp.Piecewise) else list(ex.args)
    for val, cond in pieces:
        k = sp.simplify((val - 2 * c) / (4 * sp.pi))
        ok = k.is_integer is True
        rep.decide(ok, rule, f, asg[0], text=f"angle = {val} when {cond}", what="the rotation angle equals 2*coef up to a multiple of 4*pi (exact for RZ and for CRZ)",
                   reason=f"(angle - 2*coef)/(4*pi) = {k}: the {'controlled ' if True else ''}rotation is not exp(-i coef Z) on this branch")
    uses = [n for n in own_nodes(f.node) if isinstance(n, ast.Call) and norm(n.func) == "Gate" and n.args and isinstance(n.args[0], ast.Constant) and n.args[0].value in ("RZ", "CRZ")]
    for u in uses:
        kws = {k.arg: norm(k.value) for k in u.keywords}
        rep.decide(kws.get("parameter") == "angle" and kws.get("target") == "indices[-1]", rule, f, u, text=f"{u.args[0].value}(angle) on the last ladder qubit",
                   what="the Z rotation acts on the qubit that holds the parity after the CNOT ladder", reason=f"{u.args[0].value} built with {kws}")


def _fold_word(idx: Index, word, coef, control):
    f = idx.function(f"{AU}::exp_pauliword_to_gates")
    fo = _folder(idx)
    try:
        return fo.run_function(f.node, {"pauli_word": word, "coef": coef, "variational": True, "control": control})
    except (Undecidable, Raised) as e:
        raise AnalysisError(f"exp_pauliword_to_gates not foldable for {word}, control={control}: {e}")


def check_exponential_circuits(idx: Index, rep: Report, tier: str):
    rule = "K9.exp-pauliword"
    f = idx.function(f"{AU}::exp_pauliword_to_gates")
    cpos, cneg = sp.Symbol("c", positive=True), sp.Symbol("c", negative=True)
    words2 = [tuple((i, p) for i, p in enumerate(w) if p != "I") for w in itertools.product("IXYZ", repeat=2)]
    words2 = [w for w in words2 if w]
    words3 = [((0, "X"), (1, "Y"), (2, "Z")), ((0, "Z"), (2, "X")), ((2, "Y"), (0, "Y")), ((0, "Z"), (1, "Z"), (2, "Z"))]
    cases = [(w, 2, None) for w in words2] + [(w, 3, None) for w in words3]
    cases += [(w, 2, 2) for w in words2[:9:2]] + [(((0, "X"), (1, "Y")), 2, [2, 3]), (((0, "Z"),), 1, [1, 2]), (((1, "Y"), (0, "X")), 2, 2)]
    if tier == "quick":
        cases = cases[:15:2] + cases[15:19] + cases[-4:]
    n = 0
    for word, nq, control in cases:
        for c in (cpos, cneg):
            gates = _fold_word(idx, word, c, control)
            ctl = [] if control is None else ([control] if isinstance(control, int) else list(control))
            ntot = nq + len(ctl)
            try:
                u = cs.circuit_unitary(gates, ntot)
            except AnalysisError as e:
                raise
            p = cs.embed_pauli_word(dict(word), ntot)
            target = sp.cos(c) * sp.eye(2 ** ntot) - sp.I * sp.sin(c) * p
            if ctl:
                pc = sp.eye(2 ** ntot)
                for q in ctl:
                    pc = pc * cs.embed1(cs.P1, q, ntot)
                target = sp.eye(2 ** ntot) + pc * (target - sp.eye(2 ** ntot))
            ok = cs.mat_equal(u, target)
            n += 1
            label = f"exp(-i c {' '.join(p_ + str(i) for i, p_ in word)}), c {'> 0' if c is cpos else '< 0'}, control={control}"
            rep.decide(ok, rule, f, f.node, text=label,
                       what="the emitted gate sequence multiplies to exp(-i c P) exactly (to its controlled version when a control is given)",
                       reason=f"product of the {len(gates)} emitted gates differs from the exponential: {[ (g.fields['name'], g.fields['target'], g.fields['control']) for g in gates][:6]}")
            # the rotation carries the variational flag, nothing else does
            flags = [g.fields["name"] for g in gates if g.fields["is_variational"]]
            rep.decide(flags in (["RZ"], ["CRZ"]), rule, f, f.node, text=label + " : one variational gate",
                       what="exactly the (controlled) Z rotation is marked variational", reason=f"variational gates: {flags}")
    rep.floor("exponential circuits verified", n, 30 if tier == "quick" else 50)


def check_identity_term(idx: Index, rep: Report):
    rule = "K9.identity-term"
    f = idx.function(f"{AU}::get_exponentiated_qubit_operator_circuit")
    loops = [n for n in own_nodes(f.node) if isinstance(n, ast.For) and norm(n.iter) == "timed_pauli_words"]
    if not loops:
        raise AnalysisError("get_exponentiated_qubit_operator_circuit: term loop not found")
    top = [s for s in loops[0].body if isinstance(s, ast.If) and norm(s.test) == "pauli_word"]
    if not top or not top[0].orelse:
        raise AnalysisError("identity-term branch not found")
    check_operator_circuit(idx, rep)
    # a non-identity term is skipped only when its coefficient is (numerically) zero: multiples of pi are NOT skippable, exp(-i k pi P) = (-1)^k
    guards = [n for n in ast.walk(top[0]) if isinstance(n, ast.If) and any("exp_pauliword_to_gates" in norm(x) for x in n.body) and "coef" in norm(n.test)]
    if guards:
        import math
        from ..consteval import Folder as _F
        bad = []
        for cval, want in ((0.0, False), (1e-13, False), (1e-3, True), (-1e-3, True), (math.pi, True), (-2 * math.pi, True), (0.5 * math.pi, True)):
            fo = _F(env={"coef": cval, "variational": False})
            try:
                got = fo.truth(fo.expr(guards[0].test), guards[0].test)
            except (Undecidable, Raised) as e:
                raise AnalysisError(f"skip predicate {norm(guards[0].test)} not foldable: {e}")
            if bool(got) != want:
                bad.append(f"coef={cval:.4g}: emitted={bool(got)}, expected {want}")
        rep.decide(not bad, rule, f, guards[0], text=f"emit iff variational or |coef| > threshold ({norm(guards[0].test)[:60]})",
                   what="a term is dropped only when its coefficient is numerically zero (coefficients that are multiples of pi still contribute a sign / a controlled phase)",
                   reason="; ".join(bad[:3]))
    # non-identity terms go through exp_pauliword_to_gates with the same control and the real coefficient
    calls = [n for n in ast.walk(top[0]) if isinstance(n, ast.Call) and norm(n.func) == "exp_pauliword_to_gates"]
    ok = len(calls) == 1 and norm(calls[0].args[0]) == "pauli_word" and norm(calls[0].args[1]) == "np.real(coef)" and \
        {k.arg: norm(k.value) for k in calls[0].keywords} == {"variational": "variational", "control": "control"}
    rep.decide(ok, rule, f, calls[0] if calls else top[0], text="non-identity terms: exp_pauliword_to_gates(word, Re coef, variational, control)",
               what="every non-identity term is exponentiated with its own coefficient under the requested control", reason=f"call {norm(calls[0]) if calls else '?'}")


class _OpCirc:
    _sa_model = True

    def __init__(self, gates=None, **_kw):
        self._gates = list(gates or [])


def check_operator_circuit(idx: Index, rep: Report):
    """the whole generator folded (with the repository's own Gate constructor, so that its refusals are part of the fold) for an operator with an
    identity term and a Z term that commute, every shape of control - none, a bare index, a one-element list, two and three controls, qubit 0
    among the controls or not -: the product of the emitted gates is exp(-i (c0 + c1 Z)) when all controls are 1 and the identity otherwise"""
    import math
    import numpy as np
    from ..rules import numsem
    rule = "K9.identity-term"
    f = idx.function(f"{AU}::get_exponentiated_qubit_operator_circuit")
    n = 0
    shapes = ((1, None), (1, 0), (1, [0]), (0, 2), (1, 3), (1, [0, 2]), (0, [1, 2]), (1, [2, 3]), (2, [3, 0, 1]), (0, [3, 1, 2]))
    # coefficients: generic ones for every control shape; then angles at which exp(-i c Z) is a multiple of the identity (-1 for odd multiples of pi: a global
    # phase without control, a relative phase under control - such a term may not be skipped) or numerically nothing at all, for three control shapes
    cases = [(0.3, 0.2, zq, ctl) for zq, ctl in shapes]
    cases += [(c0_, c1_, zq, ctl) for c0_, c1_ in ((0.3, math.pi), (0.25, -3 * math.pi), (0.1, 2 * math.pi), (0.2, 1e-13)) for zq, ctl in ((1, None), (1, 0), (1, [0, 2]))]
    for c0, c1, zq, ctl in cases:
        for variational in (False, True):
            fo = cs.make_folder(idx, AU, ctors={"Gate": None, "Circuit": lambda a, k: _OpCirc(*a, **k)})
            fo.env["np.pi"] = math.pi
            op = Rec("QubitOperator", {"terms": {(): c0, ((zq, "Z"),): c1}})
            label = f"exp(-i ({c0:g} + {c1:g} Z{zq})), control={ctl}, variational={variational}"
            try:
                circ, phase = fo.run_function(f.node, {"qubit_op": op, "time": 1., "variational": variational, "trotter_order": 1, "control": ctl,
                                                       "return_phase": True, "pauli_order": None})
            except Raised as e:
                rep.violation(rule, f, f.node, text=label, what="an operator with an identity term is exponentiated under every choice of control qubits",
                              reason=f"the generator refuses this control choice ({e})")
                n += 1
                continue
            except Undecidable as e:
                raise AnalysisError(f"get_exponentiated_qubit_operator_circuit not foldable for control={ctl}: {e}")
            cl = [] if ctl is None else ([ctl] if isinstance(ctl, int) else list(ctl))
            used = {q for g in circ._gates for q in list(g.fields["target"]) + list(g.fields["control"] or [])}
            allowed = set(cl) | {zq}
            ntot = max(allowed | used) + 1
            u = numsem.circuit_unitary(circ._gates, ntot) * complex(phase)
            z = np.diag([math.e ** (-1j * (c0 + c1 * (1 - 2 * ((s_ >> (ntot - 1 - zq)) & 1)))) for s_ in range(2 ** ntot)])
            want = np.eye(2 ** ntot, dtype=complex)
            for s_ in range(2 ** ntot):
                if all((s_ >> (ntot - 1 - q)) & 1 for q in cl):
                    want[s_, s_] = z[s_, s_]
            d = float(np.max(np.abs(u - want)))
            n += 1
            rep.decide(d < 1e-9, rule, f, f.node, text=label + f": {len(circ._gates)} gates on qubits {sorted(used)}",
                       what="the emitted gates (times the returned phase) multiply to exp(-i (c0 + c1 Z)) when every control is 1 and to the identity otherwise",
                       reason=f"deviation {d:.3g} from the controlled exponential")
            if not used <= allowed:
                rep.info(rule, f, f.node, text=label + " : bystander qubits", what="only operator and control qubits need to be touched",
                         reason=f"gates also act (as the identity) on {sorted(used - allowed)}")
            if ctl is not None:
                flags = sorted(g.fields["name"] for g in circ._gates if g.fields["is_variational"])
                rep.decide(bool(flags) == variational, rule, f, f.node, text=label + " : variational flags", what="gates are variational exactly when requested",
                           reason=f"variational gates {flags}")
    rep.floor("operator circuits folded (identity term, control shapes)", n, 20)


def check_suzuki(idx: Index, rep: Report):
    rule = "K9.suzuki"
    f = idx.function(f"{AU}::recursive_trotter_suzuki_decomposition")
    a, b, t = sp.symbols("a b t", real=True)
    words = [("A", a), ("B", b)]

    def fold(order, time):
        fo = _folder(idx)
        try:
            return fo.run_function(f.node, {"pauli_words": list(words), "order": order, "time": time})
        except (Undecidable, Raised) as e:
            raise AnalysisError(f"Suzuki recursion not foldable at order {order}: {e}")

    def same(x, y):
        return len(x) == len(y) and all(p == q and sp.simplify(u - v) == 0 for (p, u), (q, v) in zip(x, y))
    s1 = fold(1, t)
    rep.decide(same(s1, [("A", a * t), ("B", b * t)]), rule, f, f.node, text="order 1: each term once with coefficient * time",
               what="the first-order formula applies every term once for the full time", reason=f"order 1 gives {s1}")
    s2 = fold(2, t)
    want2 = [("A", a * t / 2), ("B", b * t / 2), ("B", b * t / 2), ("A", a * t / 2)]
    rep.decide(same(s2, want2), rule, f, f.node, text="order 2: S1(t/2) followed by reversed S1(t/2)", what="the second-order formula is the symmetric product of two half steps",
               reason=f"order 2 gives {s2}")
    s4 = fold(4, t)
    p = 1 / (4 - sp.Integer(4) ** sp.Rational(1, 3))

    def s2_of(tt):
        return [("A", a * tt / 2), ("B", b * tt / 2), ("B", b * tt / 2), ("A", a * tt / 2)]
    want4 = s2_of(p * t) + s2_of(p * t) + s2_of((1 - 4 * p) * t) + s2_of(p * t) + s2_of(p * t)
    rep.decide(same(s4, want4), rule, f, f.node, text="order 4: S2(pt)^2 S2((1-4p)t) S2(pt)^2, p = 1/(4 - 4^(1/3))",
               what="the fourth-order formula is Suzuki's recursion built on the second-order one", reason=f"order 4 gives {len(s4)} factors, first {s4[:2]}")
    total = sp.simplify(sum(v for k, v in s4 if k == "A") - a * t)
    rep.decide(total == 0, rule, f, f.node, text="order 4: coefficients of each term sum to coefficient * time", what="every term is applied for the full time in total",
               reason=f"sum of A coefficients - a t = {total}")
    # higher even orders: S_2k(t) = S_2k-2(p t)^2 S_2k-2((1 - 4p) t) S_2k-2(p t)^2 with p = 1 / (4 - 4^(1/(2k-1))), compared numerically factor by factor
    def ref(order, tt):
        if order == 2:
            return s2_of(tt)
        pk = 1 / (4 - 4 ** (1 / (order - 1)))
        return ref(order - 2, pk * tt) * 2 + ref(order - 2, (1 - 4 * pk) * tt) + ref(order - 2, pk * tt) * 2
    for order in (6, 8):
        got = fold(order, t)
        want = ref(order, t)
        okk = len(got) == len(want)
        if okk:
            for (k1, v1), (k2, v2) in zip(got, want):
                c1 = complex(sp.N(sp.sympify(v1).subs({a: 0.7, b: -1.3, t: 0.9})))
                c2 = complex(sp.N(sp.sympify(v2).subs({a: 0.7, b: -1.3, t: 0.9})))
                if k1 != k2 or abs(c1 - c2) > 1e-12:
                    okk = False
                    break
        rep.decide(okk, rule, f, f.node, text=f"order {order}: Suzuki's recursion on order {order - 2} with p = 1/(4 - 4^(1/{order - 1}))",
                   what="every even order is built from the previous one with the time fraction that cancels its leading error term",
                   reason=f"order {order} gives {len(got)} factors (expected {len(want)}); time fractions differ from Suzuki's p_k = 1/(4 - 4^(1/(order-1)))")
    g = idx.function(f"{AU}::get_exponentiated_qubit_operator_circuit")
    from ..rules.guards import decide_refusals
    from ..consteval import Opaque
    base = {"qubit_op": Opaque("qubit_op"), "time": 1.0, "variational": False, "control": None, "return_phase": False, "pauli_order": None}
    decide_refusals(idx, rep, rule, g, [(f"trotter_order={k}", dict(base, trotter_order=k), k > 1 and k % 2 == 1) for k in range(1, 9)],
                    what="order 1 and even orders are accepted, odd orders above one are refused")


def check_trotterize(idx: Index, rep: Report):
    """trotterize folded as a whole, for qubit and for fermionic operators (the exponentiating generator and the encoder replaced by recorders).  The evolution
    depends on coefficient x time only, so what reaches the generator - operator and time taken together - is coefficient x time / n_steps for EVERY term of
    the input, however small the coefficient is by itself (an operator in small units evolved for a long time; one weak term next to strong ones); scalar
    time and per-term times; the step circuit is repeated n_steps times and its phase raised to that power; order, control and the variational flag reach
    the generator as given.  Decided on what is computed, not on how the statements are laid out or what the locals are called."""
    rule = "K8.trotterize-scaling"
    f = idx.function(f"{AU}::trotterize")
    PH = sp.Symbol("phase_of_one_step")

    class _QOp:
        """qubit operator stand-in with openfermion's compress()"""
        _sa_model = True

        def __init__(self, terms=None):
            self.terms = dict(terms or {})

        def compress(self, abs_tol=1e-8):
            self.terms = {k: v for k, v in self.terms.items() if abs(v) > abs_tol}

        def __deepcopy__(self, memo):
            return _QOp(self.terms)

    class _FOp:
        """fermionic operator stand-in: FermionOperator(), FermionOperator(term, coefficient), +="""
        _sa_model = True

        def __init__(self, term=None, coefficient=1.):
            self.terms = {} if term is None else {tuple(term): coefficient}

        def __iadd__(self, o):
            for k, v in o.terms.items():
                self.terms[k] = self.terms.get(k, 0) + v
            return self

        def __add__(self, o):
            return self.__deepcopy__({}).__iadd__(o)

        def __deepcopy__(self, memo):
            r = _FOp()
            r.terms = dict(self.terms)
            return r

    class _StepCircuit:
        _sa_model = True

        def __init__(self, reps=1):
            self.reps = reps

        def __mul__(self, n):
            return _StepCircuit(self.reps * n)
        __rmul__ = __mul__
    seen, mapped = [], []

    def recorder(a, k):
        names = ["qubit_op", "time", "variational", "trotter_order", "control", "return_phase", "pauli_order"]
        kw = dict(zip(names, a))
        kw.update(k)
        seen.append(kw)
        return (_StepCircuit(), PH) if kw.get("return_phase") else _StepCircuit()

    def encoder(a, k):
        op = k.get("fermion_operator", a[0] if a else None)
        mapped.append(dict(k))
        return _QOp(op.terms)

    def hook(v, t):
        if "Qubit" in t:
            return isinstance(v, _QOp)
        if "Fermion" in t:
            return isinstance(v, _FOp)
        return None
    wz, wx, wy = ((0, "Z"),), ((1, "X"),), ((0, "Y"), (1, "Y"))
    fa, fb = ((0, 1), (0, 0)), ((1, 1), (0, 0))
    cases = [("qubit operator, coefficients of order one", _QOp, {wz: 0.25, wx: -0.5}, 0.8, 2, 1, None, False),
             ("qubit operator in small units evolved for a long time", _QOp, {wz: 4e-9, wx: -2e-9}, 1e8, 4, 2, 3, False),
             ("qubit operator, one weak term next to strong ones", _QOp, {wz: 0.7, wx: 3e-9, wy: 0.2}, 5e7, 1, 1, [2, 3], True),
             ("qubit operator, per-term times", _QOp, {wz: 4e-9, wx: 0.5}, {wz: 1e8, wx: 0.4}, 2, 2, None, False),
             ("fermionic operator, scalar time", _FOp, {fa: 0.25, fb: -0.5}, 0.8, 3, 1, 2, False),
             ("fermionic operator, per-term times", _FOp, {fa: 0.25, fb: -0.5}, {fa: 0.8, fb: 0.3}, 2, 2, None, True)]
    n = 0
    for label, kind, terms, time, steps, order, control, variational in cases:
        del seen[:]
        del mapped[:]
        op = kind()
        op.terms = dict(terms)
        for return_phase in (True, False):
            del seen[:]
            fo = cs.make_folder(idx, AU, ctors={"get_exponentiated_qubit_operator_circuit": recorder, "fermion_to_qubit_mapping": encoder,
                                                "FermionOperator": lambda a, k: _FOp(*a, **k)})
            fo.isinstance_hook = hook
            try:
                out = fo.run_function(f.node, {"operator": op, "time": time, "n_trotter_steps": steps, "trotter_order": order, "variational": variational,
                                               "mapping_options": dict(), "control": control, "return_phase": return_phase})
            except Undecidable as e:
                raise AnalysisError(f"trotterize not foldable ({label}): {e}")
            except Raised as e:
                n += 1
                rep.violation(rule, f, f.node, text=f"trotterize, {label}", what="an operator with a time is trotterized", reason=f"raises {e.exc_type}")
                break
            if len(seen) != 1 or not isinstance(seen[0].get("qubit_op"), _QOp):
                raise AnalysisError(f"trotterize ({label}): the call of the exponentiating generator was not recorded ({len(seen)} calls)")
            got_op, got_t = seen[0]["qubit_op"].terms, seen[0]["time"]
            bad = []
            for w, c in terms.items():
                want = c * (time[w] if isinstance(time, dict) else time) / steps
                tw = got_t.get(w) if isinstance(got_t, dict) else got_t
                have = None if w not in got_op or tw is None else got_op[w] * tw
                if have is None or abs(have - want) > 1e-9 * max(1.0, abs(want)):
                    bad.append(f"term {w}: coefficient x time reaching the generator is {have}, expected {want:g}")
            if set(got_op) != set(terms):
                bad.append(f"terms reaching the generator: {sorted(got_op)}")
            circ, ph = (out if return_phase else (out, None))
            if not isinstance(circ, _StepCircuit) or circ.reps != steps or (return_phase and sp.simplify(sp.sympify(ph) - PH ** steps) != 0):
                bad.append(f"returns the step circuit x {getattr(circ, 'reps', '?')} with phase {ph}; expected x {steps} and (phase of one step) ** {steps}")
            if (seen[0].get("trotter_order"), seen[0].get("control"), seen[0].get("variational")) != (order, control, variational) or not seen[0].get("return_phase"):
                bad.append(f"the generator receives order / control / variational = {seen[0].get('trotter_order')} / {seen[0].get('control')} / {seen[0].get('variational')}, "
                           f"given {order} / {control} / {variational}")
            n += 1
            rep.decide(not bad, rule, f, f.node, text=f"trotterize, {label}: {len(terms)} terms, {steps} step(s), order {order}, control {control}, return_phase={return_phase}",
                       what="every term reaches the exponentiating generator with coefficient x time / n_steps (no term is dropped because its coefficient alone is small); the "
                            "step is repeated n_steps times, its phase raised to that power; order, control and the variational flag are handed on",
                       reason="; ".join(bad[:2]))
    rep.floor("trotterize folds", n, 10)


def check_time_dictionary(idx: Index, rep: Report):
    """The per-term time dictionary and the scalar time are two routes through get_exponentiated_qubit_operator_circuit: with equal times for all terms the
    dictionary route must emit the very sequence of (word, angle) exponentials the scalar route emits - for every Trotter order -, and with different times it
    must emit what the scalar route emits at time 1 for the operator whose coefficients are pre-multiplied by their times."""
    rule = "K8.time-dictionary"
    f = idx.function(f"{AU}::get_exponentiated_qubit_operator_circuit")
    wa, wb, wc = ((0, "X"),), ((0, "Z"), (1, "Z")), ((1, "Y"),)

    def emitted(terms, time, order):
        seq = []
        fo = cs.make_folder(idx, AU, ctors={"exp_pauliword_to_gates": lambda a, k: (seq.append((a[0], round(float(a[1]), 12))), [])[1], "Circuit": lambda a, k: _OpCirc(*a, **k)})
        op = Rec("QubitOperator", {"terms": dict(terms)})
        try:
            fo.run_function(f.node, {"qubit_op": op, "time": time, "variational": False, "trotter_order": order, "control": None, "return_phase": False, "pauli_order": None})
        except Undecidable as e:
            raise AnalysisError(f"get_exponentiated_qubit_operator_circuit not foldable (time={time!r}, order={order}): {e}")
        return seq
    terms = {wa: 0.3, wb: -0.7, wc: 0.45}
    n = 0
    for order in (1, 2, 4):
        try:
            s_scalar = emitted(terms, 0.8, order)
            s_dict = emitted(terms, {wa: 0.8, wb: 0.8, wc: 0.8}, order)
            times = {wa: 0.5, wb: -1.25, wc: 2.0}
            s_mixed = emitted(terms, dict(times), order)
            s_ref = emitted({w: c * times[w] for w, c in terms.items()}, 1., order)
        except Raised as e:
            rep.violation(rule, f, f.node, text=f"Trotter order {order}: time dictionary", what="a per-term time dictionary is accepted for every supported order", reason=f"raises {e.exc_type}")
            continue
        n += 2
        rep.decide(s_dict == s_scalar and len(s_scalar) > 0, rule, f, f.node, text=f"Trotter order {order}: equal per-term times give the scalar-time sequence ({len(s_scalar)} exponentials)",
                   what="the time-dictionary route applies the same product formula as the scalar route",
                   reason=f"dictionary route emits {len(s_dict)} exponentials {s_dict[:3]}..., scalar route {len(s_scalar)}: {s_scalar[:3]}...")
        rep.decide(s_mixed == s_ref and len(s_ref) > 0, rule, f, f.node, text=f"Trotter order {order}: different per-term times = scalar time 1 on the operator with pre-multiplied coefficients",
                   what="each term evolves for its own time, inside the same product formula", reason=f"dictionary route emits {s_mixed[:3]}..., expected {s_ref[:3]}...")
    rep.floor("time-dictionary comparisons", n, 6)
