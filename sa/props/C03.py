"""C03 Fermion-to-qubit encodings are faithful representations (thin structural part).

C03.a K3  dispatch of fermion_to_qubit_mapping: every advertised mapping has a branch that binds the result (no member can fall
          through to an unbound value); the mapping name is case-normalised in every comparison; the register size handed to
          each encoder is the caller's n_spinorbitals; the result is re-wrapped with a copy of the terms
C03.b K8/K9 the alpha-electron formula used for the symmetry-conserving parity factor equals (n+s)/2 (shared with C05.a)
C03.c K8  qubits substituted and pruned by the symmetry-conserving encoder agree with each other and with the state encoder (C05.b)
C03.d K8  the three implementations of the up-then-down permutation agree (C12.c); the re-ordering is applied exactly once
C03.e K12 informational: `mapping.upper in {...}` compares a method object (guard dead)
"""
from __future__ import annotations

import ast

import sympy as sp

from ..index import AnalysisError, Index, const_str_set, full, norm, own_nodes
from ..report import Report
from . import C05, C12
from .. import symx

MT = "tangelo/toolboxes/qubit_mappings/mapping_transform.py"
SCBK = "tangelo/toolboxes/qubit_mappings/symmetry_conserving_bravyi_kitaev.py"


def run(idx: Index, rep: Report, tier: str):
    rep.explain("C03 thin structural part: exhaustiveness and case handling of the encoder dispatch, provenance of the register size given to "
                "each encoder, the parity-sector formula and qubit bookkeeping of the symmetry-conserving encoder, agreement of the spin "
                "re-ordering implementations.")
    rep.trust("CPython ast", "sympy integer/floor simplification")
    rep.assume("linearity, canonical anticommutation relations and spectra of the encodings are algebraic facts about runtime operator values "
               "and third-party transforms (openfermion) and are not decided")
    check_dispatch(idx, rep)
    rule = "K9.alpha-beta"
    clones = [(f, st) for f, st in C05.find_alpha_clones(idx) if f.module.relpath == SCBK]
    rep.floor("scBK alpha formula", len(clones), 1)
    for f, st in clones:
        C05.decide_alpha_formula(rep, rule, f, st)
    C05.check_deleted_qubits(idx, rep)
    C12.check_reordering(idx, rep)
    check_single_reordering(idx, rep)


def check_dispatch(idx: Index, rep: Report):
    rule = "K3.mapping-dispatch"
    m = idx.module_by_relpath(MT)
    adv = const_str_set(m.assigned["available_mappings"]) if "available_mappings" in m.assigned else None
    if adv is None:
        raise AnalysisError("mapping_transform.available_mappings is not a literal set")
    f = idx.function(f"{MT}::fermion_to_qubit_mapping")
    binds = {}
    for n in ast.walk(f.node):
        if isinstance(n, ast.If) and isinstance(n.test, ast.Compare) and isinstance(n.test.ops[0], ast.Eq) and isinstance(n.test.comparators[0], ast.Constant) \
                and norm(n.test.left) in ("mapping.upper()", "mapping"):
            name = n.test.comparators[0].value
            bound = any(isinstance(s, ast.Assign) and norm(s.targets[0]) == "qubit_operator" for s in n.body)
            binds[name] = (bound, norm(n.test.left), n)
    for k in sorted(adv):
        ok = k in binds and binds[k][0]
        rep.decide(ok, rule, f, binds[k][2] if k in binds else f.node, text=f"mapping {k} dispatched and bound", what="every advertised mapping produces a qubit operator",
                   reason=f"{k} is advertised but no branch binds the result: UnboundLocalError instead of an operator")
    for k, (b, subj, node) in sorted(binds.items()):
        rep.decide(subj == "mapping.upper()", rule, f, node, text=f"comparison for {k} uses mapping.upper()", what="mapping names are case-insensitive", reason=f"compares {subj}")
        if k not in adv:
            rep.info(rule, f, node, text=f"branch {k} not advertised", reason="unreachable behind the membership guard")
    from ..rules.guards import decide_refusals
    from ..consteval import Opaque
    base = {"fermion_operator": Opaque("fermion_operator"), "n_spinorbitals": 4, "n_electrons": 2, "up_then_down": False, "spin": 0}
    cases = []
    for k in sorted(adv):
        for sp_ in sorted({k.lower(), k.upper(), k.capitalize()}):
            cases.append((f"mapping '{sp_}'", dict(base, mapping=sp_), False))
    cases.append(("mapping 'XYZ'", dict(base, mapping="XYZ"), True))
    cases.append(("mapping '' (empty)", dict(base, mapping=""), True))
    decide_refusals(idx, rep, rule, f, cases, what="every advertised mapping name is accepted in any letter case, anything else is an error",
                    may_skip=("mapping.upper in",))     # a guard on the bound method object (never true); reported below for information
    # register size provenance
    want = {"bravyi_kitaev": {"n_qubits": "n_spinorbitals"}, "jkmn": {"n_qubits": "n_spinorbitals"},
            "symmetry_conserving_bravyi_kitaev": {"fermion_operator": "fermion_operator", "n_spinorbitals": "n_spinorbitals", "n_electrons": "n_electrons",
                                                  "up_then_down": "up_then_down", "spin": "spin"}}
    for c in own_nodes(f.node):
        if isinstance(c, ast.Call) and isinstance(c.func, ast.Name) and c.func.id in want:
            kws = {k.arg: norm(k.value) for k in c.keywords}
            rep.decide(kws == want[c.func.id] and (c.func.id == "symmetry_conserving_bravyi_kitaev" or norm(c.args[0]) == "fermion_operator"), rule, f, c,
                       text=f"{c.func.id}({', '.join(f'{k}={v}' for k, v in kws.items())})",
                       what="each encoder receives the caller's register size / sector data, so operators that do not touch the highest orbital are encoded on the full register",
                       reason=f"called with {kws}")
    rets = [n for n in own_nodes(f.node) if isinstance(n, ast.Assign) and norm(n.targets[0]) == "converted_qubit_op.terms"]
    rep.decide(bool(rets) and norm(rets[0].value) == "qubit_operator.terms.copy()", rule, f, rets[0] if rets else f.node, text="result re-wrapped with a copy of the terms",
               what="the returned operator does not alias the encoder's internal dictionary", reason="terms not copied")
    # scBK needs the electron number
    decide_refusals(idx, rep, rule, f, [("scBK without n_electrons", dict(base, mapping="scbk", n_electrons=None), True),
                                         ("up_then_down without n_spinorbitals", dict(base, mapping="jw", up_then_down=True, n_spinorbitals=None), True)],
                    what="the symmetry-conserving encoding needs the electron number; re-ordering needs the register size", may_skip=("mapping.upper in",))
    # dead guard (informational)
    for n in own_nodes(f.node):
        if isinstance(n, ast.Compare) and isinstance(n.left, ast.Attribute) and n.left.attr == "upper" and isinstance(n.ops[0], ast.In):
            rep.info("K12.method-as-value", f, n, text=norm(n), reason="compares the bound method `mapping.upper` (not its result) with a set of names: the guard can never fire; "
                     "the downstream encoders still refuse a missing register size")
    # get_qubit_number agrees with the encoders
    g = idx.function(f"{MT}::get_qubit_number")
    n_ = sp.Symbol("n_spinorbitals", integer=True, positive=True)
    table = {}
    for n in ast.walk(g.node):
        if isinstance(n, ast.If) and isinstance(n.test, ast.Compare) and isinstance(n.test.comparators[0], ast.Constant):
            r = [s for s in n.body if isinstance(s, ast.Return)]
            if r:
                table[n.test.comparators[0].value] = norm(r[0].value)
    rep.decide(table.get("SCBK") == "n_spinorbitals - 2" and table.get("HCB") == "ceil(n_spinorbitals / 2)", rule, g, g.node, text=f"qubit numbers {table}",
               what="scBK uses two qubits fewer (the two pruned ones), hard-core bosons one qubit per spatial orbital", reason=f"table {table}")


def check_single_reordering(idx: Index, rep: Report):
    rule = "K8.spin-ordering"
    f = idx.function(f"{MT}::fermion_to_qubit_mapping")
    calls = [c for c in own_nodes(f.node) if isinstance(c, ast.Call) and norm(c.func) == "make_up_then_down"]
    ok = len(calls) == 1
    guard = None
    for n in own_nodes(f.node):
        if isinstance(n, ast.If) and norm(n.test) == "up_then_down" and any(c in list(ast.walk(n)) for c in calls):
            guard = n
    rep.decide(ok and guard is not None, rule, f, calls[0] if calls else f.node, text="re-ordering applied once, iff up_then_down",
               what="the operator is re-indexed exactly once when the all-up-then-all-down ordering is requested", reason="re-ordering applied unconditionally / more than once / never")
    s = idx.function(f"{SCBK}::symmetry_conserving_bravyi_kitaev")
    ro = [n for n in own_nodes(s.node) if isinstance(n, ast.If) and norm(n.test) == "not up_then_down" and "reorder(fermion_operator, up_then_down_order" in full(n)]
    rep.decide(bool(ro), rule, s, ro[0] if ro else s.node, text="scBK re-orders only when the input is still interleaved",
               what="the symmetry-conserving encoder needs all-up-then-all-down and re-orders iff the caller has not already done so", reason="conditional re-ordering changed")
